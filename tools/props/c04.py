"""C04 — timeout wrappers (REST TimeoutHandler, zRPC server/client interceptors, fx.DoWithTimeout)."""
import concurrent.futures
import copy
import os
import re

import vlib
import c04consts
from runner import Property, ExecError
from vlib import cz, clist, cbool, copt

HOUR = 3600 * 10**9
SHORT = 3 * 10**6          # the real timeout used for the 503 branch: 3 ms
CODES = [200, 201, 204, 301, 400, 404, 500, 502, 504, 101]
INFO_CODES = [100, 102, 103, 199]      # informational: sent at once by net/http, not the status
BAD_CODES = [0, 99, 600, 1000, 999, -1]
SHORT20 = 20 * 10**6       # a real timeout for server cases: 20 ms
OV = os.path.join(vlib.HARNESS, "overlay")


def _kind(mode):
    return {"none": None, "cancel": "KCancel", "race": "KCancel", "pre": "KCancel", "deadline": "KDeadline",
            "stall": "KCancel"}[mode]


class C04(Property):
    id = "C04"
    title = "Timeout control: deadlines only shrink, outcomes are all-or-nothing"
    quick_cases = 700
    thorough_cases = 9000
    design_ref = "DESIGN.md §6/C04"
    level_text = ("Unbounded Rocq theorems over an interleaving model (threads: handler script H, Done event D, the wrapper's "
                  "select S) of rest/handler.TimeoutHandler (incl. the locked Flush and net/http's 1xx semantics of the real "
                  "writer), the rest engine's choice of a route's timeout (route options, server config, SSE routes, "
                  "Read/WriteTimeout), zrpc UnaryTimeoutInterceptor, fx.DoWithTimeout and the client TimeoutInterceptor: for every "
                  "handler script and every schedule the client-visible response is the handler's complete response, the 503/499 "
                  "(DeadlineExceeded/Canceled, decided by the first Done event) timeout response, or the re-raised panic; nothing "
                  "reaches the client after the timeout (Write refused, Flush ignored); the timeout branch is enabled as soon as D "
                  "fired, whatever H does; the derived deadline is min(caller's, now+chosen timeout); websocket/SSE requests bypass "
                  "the wrapper and are not cut; requests (calls) through one instance / one server are isolated. Tied to the code by "
                  "controller-forced schedules (D at every script position, via cancel, real timeout, and a D/handler race) against "
                  "handler.TimeoutHandler, a real rest.Server bound to its router, and the interceptors; constants and source shapes "
                  "regenerated into coq/gen/C04Consts.v with GenProofs obligations.")
    level_note = ("Trusted: Coq kernel + vm_compute; hand-written LTS (each mutex-protected method / channel operation is one "
                  "atomic action; validated by a free-running -race monitor in the thorough tier); context.WithTimeout modelled "
                  "as min(parent, now+d); the executor linearises what it observed (S's position is inferred from write errors "
                  "and the response); the real writer is a double with net/http server semantics; Hijacker/Pusher pass-throughs "
                  "are outside the handler behaviours covered. Known finding C04-informational-status (1xx written first is "
                  "recorded as the status).")
    rule = ("FIRST, fixed: the engine's chain Timeout -> Recover -> work with invalid status codes 0/99/600/999/-1 as first / later "
            "WriteHeader, after a Write, after the timeout, and the work's own panic, D at every place around panic, recovery "
            "and return (rest with a gate between Recover and the timeout writer, sequences, real rest.Server with Recover on); "
            "slow-client stalls (D inside the handler's Flush).  REST: scripts of 0..7 actions (header set/add/del, WriteHeader incl. invalid and 1xx codes, Write chunks, Flush, "
            "ctx check, panic) on a Flusher or non-Flusher writer, D = none | cancel | real timeout / parent deadline | race at "
            "EVERY script position, plus websocket/SSE/zero-timeout exemptions; sequences of 2-3 requests through ONE "
            "TimeoutHandler instance with the first handler abandoned at its timeout and released at every position of the "
            "later request's life; real rest.Server cases: 2-4 route groups with option lists (WithTimeout / WithSSE in any "
            "order, repeated, <= 0), conf.Timeout 0 / 1 min / 1 h, timeout middleware on/off, inner middlewares on/off, 2-3 "
            "requests (plain / websocket / event-stream / near-miss headers, caller deadline earlier or later than the route's, "
            "real 20 ms route timeout) interleaved on one router; the same for 2-3 calls through one UnaryTimeoutInterceptor "
            "instance / fx.DoWithTimeout (abandoned work returns or panics while a later call is in flight, later call cancelled "
            "or with its own 3 ms deadline, half under GOMAXPROCS(1)); zRPC server + fx: work scripts with D at every position; "
            "client interceptor: timeout selection. Non-trivial = D fired strictly inside the script (not before the first or "
            "after the last action) and the script writes at least one body chunk or header, or (slot) D fired while the work was "
            "running, or (server) a wrapped request was ended by its Done event while another request of the same server was in "
            "flight; distinct = canonical JSON hash of the input")
    trusted_base = [
        "model theories/C04/Model.v is hand-written; tie = correspondence run (harness/cmd/c04 + overlay tests) on forced schedules",
        "atomicity of tw.mu-protected methods and channel operations (validated by the -race free-run, thorough tier)",
        "context.WithTimeout/WithCancel (stdlib) behave as min(parent, now+d) / sticky first error",
        "the REST real writer is a test double with net/http server semantics (first final WriteHeader/Write/Flush freezes status+headers; 1xx except 101 are informational)",
        "tools/c04consts.py extracts constants / source shapes by regular expressions over gofmt'ed sources; items whose shape is not recognised are established by experiment on the current tree (probe requests, lock probe, server probe); an item neither way establishes is a broken obligation",
        "the RecoverHandler inside the timeout middleware is modelled as: recover, WriteHeader(500) on the timeout writer, return (Recover.v); a handler action that hangs on a mutex of rest/handler is an observation (SoWait), established from goroutine stacks sampled for 2 s",
        "httpx error handler left at its default (no httpx.SetErrorHandler)",
    ]
    assumptions = ["handler does not use http.Hijacker / Pusher (websocket upgrades, which do, are exempt)",
                   "status codes written by generated handlers avoid 499/503"]

    _consts = None

    @property
    def consts(self):
        if self._consts is None:
            self._consts = c04consts.extract_or_defaults()
        return self._consts

    def regen(self, ctx):
        self._consts = None
        c04consts.LAST = None
        notes = c04consts.regen(probe=self._probe)
        self._consts = c04consts.LAST
        return notes

    # ------------------------------------------------------------------
    # the translator's behavioural fallback (tools/c04consts.py): items whose source shape the regular
    # expressions do not recognise are established by experiment on the code of the current tree

    def _probe(self, groups):
        from fractions import Fraction
        got = {}
        dflt = c04consts.DEFAULTS
        rest_groups = set(groups) - {"engine", "sse", "chain_order"}
        if rest_groups:
            ok, res = vlib.go_build("c04")
            if not ok:
                raise RuntimeError("executor does not build: " + res[-400:])

            def rc(script, mode="none", pos=0, **kw):
                c = self._rest(script, [], mode, pos, **kw)
                c.update(names={}, pshape="plain", paths_done=True)
                return c
            cases = {
                "cancel": rc([["w", [200]]], "cancel", 0),
                "deadline": rc([["w", [200]]], "deadline", 0),
                "plain": rc([["w", [200]]]),
                "ws": rc([["w", [200]]], req="ws"),
                "sse": rc([["w", [200]]], req="sse"),
                "empty": rc([]),
                "wh200": rc([["wh", 200], ["w", [200]]]),
                "skip": rc([["wh", 404], ["flush"], ["w", [200]]], fl=True),
                "lateflush": rc([["flush"]], "cancel", 0, fl=True),
                "flushstatus": rc([["wh", 404], ["flush"]], fl=True),
                "recover": rc([["panic", 1]], rec=True),
            }
            for code in (201, 204, 404, 500, 99, 100, 599, 600, 0, 1000, -1):
                cases["wh%d" % code] = rc([["wh", code]])
            cases["lock"] = {"kind": "lockprobe"}
            cases["reply"] = {"kind": "recoverprobe", "vocab": list(self.HEADER_VOCAB)}
            names = sorted(cases)
            sub = [dict(cases[n], id=j) for j, n in enumerate(names)]
            rcode, out, res = vlib.go_run(res, sub, tag="c04probe", timeout=300)
            if rcode != 0 or len(res) != len(sub) or any(r.get("err") for r in res if r.get("kind") not in ("lockprobe", "recoverprobe")):
                raise RuntimeError("probe run failed: rc=%s %s" % (rcode, out[-300:]))
            o = dict(zip(names, res))
            if "locked" in o["lock"]:
                got["flush_locks"] = bool(o["lock"]["locked"])
            reason = bytes(o["cancel"]["w"]["body"])
            if o["cancel"]["sout"] == "ret" and o["deadline"]["sout"] == "ret" and o["cancel"]["w"]["status"] \
                    and o["deadline"]["w"]["status"] and reason == bytes(o["deadline"]["w"]["body"]):
                got["code_cancel"], got["code_deadline"] = o["cancel"]["w"]["status"], o["deadline"]["w"]["status"]
                try:
                    got["reason"] = reason.decode("ascii")
                except UnicodeDecodeError:
                    pass
            got["write_checks_timedout"] = o["cancel"]["hobs"][:1] == [["wto"]]
            # the exemption test: requests with exactly these headers run unwrapped, a plain one wrapped
            if o["plain"]["wrapped"] and not o["ws"]["wrapped"] and not o["sse"]["wrapped"]:
                got["exempt"] = list(dflt["exempt"])
            if o["plain"]["w"]["status"] == o["empty"]["w"]["status"] and o["plain"]["w"]["wh_calls"] == 0:
                got["code_default"] = o["plain"]["w"]["status"]
            fwd = all(o["wh%d" % c_]["w"]["status"] == c_ and o["wh%d" % c_]["w"]["wh_calls"] == 1 for c_ in (201, 204, 404, 500))
            if fwd and o["wh200"]["w"]["status"] == 200 and o["wh200"]["w"]["wh_calls"] == 0:
                got["code_implicit"] = 200
            if o["skip"]["w"]["status"] == 404 and o["skip"]["w"]["wh_calls"] in (1, 2):
                got["done_skips_status_when_flushed"] = o["skip"]["w"]["wh_calls"] == 1

            def bad(c_):
                r = o["wh%d" % c_]
                return r["sout"] == "panic" and r["pkind"] == "badcode" and r["pval"] == c_
            if all(bad(c_) for c_ in (99, 600, 0, 1000, -1)) and not bad(100) and not bad(599) and not bad(201):
                got["code_min"], got["code_max"] = 100, 599
            lf = o["lateflush"]["w"]
            got["flush_checks_timedout"] = lf["flushes"] == 0 and lf["late"] == 0 and o["lateflush"]["sout"] == "ret"
            got["flush_sends_status"] = o["flushstatus"]["w"]["status"] == 404
            rp = o["reply"]
            if not rp.get("err") and all(len(v) == 1 for v in rp["sets"].values()):
                # the RecoverHandler's reply: header operations, then the status, then the chunks
                reply = [["del", n] for n in sorted(rp["dels"])] + [["set", n, rp["sets"][n][0]] for n in sorted(rp["sets"])]
                if rp["status"]:
                    reply.append(["wh", rp["status"]])
                reply += [["w", ch] for ch in (rp["writes"] or [])]
                got["recover_reply"] = reply
                got["recover_code"] = rp["status"] or 0
        if "chain_order" in groups:
            # a wrapped request whose handler sets a header and panics, Recover switched on: behind the timeout
            # middleware the recovery goes through the timeout writer (the handler's header arrives with the
            # reply); in front of it the buffered header is dropped with the re-raised panic
            q = {"group": 0, "route": 0, "hdrs": [], "parent_ns": None, "fl": True, "h0": [], "deadline": False,
                 "script": [["set", 1, 7], ["panic", 3]], "pshape": "plain"}
            c = {"kind": "srv", "id": 0, "conf_ms": 60000, "mw_timeout": True, "mw_inner": False, "rec": True, "names": {},
                 "groups": [{"opts": [["timeout", HOUR]], "n": 1}], "reqs": [q],
                 "order": [["start", 0], ["H", 0], ["H", 0]], "procs": 0}
            res = self._exec_kind("srv", [c])
            if len(res) == 1 and not res[0].get("err"):
                r0 = res[0]["reqs"][0]
                if r0["wrapped"] and r0["sout"] == "ret" and r0["w"]["status"]:
                    got["recover_inside"] = any(h["k"] == 1 for h in r0["w"]["snap"])
        if {"engine", "sse"} & set(groups):
            (an, av) = dflt["exempt"][1]
            q0 = {"group": 0, "route": 0, "hdrs": [], "parent_ns": None, "fl": True, "h0": [], "deadline": False,
                  "script": [], "pshape": "plain"}
            q1 = {"group": 1, "route": 0, "hdrs": [[an, av]], "parent_ns": None, "fl": True, "h0": [], "deadline": False,
                  "script": [["w", [200]]], "pshape": "plain"}
            conf_ms = 60000
            c = {"kind": "srv", "id": 0, "conf_ms": conf_ms, "mw_timeout": True, "mw_inner": False, "names": {},
                 "groups": [{"opts": [], "n": 1}, {"opts": [["sse"]], "n": 1}], "reqs": [q0, q1],
                 "order": [["start", 0], ["H", 0], ["start", 1], ["H", 1], ["H", 1]], "procs": 0}
            res = self._exec_kind("srv", [c])
            if len(res) != 1 or res[0].get("err"):
                raise RuntimeError("server probe failed: %s" % (res[0].get("err") if res else "no result"))
            r = res[0]
            eng, rd, wr = r["eng_ns"], r["read_ns"], r["write_ns"]
            r0 = r["reqs"][0]
            if eng > 0 and eng % conf_ms == 0 and r0["has_dl"] and r0["wrapped"]:
                got["conf_unit_ns_engine"] = eng // conf_ms
                span = r0["dl_seen_ns"] - r0["t1_ns"]
                for u in (1, 10**3, 10**6, 10**9):
                    if r0["t0_ns"] + conf_ms * u <= r0["dl_seen_ns"] <= r0["t1_ns"] + conf_ms * u:
                        got["conf_unit_ns"] = u
                fr, fw = Fraction(rd, eng), Fraction(wr, eng)
                got["read_num"], got["read_den"] = fr.numerator, fr.denominator
                got["write_num"], got["write_den"] = fw.numerator, fw.denominator
            hs = dict((x["name"], x["vals"]) for x in r["reqs"][1]["w"].get("snap_x") or [])
            if hs and all(len(v) == 1 for v in hs.values()) and not r["reqs"][1]["wrapped"]:
                order = [n for n, _v in dflt["sse_headers"] if n in hs] + sorted(n for n in hs if n not in dict(dflt["sse_headers"]))
                got["sse_headers"] = [(n, hs[n][0]) for n in order]
        return got

    # ------------------------------------------------------------------
    def prepare(self, ctx):
        ok, res = vlib.go_build("c04")
        self.bin = res if ok else None
        return ok, ("" if ok else res)

    # ------------------------------------------------------------------
    # generation

    RECOVER_BAD = (0, 99, 600, 999, -1)

    def _corpus_recover(self):
        """FIRST in every run: the chain the rest engine builds, Timeout -> Recover -> work.  The work passes an
        invalid status code (0 = unset field, a proxied 999, anything outside 100..599) to WriteHeader as its
        FIRST status call (checkWriteHeaderCode panics inside the timeout writer, under tw.mu), as a later one
        (ignored), after a Write, after the timeout; or panics itself.  The RecoverHandler then calls
        WriteHeader(500) on the timeout writer — one more locked method — and returns; the Done event at every
        place around the panic, the recovery's reply and the return.  Every error path of the writer must leave
        tw.mu free: a hang here shows as ServeHTTP not returning (SoWait / ret_at_d = 0).
        Single requests with a gate between Recover and the timeout writer (rest), two requests through one
        chain (seq), and a real rest.Server with conf.Middlewares.Recover (srv, recovery ungated)."""
        res = []
        own = [[1, [5]]]
        for k, code in enumerate(self.RECOVER_BAD):
            first = [["wh", code]]
            res.append(self._rest(first, own, "none", 0, rec=True, fl=k % 2 == 0))
            res.append(self._rest(first, own, "cancel", 1, rec=True))      # D between the panic and the 500
            later = [["set", 1, 7], ["wh", 201], ["wh", code], ["w", [200]]]
            res.append(self._rest(later, own, "none", 0, rec=True))
            res.append(self._rest(later, [], "cancel", 3, rec=True, fl=True))
            afterw = [["w", [200]], ["wh", code], ["w", [201]]]
            res.append(self._rest(afterw, [], "none", 0, rec=True))
            res.append(self._rest(afterw, own, "cancel", 0, rec=True))     # refused Write, then the code panics AFTER the timeout
            hdr = [["set", 2, 9], ["wh", code], ["w", [200]]]
            res.append(self._rest(hdr, own, ("deadline", "race", "cancel", "pre", "race")[k], 1, rec=True, yld=k))
        for code in (0, 999):
            for pos in (0, 2, 3, 4):
                res.append(self._rest([["wh", code]], own, "cancel", pos, rec=True, fl=pos == 2))
        # the work's own panic, a flushed-through prefix, a context check in front
        res.append(self._rest([["w", [200]], ["panic", 4]], own, "none", 0, rec=True))
        for pos in (1, 2, 3):
            res.append(self._rest([["set", 1, 7], ["panic", 4]], own, "cancel", pos, rec=True))
        res.append(self._rest([["w", [200]], ["flush"], ["wh", 0], ["panic", 3]], [], "none", 0, rec=True, fl=True))
        res.append(self._rest([["w", [200]], ["flush"], ["panic", 3]], [], "cancel", 3, rec=True, fl=True))
        res.append(self._rest([["chk"], ["wh", 600]], [], "cancel", 0, rec=True))
        res.append(self._rest([["chk"], ["wh", 600]], [], "cancel", 1, rec=True))
        # exempt requests: the recovery answers on the real writer (its own check: 100..999)
        res.append(self._rest([["wh", 0], ["w", [200]]], own, "none", 0, req="ws", rec=True))
        res.append(self._rest([["wh", 999], ["w", [200]]], own, "none", 0, req="sse", rec=True))
        res.append(self._rest([["wh", 1000]], own, "cancel", 1, dur=0, rec=True))
        # two requests through ONE chain: the first one's invalid code, the second served meanwhile / afterwards
        for code in (0, 999, -1):
            reqs = [{"h0": [], "script": [["wh", code]], "fl": False},
                    {"h0": own, "script": [["wh", 404], ["w", [200]]], "fl": True}]
            a = [["start", 0], ["H", 0], ["H", 0], ["H", 0]]
            b = [["start", 1], ["H", 1], ["H", 1], ["H", 1]]
            res.append(self._seq(reqs, a + b, rec=True))
            res.append(self._seq(reqs, a[:2] + b + a[2:], rec=True))
            res.append(self._seq(reqs, [["start", 0], ["start", 1], ["H", 0], ["D", 0], ["H", 1], ["H", 0], ["H", 1],
                                        ["H", 0], ["H", 1]], rec=True))
        # a real rest.Server, Recover switched on like in the default configuration
        for code in self.RECOVER_BAD:
            for hdrs in ([], [["Upgrade", "websocket"]]):
                q0 = {"group": 0, "route": 0, "hdrs": hdrs, "parent_ns": None, "fl": True, "h0": [], "deadline": False,
                      "script": [["set", 1, 7], ["wh", code], ["w", [200]]]}
                q1 = {"group": 1, "route": 0, "hdrs": [], "parent_ns": None, "fl": True, "h0": own, "deadline": False,
                      "script": [["wh", 201], ["wh", code], ["w", [201]]]}
                c = {"kind": "srv", "conf_ms": 60000, "mw_timeout": True, "mw_inner": code == 600, "rec": True,
                     "groups": [{"opts": [["timeout", HOUR]], "n": 1}, {"opts": [], "n": 1}], "reqs": [q0, q1],
                     "order": [["start", 0], ["H", 0], ["start", 1], ["H", 1], ["H", 0], ["H", 1], ["H", 1], ["H", 1]],
                     "procs": 0}
                res.append(c)
        return res

    def _corpus_stall(self):
        """a slow client: the Write that the handler's first effective Flush makes on the real writer stalls, the
        request is cancelled meanwhile, then the stall is lifted.  Flush checks timedOut and writes under ONE
        critical section: the timeout reply comes after the flushed chunk, never in the middle of the Flush, and
        nothing of the handler follows it (seeded C04-7: check and write split)."""
        own = [[1, [5]]]
        res = []
        for script in ([["w", [200]], ["flush"], ["w", [201]]],
                       [["set", 1, 7], ["wh", 404], ["w", [200, 201]], ["flush"], ["w", [202]], ["flush"]],
                       [["flush"]],
                       [["w", [200]], ["rcflush"], ["chk"], ["w", [201]]]):
            res.append(dict(self._rest(script, own, "stall", 0, fl=True), paths_done=True))
        res.append(dict(self._rest([["w", [200]], ["flush"], ["panic", 2]], [], "stall", 0, fl=True, rec=True), paths_done=True))
        # Flush commits the header (status 200 unless one was recorded): a later invalid code is ignored like any
        # later WriteHeader, it does not panic (mutation sweep m013 / m014: Flush no longer marks wroteHeader)
        for code in (0, 999):
            for rec in (False, True):
                res.append(dict(self._rest([["flush"], ["wh", code], ["w", [200]]], own, "none", 0, fl=True, rec=rec), paths_done=True))
                res.append(dict(self._rest([["w", [200]], ["flush"], ["wh", code]], [], "cancel", 3, fl=True, rec=rec), paths_done=True))
            res.append(dict(self._rest([["flush"], ["wh", code]], [], "none", 0, fl=False), paths_done=True))   # no Flusher: it panics
        return res

    def _corpus_headers(self):
        """the exemption test on a real rest.Server, one request per header variant (every run): the two literal
        exemptions, spellings that canonicalise to them, near misses, multi-valued Accept, and headers that only
        LOOK related (Connection: Upgrade without Upgrade: websocket, Accept: application/json): wrapped or not,
        deadline = min(caller's, now + the route's timeout), cancelled after one action"""
        (un, uv), (an, av) = self.consts["exempt"]
        variants = [[], [[un, uv]], [[an, av]], [[un.lower(), uv]], [[an.upper(), av]], [[un, uv.capitalize()]],
                    [[un, uv.upper()]], [[an, av + ", text/html"]], [[an, "text/html"], [an, av]],
                    [[an, av], [an, "text/html"]], [[an, "application/json"], ["Connection", "Upgrade"]],
                    [["Connection", "Upgrade"]], [["Connection", "keep-alive, Upgrade"], [un, "h2c"]],
                    [[an, "*/*"]], [["Sec-WebSocket-Key", "x"], ["Connection", "Upgrade"]], [[un, uv], [an, av]]]
        res = []
        for j, hdrs in enumerate(variants):
            q = {"group": j % 2, "route": 0, "hdrs": hdrs, "parent_ns": (None, 3 * HOUR)[j % 2], "fl": True, "h0": [],
                 "deadline": False, "script": [["set", 1, 7], ["w", [200]], ["chk"], ["w", [201]]]}
            res.append({"kind": "srv", "conf_ms": 60000, "mw_timeout": True, "mw_inner": False, "rec": j % 3 == 0,
                        "groups": [{"opts": [["timeout", HOUR]], "n": 1}, {"opts": [], "n": 1}], "reqs": [q],
                        "order": [["start", 0], ["H", 0], ["D", 0], ["H", 0], ["H", 0], ["H", 0], ["H", 0]], "procs": 0})
        return res

    def corpus(self):
        s1 = [["set", 1, 7], ["wh", 201], ["w", [200, 201]], ["set", 2, 9], ["w", [202]]]
        res = self._corpus_recover() + self._corpus_stall() + self._corpus_headers()
        for pos in range(0, 7):
            for mode in ("cancel", "deadline", "race"):
                res.append(self._rest(s1, [[1, [5]]], mode, pos, yld=pos % 3))
        res.append(self._rest(s1, [[1, [5]]], "none", 0))
        res.append(self._rest(s1, [[1, [5]]], "pre", 0))
        res.append(self._rest([], [], "pre", 0))
        res.append(self._rest(s1, [[1, [5]]], "cancel", 3, req="ws"))
        res.append(self._rest(s1 + [["chk"], ["w", [203]]], [], "cancel", 3, req="sse"))
        res.append(self._rest(s1, [], "cancel", 2, dur=0))
        res.append(self._rest([["w", [200]], ["panic", 4]], [], "none", 0))
        res.append(self._rest([["wh", 700]], [], "cancel", 0))
        res.append(self._rest([["wh", 200], ["wh", 99], ["w", []]], [[2, [1, 2]]], "none", 0))
        res.append(self._rest([["w", [200]], ["chk"], ["w", [201]], ["chk"], ["w", [202]]], [], "race", 3))
        res.append(self._rest([["w", [200]], ["chk"], ["w", [201]]], [], "deadline", 1, parent=SHORT, dur=HOUR))
        # whether WriteHeader ran before or after the timeout branch shows only in a later invalid code
        for y in (0, 1, 1, 3, 8):
            res.append(self._rest([["wh", 502], ["wh", 1000]], [], "race", 0, yld=y))
        # Flush (repaired by 696f32f): status kept, nothing passed on after the timeout
        fs = [["set", 1, 7], ["wh", 404], ["w", [200]], ["flush"], ["set", 2, 9], ["w", [201]], ["flush"], ["w", [202]]]
        for fl in (True, False):
            res.append(self._rest(fs, [[1, [5]]], "none", 0, fl=fl))
            for pos in range(0, 10):
                res.append(self._rest(fs, [[1, [5]]], "cancel", pos, fl=fl))
        res.append(self._rest([["w", [200]], ["flush"]], [], "cancel", 1, fl=True))
        # flushed BEFORE the expiry, then Write + Flush after the middleware returned (handler ignores its context):
        # the writer is sealed whatever was flushed before — the late Write is refused, the late Flush does nothing
        # (seeded C04-11: reply skipped and writer not sealed after a flush); cancel and real deadline, each place
        late = [["w", [200, 201]], ["flush"], ["w", [202]], ["flush"], ["w", [203]]]
        for mode in ("cancel", "deadline"):
            for pos in (2, 3, 4):
                res.append(dict(self._rest(late, [[1, [5]]], mode, pos, fl=True), paths_done=True))
        for pos in (4, 5, 6, 7):
            res.append(self._rest(fs, [[1, [5]]], "deadline", pos, fl=True))
        res.append(dict(self._rest(late, [], "deadline", 2, dur=HOUR, parent=SHORT, fl=True), paths_done=True))
        res.append(self._rest([["flush"], ["wh", 404], ["w", [200]]], [], "none", 0, fl=True))
        res.append(self._rest(fs, [], "cancel", 3, req="sse", fl=True))
        # 1xx informational codes: after the final status (ignored), and headers around them with D at every position
        i1 = [["set", 1, 7], ["wh", 201], ["wh", 103], ["set", 2, 9], ["w", [200]], ["wh", 100]]
        for pos in range(0, 8):
            res.append(self._rest(i1, [[3, [4]]], "cancel", pos, fl=pos % 2 == 0))
        # ... and first (known finding C04-informational-status when the handler completes)
        i2 = [["set", 1, 7], ["wh", 103], ["set", 2, 9], ["wh", 102], ["wh", 404], ["w", [200]]]
        for pos in range(0, 8):
            res.append(self._rest(i2, [[3, [4]]], "cancel", pos))
        res.append(self._rest(i2, [], "none", 0, fl=True))
        res.append(self._rest([["wh", 101], ["w", [200]]], [], "none", 0))
        res.append(self._rest(i2, [], "cancel", 2, req="ws"))
        # io.Copy(w, stalled source) / io.WriteString / fmt.Fprintf: D while the copy waits for its source
        # sub-millisecond timeouts: the context is (all but) born expired
        for dur in (1, 1000, 500000):
            res.append(self._rest(s1, [[1, [5]]], "deadline", 0, dur=dur))
            res.append(self._rest([["flush"], ["w", [200]]], [], "deadline", 0, dur=dur, fl=True))
        # http.ResponseController: Flush finds timeoutWriter.Flush; SetWriteDeadline finds nothing (no Unwrap)
        rc = [["rcdl"], ["wh", 404], ["w", [200]], ["rcflush"], ["rcdl"], ["w", [201]], ["rcflush"], ["rcdl"]]
        for pos in range(0, 7):
            res.append(dict(self._rest(rc, [], "cancel", pos, fl=True), paths_done=True))
        res.append(dict(self._rest(rc, [], "cancel", 2, req="ws", fl=True), paths_done=True))
        cp = [["set", 1, 7], ["copy", [[200], [201, 202], [203]]], ["ws", [204]], ["printf", [205]]]
        for fl in (True, False):
            res.append(dict(self._rest(cp, [], "none", 0, fl=fl), paths_done=True))
            for pos in range(0, 7):
                res.append(dict(self._rest(cp, [], "cancel", pos, fl=fl), paths_done=True))
        for pos in range(1, 4):
            res.append(dict(self._rest(cp, [], "deadline", pos), paths_done=True))
            res.append(dict(self._rest(cp, [], "race", pos, yld=pos), paths_done=True))
        res.append(dict(self._rest(cp, [], "cancel", 2, req="sse", fl=True), paths_done=True))
        return self._assign_names(self._assign_paths(self._assign_shapes(res + self._cross_product())))

    @staticmethod
    def _expand(script, hobs=None):
        """the model-level script of an executor-level one: io.WriteString / fmt.Fprintf are Writes; io.Copy(w, src)
        of k chunks is one Write per chunk the copy got to — it gives up at the first refused chunk (oracle: the
        observed reports [hobs] of this handler say where; the model checks that this chunk was indeed refused and
        all earlier ones accepted).  Without observations (or past them): all chunks."""
        out, hp = [], 0
        for idx, a in enumerate(script):
            def ob():
                return hobs[hp] if hobs is not None and hp < len(hobs) else None
            if a[0] == "rcdl":
                continue                    # ResponseController.SetWriteDeadline: no step, nothing reaches a writer
            if a[0] in ("ws", "printf"):
                out.append(["w", a[1]])
                hp += 1
            elif a[0] == "rcflush":
                out.append(["flush"])       # ResponseController.Flush finds the writer's Flush method
                hp += 1
            elif a[0] == "copy":
                for ch in a[1]:
                    out.append(["w", ch])
                    o = ob()
                    hp += 1
                    if o is not None and o[0] != "wok":
                        break
            else:
                out.append(a)
                o = ob()
                hp += 1
                if o is not None and ((o[0] == "ctx" and o[1]) or o[0] == "panic"):
                    # the handler returned / panicked here: the rest was never attempted, keep it as written
                    return out + C04._expand(script[idx + 1:])
        return out

    def _assign_paths(self, cases):
        """handlers also write through the OPTIONAL-INTERFACE paths of the writer they are given: runs of Writes
        become one io.Copy(w, stalled source) (probes the writer for io.ReaderFrom; every Read waits for the
        controller, ignoring the context), single Writes become io.WriteString (io.StringWriter probe) or
        fmt.Fprintf.  The model-level script (and so every position in it) is unchanged.  Chosen by hash."""
        def conv(script, salt):
            if self._info_first(script, True) or self._info_first(script, False):
                return script
            h = int(vlib.canon_hash([script, salt]), 16)
            if h % 5 >= 3:
                return script
            out, i = [], 0
            while i < len(script):
                a = script[i]
                if a[0] == "w" and a[1]:
                    j = i
                    while j < len(script) and script[j][0] == "w" and script[j][1]:
                        j += 1
                    h //= 7
                    if h % 3 != 0:
                        out.append(["copy", [x[1] for x in script[i:j]]])
                    else:
                        out += [[("ws", "printf")[(h // 3 + t) % 2], x[1]] for t, x in enumerate(script[i:j])]
                    i = j
                elif a[0] == "flush" and (h // 11) % 2 == 0:
                    out.append(["rcflush"])
                    i += 1
                else:
                    out.append(a)
                    i += 1
            # http.NewResponseController(w).SetWriteDeadline(...) before some actions and before the return
            h //= 13
            res = []
            for a in out + [None]:
                if h % 4 == 0:
                    res.append(["rcdl"])
                h = h // 3 + 5
                if a is not None:
                    res.append(a)
            return res
        for c in cases:
            k = c.get("kind")
            if c.get("paths_done"):
                continue
            if k == "rest":
                c["script"] = conv(c["script"], 0)
                c["paths_done"] = True
            elif k in ("seq", "srv"):
                for i, q in enumerate(c["reqs"]):
                    q["script"] = conv(q["script"], i)
                c["paths_done"] = True
        return cases

    HEADER_VOCAB = ["Access-Control-Allow-Origin", "Access-Control-Allow-Headers", "Access-Control-Allow-Methods",
                    "Access-Control-Allow-Credentials", "Access-Control-Expose-Headers", "Vary", "Content-Type",
                    "Content-Length", "Content-Encoding", "Set-Cookie", "Cache-Control", "Connection", "Upgrade",
                    "Trailer", "Transfer-Encoding", "X-Content-Type-Options", "Sec-Websocket-Accept",
                    "Sec-Websocket-Protocol", "Retry-After", "Location", "Www-Authenticate", "Etag", "Last-Modified",
                    "Date", "Server", "Link", "X-Trace-Id"]

    def _assign_names(self, cases):
        """header NAMES are inputs: in ~3 of 4 REST / sequence / server cases the scripts' header keys 1..4 go by
        real header names some layer might special-case (CORS, content negotiation, cookies, hop-by-hop, ...),
        in canonical, lower-case or upper-case spelling; half of those cases have at least one Access-Control-*
        name.  Chosen by hash.  Server cases keep clear of the three names an SSE route sets itself."""
        for c in cases:
            if c.get("kind") not in ("rest", "seq", "srv") or "names" in c:
                continue
            h = int(vlib.canon_hash(c), 16)
            if h % 4 == 0:
                c["names"] = {}
                continue
            vocab = list(self.HEADER_VOCAB)
            if c.get("rec"):
                own = set(c04consts.reply_names(self._reply()))      # names the RecoverHandler's reply touches
                vocab = [n for n in vocab if n not in own]
            if c["kind"] == "srv":
                own = set(n for n, _v in self.consts["sse_headers"])
                vocab = [n for n in vocab if n not in own]
            names, h = {}, h // 4
            for k in (1, 2, 3, 4):
                pool = vocab[:5] if (k == 1 and h % 2 == 0) else vocab
                n = pool[(h // 3) % len(pool)]
                h = h // 29 + 7 * k
                vocab.remove(n)
                names[str(k)] = (n, n.lower(), n.upper())[h % 3]
            c["names"] = names
        return cases

    SHAPES = ["plain", "plain", "plain", "value", "cause", "cause", "cause_nil", "nested", "nested", "detached"]

    @staticmethod
    def _par(x):
        """the caller's deadline as the wrapper can see it (a detached context hides its ancestor's)"""
        return None if x.get("pshape") == "detached" else x.get("parent_ns")

    def _assign_shapes(self, cases):
        """the caller-supplied context is an input with structure (harness/cmd/c04/ctxshape.go): every case /
        request / call gets one of plain, value attached, WithCancelCause(custom error), WithCancelCause(nil),
        cancelled grandparent with a custom cause (deadlines through WithDeadlineCause), WithoutCancel in between;
        chosen by the hash of the unit, so that replays and shrunk cases keep it"""
        def pick(unit, salt):
            if "pshape" in unit:
                return
            sh = self.SHAPES[int(vlib.canon_hash([unit, salt]), 16) % len(self.SHAPES)]
            par = unit.get("parent_ns")
            if sh == "detached" and (par is None or par < HOUR // 10):
                sh = "cause"          # a short caller deadline is the Done event of the case: it has to arrive
            unit["pshape"] = sh
        for c in cases:
            k = c.get("kind")
            if k in ("rest", "zrpc", "fx", "client"):
                pick(c, 0)
                if k == "client" and "pre_done" not in c:
                    c["pre_done"] = int(vlib.canon_hash(c), 16) % 5 == 0 and c["inv_err"] == 0
            elif k in ("seq", "srv"):
                for i, q in enumerate(c["reqs"]):
                    pick(q, i)
            elif k in ("zseq", "fxseq"):
                for i, q in enumerate(c["calls"]):
                    pick(q, i)
        return cases

    def _cross_product(self):
        """every run: the full cross product of timeout settings for the zRPC client interceptor and the zRPC
        server interceptor: {caller deadline: none / earlier than / between / later than each configured value}
        x {default timeout: <= 0 / value} x {per-call / per-method override: absent / shorter / longer / <= 0}
        (the REST per-route product is in the server cases)."""
        res = []
        s_, m_, l_ = HOUR // 3, HOUR, 2 * HOUR
        callers = [None, HOUR // 6, HOUR // 2, 3 * HOUR // 2, 3 * HOUR]
        j = 0
        for default in (m_, 0, -1):
            for opts in ([], [s_], [l_], [0], [-5], [s_, l_], [l_, s_], [0, s_]):
                for caller in callers:
                    j += 1
                    res.append({"kind": "client", "opts": opts, "filler": j % 3, "default_ns": default,
                                "parent_ns": caller, "inv_err": 7 if j % 5 == 0 else 0})
        # server: default x per-method entry for the called method (and one for another method) x caller
        for default in (m_, 0):
            for override in (None, s_, l_, -5):
                for caller in callers:
                    confs = [[2, HOUR // 2]]                     # another method's entry never applies
                    if override is not None:
                        confs.append([1, override])
                    eff = override if override is not None else default
                    if eff <= 0:
                        # the derived context is born expired: the wrapper returns DeadlineExceeded at once
                        res.append(self._slot("zrpc", ["work"], [0, 77], ["ret", 3, 0], "deadline", 0, default,
                                              caller, confs, 1))
                    else:
                        res.append(self._slot("zrpc", ["work"], [0, 77], ["ret", 3, 0], "none", 0, default,
                                              caller, confs, 1))
        return res

    def _rest(self, script, h0, mode, pos, req="plain", dur=None, parent=None, yld=0, fl=False, rec=False):
        if dur is None:
            dur = SHORT if mode == "deadline" else HOUR
        c = {"kind": "rest", "req": req, "dur_ns": dur, "parent_ns": parent, "h0": h0, "fl": fl,
             "script": script, "d": {"mode": mode, "pos": pos, "yield": yld}}
        if rec:
            c["rec"] = True          # handler.RecoverHandler between the timeout middleware and the work
        if mode == "stall":
            c["stall"] = True        # slow client: D falls INSIDE the handler's first effective Flush
        return c

    @staticmethod
    def _info_first(script, fl):
        """the first status-committing action is WriteHeader(1xx != 101) (Model.info_first)"""
        for a in script:
            if a[0] == "wh":
                return 100 <= a[1] <= 199 and a[1] != 101
            if a[0] in ("w", "ws", "printf", "copy") or (a[0] in ("flush", "rcflush") and fl):
                return False
        return False

    def _no_info_first(self, script, fl):
        """replace a leading 1xx by a final code (multi-request cases keep clear of the known finding)"""
        if not self._info_first(script, fl):
            return script
        out, done = [], False
        for a in script:
            if not done and a[0] == "wh":
                a, done = ["wh", 202], True
            out.append(a)
        return out

    def _script(self, rng):
        n = rng.choice([0, 1, 2, 3, 3, 4, 4, 5, 6, 7])
        acts = []
        for _ in range(n):
            r = rng.random()
            if r < 0.16:
                acts.append(["set", rng.randint(1, 3), rng.randint(1, 9)])
            elif r < 0.26:
                acts.append(["add", rng.randint(1, 3), rng.randint(1, 9)])
            elif r < 0.32:
                acts.append(["del", rng.randint(1, 3)])
            elif r < 0.50:
                x = rng.random()
                c = rng.choice(CODES) if x < 0.75 else (rng.choice(INFO_CODES) if x < 0.9 else rng.choice(BAD_CODES))
                acts.append(["wh", c])
            elif r < 0.76:
                k = rng.choice([0, 1, 1, 2, 3])
                acts.append(["w", [rng.randint(128, 255) for _ in range(k)]])
            elif r < 0.84:
                acts.append(["flush"])
            elif r < 0.95:
                acts.append(["chk"])
            else:
                acts.append(["panic", rng.randint(1, 9)])
        # most 1xx codes come after a final status (ignored by every writer); one in three
        # scripts that start with a 1xx keeps it (known finding C04-informational-status)
        # ... and never together with Flush (the known-finding shape is kept narrow: no flush-through)
        if rng.random() < 0.67 or any(a[0] == "flush" for a in acts):
            acts = self._no_info_first(self._no_info_first(acts, True), False)
        return acts

    def _h0(self, rng):
        h0 = []
        for k in sorted(rng.sample([1, 2, 3, 4], rng.choice([0, 0, 1, 2]))):
            h0.append([k, [rng.randint(1, 9) for _ in range(rng.choice([1, 1, 2]))]])
        return h0

    def gen(self, rng, n, tier):
        cases = []
        n_rest = n if not self._slots_enabled() else (n * 36) // 100
        n_seq = (n * 16) // 100
        while len(cases) < n_rest:
            script = self._script(rng)
            h0 = self._h0(rng)
            fl = rng.random() < 0.6
            # one script in three runs behind a RecoverHandler (then a script that panics goes on for two more
            # handler actions: the recovery's WriteHeader(500) and the return)
            rec = rng.random() < 0.34
            if rec:
                script = self._no_info_first(self._no_info_first(script, True), False)
                if rng.random() < 0.5 and not any(a[0] == "panic" or (a[0] == "wh" and a[1] in BAD_CODES) for a in script):
                    j = rng.randint(0, len(script))
                    script = script[:j] + [rng.choice([["wh", rng.choice(BAD_CODES)], ["panic", rng.randint(1, 9)]])] + script[j:]
            steps = len(script) + 1 + (2 if rec else 0)
            par = rng.choice([None, None, HOUR // 2, 2 * HOUR])
            cases.append(self._rest(script, h0, "none", 0, parent=par, fl=fl, rec=rec))
            cases.append(self._rest(script, h0, "pre", 0, parent=par, fl=fl, rec=rec))
            for pos in range(0, steps + 1):
                cases.append(self._rest(script, h0, "cancel", pos, parent=par, fl=fl, rec=rec))
            for pos in range(0, steps):
                if rng.random() < 0.5:
                    cases.append(self._rest(script, h0, "deadline", pos, parent=rng.choice([None, 2 * HOUR]), fl=fl, rec=rec))
                else:
                    cases.append(self._rest(script, h0, "deadline", pos, dur=HOUR, parent=SHORT, fl=fl, rec=rec))
                cases.append(self._rest(script, h0, "race", pos, parent=par, yld=rng.choice([0, 0, 1, 3, 8]), fl=fl, rec=rec))
            if fl and any(a[0] == "flush" for a in script):
                # slow client: the Done event inside the first effective Flush
                cases.append(self._rest(script, h0, "stall", 0, parent=par, fl=fl, rec=rec))
            x = rng.random()
            pos = rng.randint(0, steps)
            if x < 0.25:
                cases.append(self._rest(script, h0, "cancel", pos, req="ws", parent=par, fl=fl, rec=rec))
            elif x < 0.5:
                cases.append(self._rest(script, h0, "cancel", pos, req="sse", parent=par, fl=fl, rec=rec))
            elif x < 0.65:
                cases.append(self._rest(script, h0, "cancel", pos, dur=rng.choice([0, -5]), parent=par, fl=fl, rec=rec))
        cases = cases[:max(n_rest, 1)]
        cases += self._gen_seq(rng, n_seq)
        cases += self._gen_srv(rng, (n * 14) // 100)
        cases += self._gen_sseq(rng, (n * 12) // 100)
        if self._slots_enabled():
            cases += self._gen_slots(rng, n - len(cases))
        return self._assign_names(self._assign_paths(self._assign_shapes(cases)))

    # sequences: several requests through one middleware instance --------------------
    def _seq_script(self, rng, who, full):
        lo, hi = (128, 191) if who == 0 else (192, 255)
        vals = (1, 4) if who == 0 else (5, 9)
        codes = [201, 404, 500] if who == 0 else [204, 301, 400, 502]
        acts = []
        for _ in range(rng.choice([1, 2, 3, 3, 4, 5])):
            r = rng.random()
            if r < 0.2:
                acts.append(["set", rng.randint(1, 3), rng.randint(*vals)])
            elif r < 0.3:
                acts.append(["add", rng.randint(1, 3), rng.randint(*vals)])
            elif r < 0.35:
                acts.append(["del", rng.randint(1, 3)])
            elif r < 0.5:
                acts.append(["wh", rng.choice(codes) if rng.random() < 0.9 else rng.choice(BAD_CODES)])
            elif r < 0.8:
                acts.append(["w", [rng.randint(lo, hi) for _ in range(rng.choice([1, 1, 2, 3]))]])
            elif r < 0.9:
                acts.append(["flush"])
            elif not full:
                acts.append(["wh", rng.choice(INFO_CODES + codes)])
            elif r < 0.96:
                acts.append(["chk"])
            else:
                acts.append(["panic", rng.randint(1, 9)])
        return self._no_info_first(self._no_info_first(acts, True), False)

    def _seq(self, reqs, order, rec=False):
        c = {"kind": "seq", "dur_ns": HOUR, "reqs": reqs, "order": order}
        if rec:
            c["rec"] = True
        c["procs"] = int(vlib.canon_hash(c), 16) % 2       # half of them on a single P (per-P caches)
        return c

    def _gen_seq(self, rng, n):
        cases = []
        while len(cases) < n:
            n0, rec = len(cases), rng.random() < 0.3      # Timeout -> Recover -> work
            a = self._seq_script(rng, 0, False)      # the abandoned handler ignores its context
            b = self._seq_script(rng, 1, True)
            reqs = [{"h0": self._h0(rng), "script": a, "fl": rng.random() < 0.6},
                    {"h0": self._h0(rng), "script": b, "fl": rng.random() < 0.6}]
            ka = rng.randint(0, len(a))
            head = [["start", 0]] + [["H", 0]] * ka + [["D", 0]]
            late = [["H", 0]] * (len(a) + 1 - ka)
            bseq = [["start", 1]] + [["H", 1]] * (len(b) + 1)
            # A's remaining actions as one block at every position of B's life
            for p in range(len(bseq) + 1):
                cases.append(self._seq(reqs, head + bseq[:p] + late + bseq[p:]))
            # spread: one late action of A after each of B's
            mix, la = [], list(late)
            for e in bseq:
                mix.append(e)
                if la:
                    mix.append(la.pop())
            cases.append(self._seq(reqs, head + mix + la))
            # B is cancelled too, somewhere; A's late actions after that
            p = rng.randint(1, len(bseq))
            cases.append(self._seq(reqs, head + bseq[:p] + [["D", 1]] + late[:1] + bseq[p:] + late[1:]))
            # both in flight from the start, random merge, A cancelled somewhere
            xs = [["H", 0]] * (len(a) + 1)
            ys = [["H", 1]] * (len(b) + 1)
            merged = []
            while xs or ys:
                src = xs if (xs and (not ys or rng.random() < 0.5)) else ys
                merged.append(src.pop())
            merged.insert(rng.randint(0, len(merged)), ["D", 0])
            cases.append(self._seq(reqs, [["start", 0], ["start", 1]] + merged))
            # a third request after the two
            if rng.random() < 0.3:
                c3 = self._seq_script(rng, 1, True)
                r3 = reqs + [{"h0": [], "script": c3, "fl": rng.random() < 0.5}]
                cases.append(self._seq(r3, head + bseq[:2] + late[:1] + bseq[2:] + [["start", 2]] + late[1:2]
                                       + [["H", 2]] * (len(c3) + 1) + late[2:]))
            if rec:
                for c in cases[n0:]:
                    c["rec"] = True
        return cases[:n]

    # a real rest.Server with several routes ---------------------------------------
    GROUP_OPTS = [[], [], [["timeout", HOUR]], [["timeout", 2 * HOUR]], [["sse"]], [["timeout", HOUR], ["sse"]],
                  [["sse"], ["timeout", HOUR]], [["timeout", -5]], [["timeout", 0]],
                  [["timeout", HOUR], ["timeout", HOUR // 2]], [["timeout", SHORT20]], [["timeout", SHORT20]],
                  [["timeout", 1]], [["timeout", 500000]]]          # 1 ns, half a millisecond

    def _req_hdrs(self, rng):
        """request headers: names and values are inputs — the literal exemption headers, spellings of the
        NAME that canonicalise to it, and values that are exempt only by a more generous reading"""
        (un, uv), (an, av) = self.consts["exempt"]
        x = rng.random()
        if x < 0.4:
            return []
        if x < 0.5:
            return [[un, uv]]
        if x < 0.6:
            return [[an, av]]
        if x < 0.65:
            return [[un.lower(), uv]]                       # "upgrade": canonicalised by Header.Add
        if x < 0.7:
            return [[an.upper(), av]]                       # "ACCEPT"
        if x < 0.75:
            return [[un, uv.capitalize()]]                  # "Websocket": not the literal the code compares with
        if x < 0.79:
            return [[un, uv.upper()]]                       # "WEBSOCKET"
        if x < 0.83:
            return [[an, av + ", text/html"]]
        if x < 0.87:
            return [[an, "text/html"], [an, av]]            # two values: Header.Get sees the first only
        if x < 0.9:
            return [[an, av], [an, "text/html"]]            # ... here the first is the exempt one
        if x < 0.94:
            return [[an, "application/json"], ["Connection", "Upgrade"]]
        return [[un, uv], [an, av]]

    @staticmethod
    def _canon(name):
        return "-".join(p.capitalize() for p in name.split("-"))

    def _srv_dur(self, c, q):
        """the timeout the model expects for request q (mirror of Model.eng_route_dur, generation only)"""
        t, sse = 0, False
        for o in c["groups"][q["group"]]["opts"]:
            if o[0] == "timeout":
                t = o[1]
            else:
                t, sse = 0, True
        if not c["mw_timeout"]:
            return 0, sse
        return (t if t > 0 else c["conf_ms"] * 10**6), sse

    def _srv_exempt(self, q):
        (un, uv), (an, av) = self.consts["exempt"]
        h = {}
        for k, v in q["hdrs"]:
            h.setdefault(self._canon(k), v)
        return h.get(un) == uv or h.get(an) == av

    def _srv_amb(self, q):
        """not exempt by the literal test, but a websocket upgrade / event-stream request by a reasonable reading"""
        if not q.get("hdrs") or self._srv_exempt(q):
            return False
        (un, uv), (an, av) = self.consts["exempt"]
        allv = {}
        for k, v in q["hdrs"]:
            allv[self._canon(k)] = allv.get(self._canon(k), "") + "," + v
        return uv.lower() in allv.get(un, "").lower() or av.lower() in allv.get(an, "").lower()

    def _gen_srv(self, rng, n):
        cases = []
        while len(cases) < n:
            c = {"kind": "srv", "conf_ms": rng.choice([0, 60000, 60000, 3600000]), "mw_timeout": rng.random() < 0.85,
                 "mw_inner": rng.random() < 0.25, "groups": [], "reqs": [], "order": []}
            if rng.random() < 0.6:
                c["rec"] = True          # conf.Middlewares.Recover, as in the default configuration
            for _ in range(rng.choice([2, 3, 3, 4])):
                c["groups"].append({"opts": rng.choice(self.GROUP_OPTS), "n": rng.choice([1, 1, 2])})
            nreq = rng.choice([2, 2, 3])
            threads = []
            for i in range(nreq):
                g = rng.randrange(len(c["groups"]))
                q = {"group": g, "route": rng.randrange(c["groups"][g]["n"]), "hdrs": self._req_hdrs(rng),
                     "parent_ns": rng.choice([None, None, HOUR // 3 + 7, 3 * HOUR]),
                     # behind a response.WithCodeResponseWriter (which always has a Flush method) the timeout
                     # writer flushes through whatever the bottom writer is; real servers are Flushers anyway
                     "fl": True,
                     "h0": self._h0(rng), "deadline": False}
                dur, _sse = self._srv_dur(c, q)
                wrapped = dur > 0 and not self._srv_exempt(q)
                script = self._seq_script(rng, i % 2, True)
                if c["mw_inner"]:
                    script = [a for a in script if a[0] != "panic"]
                if not wrapped and rng.random() < 0.3:
                    q["parent_ns"] = SHORT20                 # an unwrapped handler watching its caller's own deadline
                    q["deadline"] = True
                elif wrapped and dur > SHORT20 and rng.random() < 0.15:
                    q["parent_ns"] = SHORT20                 # the caller's deadline is earlier than now+timeout
                    q["deadline"] = True
                elif wrapped and dur <= SHORT20:
                    q["deadline"] = True
                    if q["parent_ns"] is not None and q["parent_ns"] < HOUR:
                        q["parent_ns"] = 3 * HOUR
                nact = len(script) + 1
                if q["deadline"]:
                    # before the timer only actions whose report does not depend on the timer's place
                    k = rng.randint(0, min(2, len(script)))
                    pre = [a for a in script[:k] if a[0] in ("set", "add", "del") or (a[0] == "wh" and a[1] in CODES)]
                    script = pre + script[k:]
                    if not wrapped:
                        pre = [a for a in pre if a[0] != "chk"]
                    nact = len(script) + 1
                    th = [["start", i]] + [["H", i]] * len(pre) + [["T", i]] + [["H", i]] * (nact - len(pre))
                elif rng.random() < 0.6:
                    k = rng.randint(0, nact)
                    th = [["start", i]] + [["H", i]] * k + [["D", i]] + [["H", i]] * (nact - k)
                else:
                    th = [["start", i]] + [["H", i]] * nact
                q["script"] = self._no_info_first(self._no_info_first(script, True), False)
                c["reqs"].append(q)
                threads.append(th)
            # merge the per-request event lists: sequential, or interleaved at random
            if rng.random() < 0.3:
                for th in threads:
                    c["order"] += th
            else:
                live = [list(th) for th in threads]
                cur = 0
                while any(live):
                    if not live[cur] or rng.random() < 0.4:
                        cur = rng.choice([j for j, th in enumerate(live) if th])
                    c["order"].append(live[cur].pop(0))
            c["procs"] = int(vlib.canon_hash(c), 16) % 2
            cases.append(c)
        return cases

    # sequences of calls through one interceptor instance / fx ----------------------
    def _call(self, rng, who, abandoned, parent=None):
        base = 10 * (who + 1)
        if abandoned:
            steps = ["work"] * rng.choice([0, 1, 1, 2])          # ignores its context
        else:
            steps = [rng.choice(["work", "work", "chk"]) for _ in range(rng.choice([0, 1, 2, 3]))]
        r = rng.random()
        if r < 0.3:
            fin = ["panic", base + 5]
        elif r < 0.65:
            fin = ["ret", base + 1, 0]
        else:
            fin = ["ret", rng.choice([0, base + 1]), base + 2]
        return {"steps": steps, "bail": [0, base + 4], "fin": fin, "parent_ns": parent}

    def _sseq(self, kind, calls, order):
        calls = copy.deepcopy(calls)
        if kind == "fxseq":
            for cl in calls:                 # fx returns only an error; fn sees only the caller's context
                if cl["fin"][0] == "ret":
                    cl["fin"][1] = 0
                    if cl["fin"][2] == 0:
                        cl["fin"][2] = cl["bail"][1] - 2
        c = {"kind": kind, "dur_ns": HOUR, "calls": calls, "order": order}
        c["procs"] = int(vlib.canon_hash(c), 16) % 2
        return c

    def _gen_sseq(self, rng, n):
        cases = []
        while len(cases) < n:
            kind = "zseq" if rng.random() < 0.7 else "fxseq"
            a = self._call(rng, 0, True)
            b_dl = rng.random() < 0.35                       # B has an own short deadline
            b = self._call(rng, 1, False, parent=SHORT if b_dl else None)
            calls = [a, b]
            ka = rng.randint(0, len(a["steps"]))
            head = [["start", 0]] + [["H", 0]] * ka + [["D", 0]]
            late = [["H", 0]] * (len(a["steps"]) + 1 - ka)
            nb = len(b["steps"]) + 1
            if b_dl:
                kb = rng.randint(0, nb - 1)
                bseq = [["start", 1]] + [["H", 1]] * kb + [["T", 1]] + [["H", 1]] * (nb - kb)
            else:
                bseq = [["start", 1]] + [["H", 1]] * nb
            for p in range(len(bseq) + 1):
                cases.append(self._sseq(kind, calls, head + bseq[:p] + late + bseq[p:]))
            if not b_dl:
                p = rng.randint(1, len(bseq))
                cases.append(self._sseq(kind, calls, head + bseq[:p] + [["D", 1]] + late[:1] + bseq[p:] + late[1:]))
            # both in flight from the start
            xs = [["H", 0]] * (len(a["steps"]) + 1)
            b2 = dict(b, parent_ns=None)
            ys = [["H", 1]] * nb
            merged = []
            while xs or ys:
                src = xs if (xs and (not ys or rng.random() < 0.5)) else ys
                merged.append(src.pop())
            merged.insert(rng.randint(0, len(merged)), ["D", 0])
            cases.append(self._sseq(kind, [a, b2], [["start", 0], ["start", 1]] + merged))
            # three calls: two abandoned works signal while the third is in flight
            a2 = self._call(rng, 2, True)
            c3 = [a, a2, dict(b, parent_ns=None)]
            o3 = ([["start", 0]] + [["H", 0]] * len(a["steps"]) + [["D", 0]] +
                  [["start", 1]] + [["H", 1]] * len(a2["steps"]) + [["D", 1]] +
                  [["start", 2], ["H", 2], ["H", 0], ["H", 1]] + [["H", 2]] * nb)
            cases.append(self._sseq(kind, c3, o3))
        return cases[:n]

    def _slots_enabled(self):
        return True

    def _slot(self, kind, steps, bail, fin, mode, pos, dur, parent=None, confs=None, method=0):
        return {"kind": kind, "steps": steps, "bail": bail, "fin": fin,
                "d": {"mode": mode, "pos": pos, "yield": (pos * 3) % 5 if mode == "race" else 0},
                "dur_ns": dur, "confs": confs or [], "method": method, "parent_ns": parent, "own": kind == "zrpc"}

    def _gen_slots(self, rng, n):
        cases = []
        n_client = max(4, n // 12)
        n_slot = max(8, n - n_client)
        while len(cases) < n_slot:
            kind = "zrpc" if rng.random() < 0.7 else "fx"
            steps = [rng.choice(["work", "work", "chk"]) for _ in range(rng.choice([0, 1, 2, 2, 3, 4]))]
            bail = rng.choice([[0, 77], [5, 78]]) if kind == "zrpc" else [0, 77]
            if rng.random() < 0.15:
                fin = ["panic", rng.randint(1, 9)]
            elif kind == "zrpc":
                fin = ["ret", rng.choice([0, 3]), rng.choice([0, 0, 5])]
            else:
                fin = ["ret", 0, rng.choice([0, 5])]
            nsteps = len(steps) + 1
            long = rng.choice([HOUR, 2 * HOUR, HOUR // 2])

            def mk(mode, pos):
                par = rng.choice([None, None, HOUR // 4, 3 * HOUR])
                st = list(steps)
                dur, confs, method = long, [], 0
                if kind == "zrpc":
                    method = rng.choice([0, 1, 2, 3])
                    for _ in range(rng.choice([0, 0, 1, 2, 3])):
                        confs.append([rng.choice([0, 1, 2, 3]), rng.choice([HOUR, 2 * HOUR, HOUR // 2])])
                if mode == "deadline":
                    how = rng.choice(["own", "parent", "method"] if kind == "zrpc" else ["own", "parent"])
                    if how == "parent":
                        par = SHORT
                    elif how == "method":
                        method = rng.choice([1, 2, 3])
                        confs.append([method, SHORT])
                    else:
                        dur = SHORT
                        # the default only applies when no entry names the method
                        confs = [mc for mc in confs if mc[0] != method or method == 0]
                        if kind == "fx":
                            st = ["work"] * len(st)     # fn cannot see DoWithTimeout's own context
                return self._slot(kind, st, bail, fin, mode, pos, dur, par, confs, method)

            cases.append(mk("none", 0))
            cases.append(mk("pre", 0))
            for pos in range(0, nsteps + 1):
                cases.append(mk("cancel", pos))
            for pos in range(0, nsteps):
                cases.append(mk("deadline", pos))
                cases.append(mk("race", pos))
            if fin[0] == "ret" and fin[1] != 0:
                # the work publishes a non-nil response while the wrapper is waking up on Done:
                # repeated, the outcome of this race is up to the scheduler
                for rep in range(10):
                    c = mk("race", nsteps - 1)
                    c["d"]["yield"] = 0
                    c["rep"] = rep
                    cases.append(c)
            if rng.random() < 0.3:
                # a timeout <= 0: the derived context is born expired
                cases.append(self._slot(kind, ["work"] * len(steps), bail, fin, "deadline", 0, rng.choice([0, -7]),
                                        rng.choice([None, HOUR])))
        cases = cases[:n_slot]
        for _ in range(n_client):
            cases.append({"kind": "client",
                          "opts": [rng.choice([0, -5, HOUR, 2 * HOUR, HOUR // 3]) for _ in range(rng.choice([0, 0, 1, 1, 2, 3]))],
                          "filler": rng.choice([0, 0, 1, 2]),
                          "default_ns": rng.choice([0, -1, HOUR, HOUR // 2]),
                          "parent_ns": rng.choice([None, HOUR // 3 + 17, 3 * HOUR]),
                          "inv_err": rng.choice([0, 0, 7])})
        return cases

    # ------------------------------------------------------------------
    # execution

    def execute(self, cases, ctx):
        groups = {}
        for i, c in enumerate(cases):
            groups.setdefault(c["kind"], []).append(i)
        obs = [None] * len(cases)

        def run(kind):
            idx = groups[kind]
            sub = []
            for j, i in enumerate(idx):
                c = dict(cases[i])
                c["id"] = j
                sub.append(c)
            res = self._exec_kind(kind, sub)
            if len(res) != len(sub):
                raise ExecError("c04 %s executor returned %d results for %d cases" % (kind, len(res), len(sub)))
            for j, i in enumerate(idx):
                r = res[j]
                if r.get("err"):
                    raise ExecError("c04 %s executor: case %s: %s" % (kind, cases[i].get("id"), r["err"]))
                r.pop("id", None)
                obs[i] = r

        with concurrent.futures.ThreadPoolExecutor(max_workers=4) as ex:
            for f in [ex.submit(run, k) for k in groups]:
                f.result()
        return obs

    def _exec_kind(self, kind, sub):
        if kind in ("rest", "fx", "seq"):
            rc, out, res = vlib.go_run(self.bin, sub, tag="c04" + kind, timeout=900)
            if rc != 0:
                raise ExecError("c04 executor rc=%s: %s" % (rc, out[-2000:]))
            return res
        run = "^TestVerifC04$"
        if kind == "fxseq":
            rc, out, res = vlib.go_run(self.bin, sub, tag="c04" + kind, timeout=900)
            if rc != 0:
                raise ExecError("c04 executor rc=%s: %s" % (rc, out[-2000:]))
            return res
        if kind in ("zrpc", "zseq"):
            if kind == "zseq":
                run = "^TestVerifC04Seq$"
            pkg, d = "./zrpc/internal/serverinterceptors", "zrpc/internal/serverinterceptors"
            files = {d + "/verif_c04_test.go": os.path.join(OV, "serverinterceptors", "verif_c04_test.go"),
                     d + "/verif_c04_slotctl_test.go": self._slotctl_copy("serverinterceptors"),
                     d + "/verif_c04_ctxshape_test.go": self._slotctl_copy("serverinterceptors", "ctxshape.go")}
        elif kind == "client":
            pkg, d = "./zrpc/internal/clientinterceptors", "zrpc/internal/clientinterceptors"
            files = {d + "/verif_c04_test.go": os.path.join(OV, "clientinterceptors", "verif_c04_test.go"),
                     d + "/verif_c04_ctxshape_test.go": self._slotctl_copy("clientinterceptors", "ctxshape.go")}
        elif kind == "srv":
            pkg = "./rest"
            files = {"rest/verif_c04_test.go": os.path.join(OV, "rest", "verif_c04_test.go"),
                     "rest/verif_c04_restctl_test.go": self._slotctl_copy("rest", "restctl.go"),
                     "rest/verif_c04_ctxshape_test.go": self._slotctl_copy("rest", "ctxshape.go")}
        else:
            raise ExecError("c04: unknown case kind %s" % kind)
        rc, out, res = vlib.go_test_overlay(pkg, files, run=run, cases=sub, tag="c04" + kind, timeout=900)
        if rc != 0:
            raise ExecError("c04 %s overlay test rc=%s: %s" % (kind, rc, out[-2500:]))
        return res

    def _slotctl_copy(self, pkg, name="slotctl.go"):
        src = open(os.path.join(vlib.HARNESS, "cmd", "c04", name)).read()
        text = src.replace("package main", "package " + pkg, 1)
        d = os.path.join(vlib.ROOT, ".run")
        os.makedirs(d, exist_ok=True)
        path = os.path.join(d, "c04_%s_%s_test.go" % (name[:-3], pkg))
        if not os.path.exists(path) or open(path).read() != text:
            tmp = path + ".tmp%d" % os.getpid()
            with open(tmp, "w") as f:
                f.write(text)
            os.replace(tmp, path)
        return path

    def extra(self, ctx):
        """thorough tier: free-running REST monitor and the forced zRPC/REST cases, all under -race."""
        if ctx.tier != "thorough":
            return []
        import random
        fails = []
        rng = random.Random(ctx.seed * 31 + 5)
        ok, res = vlib.go_build("c04", race=True)
        if not ok:
            raise ExecError("c04 -race build failed: %s" % res[-1500:])
        try:
            free = []
            for i in range(12):
                script = [a for a in self._script(rng) + self._script(rng)
                          if a[0] in ("set", "add", "del", "w", "flush") or (a[0] == "wh" and a[1] in CODES and a[1] != 101)]
                free.append({"id": i, "kind": "free", "req": "plain", "dur_ns": 0, "parent_ns": None, "fl": i % 2 == 0,
                             "h0": self._h0(rng), "script": script, "d": {"mode": "none", "pos": 1500}})
            forced = [c for c in self.gen(rng, 400, "thorough") if c["kind"] in ("rest", "fx", "seq", "fxseq")]
            for j, c in enumerate(forced):
                c["id"] = 1000 + j
            rc, out, rs = vlib.go_run(res, free + forced, tag="c04race", timeout=1200)
            if "DATA RACE" in out or rc == 66:
                fails.append({"what": "data race in the REST/fx timeout wrappers under -race (atomicity assumption of the model broken)",
                              "replay": {"output": out[-6000:]}})
            elif rc != 0:
                raise ExecError("c04 -race run rc=%s: %s" % (rc, out[-2000:]))
            for r in rs[:len(free)]:
                if r.get("err"):
                    raise ExecError("c04 free run: %s" % r["err"])
                if r.get("violations"):
                    fails.append({"what": "free-running REST monitor: response is neither the complete response nor the 503 reply, "
                                          "or the writer was used after ServeHTTP returned: " + r.get("first", ""),
                                  "replay": {"case": free[r["id"]], "result": r}})
            ctx.notes.append("free-run -race: %d iterations, %d complete / %d timeouts" % (
                sum(r.get("iters", 0) for r in rs[:len(free)]), sum(r.get("complete", 0) for r in rs[:len(free)]),
                sum(r.get("timeouts", 0) for r in rs[:len(free)])))
            z = [c for c in self.gen(rng, 500, "thorough") if c["kind"] == "zrpc"][:150]
            for j, c in enumerate(z):
                c["id"] = j
            d = "zrpc/internal/serverinterceptors"
            files = {d + "/verif_c04_test.go": os.path.join(OV, "serverinterceptors", "verif_c04_test.go"),
                     d + "/verif_c04_slotctl_test.go": self._slotctl_copy("serverinterceptors"),
                     d + "/verif_c04_ctxshape_test.go": self._slotctl_copy("serverinterceptors", "ctxshape.go")}
            rc, out, rs = vlib.go_test_overlay("./" + d, files, run="^TestVerifC04$", cases=z, tag="c04zrace",
                                               timeout=1200, race=True)
            if "DATA RACE" in out:
                fails.append({"what": "data race in UnaryTimeoutInterceptor under -race", "replay": {"output": out[-6000:]}})
            elif rc != 0:
                raise ExecError("c04 zrpc -race run rc=%s: %s" % (rc, out[-2000:]))
            sv = [c for c in self.gen(rng, 700, "thorough") if c["kind"] == "srv"][:80]
            for j, c in enumerate(sv):
                c["id"] = j
            files = {"rest/verif_c04_test.go": os.path.join(OV, "rest", "verif_c04_test.go"),
                     "rest/verif_c04_restctl_test.go": self._slotctl_copy("rest", "restctl.go"),
                     "rest/verif_c04_ctxshape_test.go": self._slotctl_copy("rest", "ctxshape.go")}
            rc, out, rs = vlib.go_test_overlay("./rest", files, run="^TestVerifC04$", cases=sv, tag="c04srvrace",
                                               timeout=1200, race=True)
            if "DATA RACE" in out:
                fails.append({"what": "data race in the rest engine / timeout handler (server cases) under -race",
                              "replay": {"output": out[-6000:]}})
            elif rc != 0:
                raise ExecError("c04 srv -race run rc=%s: %s" % (rc, out[-2000:]))
        finally:
            vlib.go_build("c04")
        return fails

    # ------------------------------------------------------------------
    # rendering

    def _act(self, a):
        t = a[0]
        if t == "set":
            return "ASet %s %s" % (cz(a[1]), cz(a[2]))
        if t == "add":
            return "AAdd %s %s" % (cz(a[1]), cz(a[2]))
        if t == "del":
            return "ADel %s" % cz(a[1])
        if t == "wh":
            return "AWriteHeader %s" % cz(a[1])
        if t == "w":
            return "AWrite %s" % clist([cz(b) for b in a[1]])
        if t == "chk":
            return "ACheckCtx"
        if t == "flush":
            return "AFlush"
        return "APanic %s" % cz(a[1])

    def _hdrs(self, h):
        items = []
        for kv in h:
            if isinstance(kv, dict):
                k, vs = kv["k"], kv["vs"]
            else:
                k, vs = kv
            items.append((k, vs))
        items.sort()
        return clist(["(%s, %s)" % (cz(k), clist([cz(v) for v in vs])) for k, vs in items])

    def _hx(self, hs, xs):
        """header list of the writer double + headers outside the scripts' namespace: the ones an
        SSE route sets (C04Consts.sse_route_headers, i-th = key 900+i value 950+i) are mapped, any
        other counts as extra"""
        items = [[h["k"], h["vs"]] for h in hs]
        extra = 0
        known = self.consts["sse_headers"]
        rnames = c04consts.reply_names(self._reply())
        rvals = dict((op[1], op[2]) for op in self._reply() if op[0] == "set")
        for x in xs or []:
            idx = next((i for i, kv in enumerate(known) if kv[0] == x["name"]), None)
            if x["name"] in rvals and x["vals"] == [rvals[x["name"]]]:
                j = rnames.index(x["name"])       # a header the RecoverHandler's reply sets: key 800+j value 850+j
                items.append([c04consts.reply_key(self.consts, x["name"]), [850 + j]])
            elif idx is None or x["vals"] != [known[idx][1]]:
                extra += 1
            else:
                items.append([900 + idx, [950 + idx]])
        return items, extra

    def _wfields(self, w, outer=None, wrapped=True):
        """status snap live body infos flushes code extra late foreign of a WOut; [outer] = the Code of a real
        response.WithCodeResponseWriter in front (server cases), which then is THE outer record"""
        snap, e1 = self._hx(w["snap"], w.get("snap_x"))
        live, e2 = self._hx(w["live"], w.get("live_x"))
        extra = e1 + e2
        if wrapped:
            extra += w.get("rc", 0)     # a wrapped handler has no way to the real writer's SetWriteDeadline
        infos = []
        for inf in w["infos"]:
            hs, e = self._hx(inf["hdrs"], inf.get("x"))
            extra += e
            infos.append("(%s, %s)" % (cz(inf["code"]), self._hdrs(hs)))
        return [cz(w["status"]), self._hdrs(snap), self._hdrs(live), clist([cz(b) for b in w["body"]]),
                clist(infos), cz(w["flushes"]), cz(w["code"] if outer in (None, -1) else outer),
                cz(extra), cz(w["late"]), cz(w["foreign"])]

    @staticmethod
    def _bstr(s):
        return clist([cz(b) for b in s.encode()])

    def _ev(self, e):
        return {"H": "EH", "Dc": "ED KCancel", "Dd": "ED KDeadline",
                "Sp": "ES BPanic", "Sd": "ES BDone", "St": "ES BTimeout"}[e]

    def _pval(self, kind, val):
        if kind == "user":
            return "(Some (PUser %s))" % cz(val)
        if kind == "badcode":
            return "(Some (PBadCode %s))" % cz(val)
        return "None"

    def _ares(self, o):
        t = o[0]
        if t == "none":
            return "RNone"
        if t == "wok":
            return "RWriteOk %s" % cz(o[1])
        if t == "wto":
            return "RWriteTimeout"
        if t == "ctx":
            return "RCtx %s" % cbool(o[1])
        if t == "rec":
            # the RecoverHandler's WriteHeader: its code is part of the report
            return "RNone" if o[1] == self.consts.get("recover_code", 500) else "RWriteOk (-2)"
        if t == "panic":
            if o[1] == "user":
                return "RPanic (PUser %s)" % cz(o[2])
            if o[1] == "badcode":
                return "RPanic (PBadCode %s)" % cz(o[2])
            return "RPanic (PUser (-1))"
        return "RWriteOk (-1)"     # an unexpected write error: matches nothing in the model

    def _optz(self, v):
        return copt(None if v is None else cz(v))

    def coq_case(self, case, obs):
        k = case["kind"]
        if k == "rest":
            return self._coq_rest(case, obs)
        if k in ("zrpc", "fx"):
            return self._coq_slot(case, obs)
        if k == "seq":
            return self._coq_seq(case, obs)
        if k in ("zseq", "fxseq"):
            return self._coq_sseq(case, obs)
        if k == "client":
            return "CClient (mkClient %s %s %s %s %s %s %s)" % (
                clist([cz(x) for x in case["opts"]]), cz(case["default_ns"]), self._optz(self._par(case)),
                cz(case["inv_err"] if case["inv_err"] or not case.get("pre_done") else -2), self._optz(obs["dl_seen_ns"] if obs["has_dl"] else None), cz(obs["t1_ns"]),
                cz(obs["ret_err"]))
        if k == "srv":
            return self._coq_srv(case, obs)
        raise ExecError("unknown kind")

    def _seq_reqs(self, c, o):
        if o.get("stuck", -1) >= 0:
            o = dict(o)             # see _hung_rest
            o["sched"] = list(o["sched"]) + [[o["stuck"], "H"]]
            o["hobs"] = list(o["hobs"]) + [[o["stuck"], "werr"]]
        dk = {}
        for e in c["order"]:
            if e[0] == "D" and e[1] not in dk:
                dk[e[1]] = "KCancel"
        rs = []
        for i, (rin, ro) in enumerate(zip(c["reqs"], o["reqs"])):
            sout = {"wait": "SoWait", "ret": "SoRet"}.get(ro["sout"])
            if sout is None:
                sout = "(SoPanic %s)" % self._pval(ro["pkind"], ro["pval"])
            # (a request one of whose handler actions hung: what ServeHTTP did after the Done event that the
            # executor then produced is in ro["sout"]; "wait" = it has not returned: judged as such)
            dmode = "KDeadline" if rin.get("deadline") else dk.get(i)
            hdrs = clist(["(%s, %s)" % (self._bstr(self._canon(k)), self._bstr(v)) for k, v in rin.get("hdrs", [])])
            rs.append("(mkSR %s)" % " ".join([
                cbool(rin.get("fl", False)), self._hdrs(rin["h0"]),
                clist([self._act(a) for a in self._expand(
                    rin["script"], [x[1:] for x in o["hobs"] if x[0] == i][o.get("_skip", {}).get(i, 0):])]),
                copt(dmode), hdrs, cbool(self._srv_amb(rin)), self._optz(self._par(rin)),
                "%d%%nat" % rin.get("group", 0), sout]
                + self._wfields(ro["w"], ro.get("outer_code"), ro["wrapped"]) +
                [cbool(ro["wrapped"]), self._optz(ro["dl_seen_ns"] if ro["has_dl"] else None),
                 cz(ro["t0_ns"]), cz(ro["t1_ns"])]))
        sched = clist(["(%d%%nat, %s)" % (i, self._ev(e)) for i, e in o["sched"]])
        hobs = clist(["(%d%%nat, %s)" % (x[0], self._ares(x[1:])) for x in o["hobs"]])
        return clist(rs), sched, hobs

    def _coq_seq(self, c, o):
        if c.get("rec"):
            o = dict(o)
            o["sched"], o["hobs"] = self._gated_reply_headers(o["sched"], o["hobs"], True)
        rs, sched, hobs = self._seq_reqs(c, o)
        return "CSeq (mkSeq %s %s %s %s %s %s)" % (cbool(c.get("rec", False)), cz(c["dur_ns"]), rs, sched, hobs,
                                                   cz(o["ret_at_d"]))

    def _reply(self):
        return self.consts.get("recover_reply") or [["wh", 500]]

    def _recover_outside(self):
        return not self.consts.get("recover_inside", True)

    def _ungated_recovery(self, o):
        """server cases: the engine's own RecoverHandler is not gated.  Right after a panic report of request i
        the whole reply (C04Consts.recover_reply_ops: header operations, WriteHeader, Writes) and the handler's
        return have happened (or the request hangs: then the case fails prop_ok as SoWait whatever is inserted
        here): that many more handler events of i, in place; a Write of the reply after i's timeout was refused."""
        sched, hobs, hp = [], [], 0
        timed_out = set()
        for i, e in o["sched"]:
            sched.append([i, e])
            if e == "St":
                timed_out.add(i)
            if e == "H":
                ob = o["hobs"][hp]
                hp += 1
                hobs.append(ob)
                if len(ob) > 1 and ob[1] == "panic" and self._recover_outside() and o["reqs"][i]["wrapped"]:
                    # Recover in front of the timeout middleware: the middleware re-raises (its panic branch),
                    # the reply goes to the real writer in the serving goroutine — no handler event
                    continue
                if len(ob) > 1 and ob[1] == "panic":
                    for op in self._reply():
                        sched.append([i, "H"])
                        if op[0] == "w":
                            hobs.append([i, "wto"] if i in timed_out else [i, "wok", len(op[1])])
                        else:
                            hobs.append([i, "none"])
                    sched.append([i, "H"])
                    hobs.append([i, "none"])
        if self._recover_outside():
            # ... and the executor saw ServeHTTP of the whole chain return normally: it was the panic branch
            panicked = set(x[0] for x in hobs if len(x) > 1 and x[1] == "panic" and o["reqs"][x[0]]["wrapped"])
            sched = [[i, "Sp"] if (e == "Sd" and i in panicked) else [i, e] for i, e in sched]
        o = dict(o)
        o["sched"], o["hobs"] = sched, hobs + o["hobs"][hp:]
        return o

    def _gated_reply_headers(self, sched, hobs, multi):
        """rest / seq cases: the reply's WriteHeader and Writes are gated handler actions, its header operations
        (map operations right after the recover) are not: one handler event each, right after the panic report"""
        k = sum(1 for op in self._reply() if op[0] in ("del", "set"))
        if k == 0:
            return sched, hobs
        s2, h2, hp = [], [], 0
        for ev in sched:
            s2.append(ev)
            if (ev[1] if multi else ev) == "H":
                ob = hobs[hp]
                hp += 1
                h2.append(ob)
                if (ob[1] if multi else ob[0]) == "panic":
                    for _ in range(k):
                        s2.append([ev[0], "H"] if multi else "H")
                        h2.append([ev[0], "none"] if multi else ["none"])
        return s2, h2 + hobs[hp:]

    def _coq_srv(self, c, o):
        if c.get("rec"):
            o = self._ungated_recovery(o)
        # the wrapper of an SSE route sets its headers when the route handler starts, before the
        # scripted handler's first gate: these are H events of that request right before its first event
        nsse = len(self.consts["sse_headers"])
        sse = set(i for i, q in enumerate(c["reqs"]) if self._srv_dur(c, q)[1] and o["reqs"][i]["t1_ns"] != 0)
        if sse:
            o = dict(o)
            sched, hobs, seen, hp = [], [], set(), 0
            for i, e in o["sched"]:
                if i in sse and i not in seen:
                    seen.add(i)
                    sched += [[i, "H"]] * nsse
                    hobs += [[i, "none"]] * nsse
                sched.append([i, e])
                if e == "H":
                    hobs.append(o["hobs"][hp])
                    hp += 1
            for i in sorted(sse - seen):
                sched += [[i, "H"]] * nsse
                hobs += [[i, "none"]] * nsse
            o["sched"], o["hobs"] = sched, hobs + o["hobs"][hp:]
            o["_skip"] = {i: nsse for i in sse}
        rs, sched, hobs = self._seq_reqs(c, o)
        groups = clist([clist(["(OptTimeout %s)" % cz(x[1]) if x[0] == "timeout" else "OptSSE" for x in g["opts"]])
                        for g in c["groups"]])
        return "CSrv (mkSrv %s %s %s %s %s %s %s %s %s %s %s %s)" % (
            cbool(c.get("rec", False)), cbool(bool(c.get("rec")) and self._recover_outside()), cz(c["conf_ms"]), cbool(c["mw_timeout"]), groups, rs, sched, hobs, cz(o["ret_at_d"]),
            cz(o["read_ns"]), cz(o["write_ns"]), cz(o["eng_ns"]))

    def _coq_sseq(self, c, o):
        if o.get("leak"):
            # a wrapper goroutine parked for ever in a channel send after its abandoned work ended: in the model
            # the work's last action completes (its result goes into a buffered slot nobody reads); reported as a
            # handler event the model has not got (a disagreement; the property text does not speak of leaks)
            o = dict(o)
            o["sched"] = list(o["sched"]) + [[0, "H"]]
            o["hobs"] = list(o["hobs"]) + [[0, "werr"]]
        dk = {}
        for e in c["order"]:
            if e[0] in ("D", "T") and e[1] not in dk:
                dk[e[1]] = "KCancel" if e[0] == "D" else "KDeadline"
        for i, e in o["sched"]:                       # a timer seen before its "T" event
            if e in ("Dc", "Dd") and i not in dk:
                dk[i] = "KCancel" if e == "Dc" else "KDeadline"
        cs = []
        for i, (cin, co) in enumerate(zip(c["calls"], o["calls"])):
            fin = cin["fin"]
            wfin = "(WRet %s %s)" % (cz(fin[1]), cz(fin[2])) if fin[0] == "ret" else "(WPanic %s)" % cz(fin[1])
            script = "(mkW %s (%s, %s) %s)" % (clist(["WCheck" if x == "chk" else "WWork" for x in cin["steps"]]),
                                              cz(cin["bail"][0]), cz(cin["bail"][1]), wfin)
            # a call with an own deadline may be ended by it even if the controller never waited for it
            dmode = dk.get(i) or ("KDeadline" if self._par(cin) is not None else None)
            cs.append("(mkSC %s)" % " ".join([
                script, copt(dmode), self._optz(self._par(cin)), cbool(co["ret"]),
                self._optz(co["pval"] if co["panicked"] else None), cbool(co["stack"]), cz(co["r"]), cz(co["e"]),
                self._optz(co["dl_seen_ns"] if co["has_dl"] else None), cz(co["t1_ns"])]))
        sched = clist(["(%d%%nat, %s)" % (i, self._ev(e)) for i, e in o["sched"]])
        hobs = clist(["(%d%%nat, %s)" % (x[0], self._ares(x[1:])) for x in o["hobs"]])
        return "CSSeq (mkSSeq %s %s %s %s %s %s)" % ("0" if c["kind"] == "zseq" else "1", cz(c["dur_ns"]),
                                                    clist(cs), sched, hobs, cz(o["ret_at_d"]))

    def _coq_slot(self, c, o):
        if o.get("leak"):
            o = dict(o)             # see _coq_sseq
            o["sched"] = list(o["sched"]) + ["H"]
            o["hobs"] = list(o["hobs"]) + [["werr"]]
        fin = c["fin"]
        wfin = "(WRet %s %s)" % (cz(fin[1]), cz(fin[2])) if fin[0] == "ret" else "(WPanic %s)" % cz(fin[1])
        script = "(mkW %s (%s, %s) %s)" % (clist(["WCheck" if x == "chk" else "WWork" for x in c["steps"]]),
                                          cz(c["bail"][0]), cz(c["bail"][1]), wfin)
        fields = [
            "0" if c["kind"] == "zrpc" else "1", script, copt(_kind(c["d"]["mode"])),
            clist(["(%s, %s)" % (cz(m), cz(t)) for m, t in c["confs"]]), cz(c["method"]), cz(c["dur_ns"]),
            self._optz(self._par(c)),
            clist([self._ev(e) for e in o["sched"]]), clist([self._ares(x) for x in o["hobs"]]),
            cbool(o["ret"]), self._optz(o["pval"] if o["panicked"] else None), cbool(o["stack"]),
            cz(o["r"]), cz(o["e"]), self._optz(o["dl_seen_ns"] if o["has_dl"] else None), cz(o["t1_ns"]),
            cz(o["ret_at_d"]),
        ]
        return "CSlot (mkSlot %s)" % " ".join(fields)

    @staticmethod
    def _alts(c, sched):
        """Linearisations the executor cannot tell from the one it reported: the timeout branch
        (seen only when ServeHTTP returns) may have run before some of the handler actions that
        precede it, back to the Done event; a timer expiry (never seen directly) may have
        happened before some of the handler actions that precede it."""
        if "St" not in sched:
            return []
        i_s = sched.index("St")
        d = "Dd" if "Dd" in sched else "Dc"
        if d not in sched[:i_s]:
            return []
        i_d = sched.index(d)
        rest = [e for j, e in enumerate(sched) if j not in (i_d, i_s)]   # H events (and nothing else before St)
        d_places = range(0, i_d + 1) if (d == "Dd" and c["d"]["mode"] == "deadline") else [i_d]
        alts = []
        for pd in d_places:
            # St sits after D: between pd and its reported place (as index into `rest` + offset)
            for ps in range(pd, i_s):
                cand = rest[:pd] + [d] + rest[pd:ps] + ["St"] + rest[ps:]
                if cand != sched and cand not in alts:
                    alts.append(cand)
        return alts[:40]

    @staticmethod
    def _hung_rest(o):
        """a handler action that hung inside rest/handler has no counterpart in the model (every H action is
        enabled there): it is reported as one more handler event with a result no model action produces, so that
        the case disagrees even when the response itself is in order (abandoned handler stuck after the timeout)"""
        if not o.get("hung"):
            return o
        o = dict(o)
        o["sched"] = list(o["sched"]) + ["H"]
        o["hobs"] = list(o["hobs"]) + [["werr"]]
        return o

    def _coq_rest(self, c, o):
        o = self._hung_rest(o)
        if c.get("rec"):
            o = dict(o)
            o["sched"], o["hobs"] = self._gated_reply_headers(o["sched"], o["hobs"], False)
        rq = {"plain": "RqPlain", "ws": "RqWebsocket", "sse": "RqSSE"}[c["req"]]
        sout = {"wait": "SoWait", "ret": "SoRet"}.get(o["sout"])
        if sout is None:
            sout = "(SoPanic %s)" % self._pval(o["pkind"], o["pval"])
        fields = [
            cbool(c.get("rec", False)), "false", cbool(c.get("fl", False)),
            self._hdrs(c["h0"]), clist([self._act(a) for a in self._expand(c["script"], o["hobs"])]), cz(c["dur_ns"]), rq,
            self._optz(self._par(c)), copt(_kind(c["d"]["mode"])),
            cbool(o["wrapped"]), clist([self._ev(e) for e in o["sched"]]),
            clist([clist([self._ev(e) for e in alt]) for alt in self._alts(c, o["sched"])]),
            clist([self._ares(x) for x in o["hobs"]]), sout] + self._wfields(o["w"], None, o["wrapped"]) + [
            self._optz(o["dl_seen_ns"] if o["has_dl"] else None), "0", cz(o["t1_ns"]), cz(o["ret_at_d"]),
        ]
        return "CRest (mkRest %s)" % " ".join(fields)

    # ------------------------------------------------------------------
    # evidence

    def nontrivial(self, case, obs):
        if case["kind"] == "rest":
            n = len(case["script"])
            writes = any(a[0] in ("w", "ws", "printf", "copy", "set", "add", "wh") for a in case["script"])
            return case["d"]["mode"] != "none" and 0 < case["d"]["pos"] <= n and writes and case["req"] == "plain"
        if case["kind"] == "seq":
            # an abandoned handler acted (at least one write attempt) while or after a later request was served
            s = obs["sched"]
            first_t = next((j for j, e in enumerate(s) if e[1] == "St"), None)
            if first_t is None:
                return False
            i = s[first_t][0]
            later = s[first_t + 1:]
            return any(e[0] == i and e[1] == "H" for e in later) and any(e[0] != i and e[1] == "H" for e in later) \
                and any(x[0] == i and x[1] == "wto" for x in obs["hobs"])
        if case["kind"] == "srv":
            # a wrapped request was ended by its Done event while another request of the same server was in flight
            s = obs["sched"]
            for j, e in enumerate(s):
                if e[1] == "St":
                    others = set(x[0] for x in s[:j] if x[0] != e[0])
                    ended = set(x[0] for x in s[:j] if x[1] in ("Sd", "Sp", "St"))
                    if (others - ended) or any(x[0] != e[0] for x in s[j + 1:]):
                        return True
            return False
        if case["kind"] in ("zseq", "fxseq"):
            # a timed-out call's work ended (returned / panicked) while another call was in flight
            s = obs["sched"]
            for j, e in enumerate(s):
                if e[1] == "St":
                    i = e[0]
                    ended = [t for t in range(j + 1, len(s)) if s[t][0] == i and s[t][1] == "H"]
                    if ended:
                        t = ended[-1]
                        others = set(x[0] for x in s[:t] if x[0] != i and x[1] == "H")
                        done = set(x[0] for x in s[:t] if x[1] in ("Sd", "Sp", "St"))
                        if others - done:
                            return True
            return False
        if case["kind"] in ("zrpc", "fx"):
            return case["d"]["mode"] != "none" and 0 < case["d"]["pos"] <= len(case["steps"])
        if case["kind"] == "client":
            return bool(case["opts"]) and case["parent_ns"] is not None
        return case["parent_ns"] is not None

    def features(self, case, obs):
        fs = ["kind=" + case["kind"]]
        if case.get("names"):
            fs.append("hdrnames=" + case["kind"])
            if any(n.lower().startswith("access-control-") for n in case["names"].values()):
                fs.append("hdrnames:cors=" + case["kind"])
        for u in [case] + list(case.get("reqs", [])) + list(case.get("calls", [])):
            if u.get("pshape"):
                fs.append("ctx=%s:%s" % (case["kind"], u["pshape"]))
        if case.get("rec"):
            fs.append("recover=" + case["kind"])
            obs_l = obs["hobs"]
            if any("panic" in x for x in obs_l):
                fs.append("recover:panic_recovered=" + case["kind"])
        if obs.get("hung"):
            fs.append("hung=" + case["kind"])
        if obs.get("leak"):
            fs.append("leak=" + case["kind"])
        if case["kind"] == "rest":
            fs.append("rest:mode=" + case["d"]["mode"])
            fs.append("rest:req=" + case["req"])
            fs.append("rest:len=%d" % len(case["script"]))
            fs.append("rest:sout=" + obs["sout"])
            if obs["wrapped"]:
                br = [e for e in obs["sched"] if e.startswith("S")]
                fs.append("rest:branch=" + (br[0] if br else "none"))
                s = obs["sched"]
                if "St" in s and "H" in s[s.index("St"):]:
                    fs.append("rest:handler_acts_after_timeout")
                if case["d"]["mode"] == "race" and "St" in s:
                    i, j = s.index("Dc"), s.index("St")
                    fs.append("rest:race_H_between_D_and_S" if "H" in s[i:j] else "rest:race_S_first")
                if case["d"]["mode"] == "race" and "Sd" in s:
                    fs.append("rest:race_both_ready_done_taken")
            if any(x[0] == "wto" for x in obs["hobs"]):
                fs.append("rest:late_write_refused")
            if any(a[0] == "chk" for a in case["script"]):
                fs.append("rest:has_ctx_check")
            if any(a[0] == "panic" for a in case["script"]):
                fs.append("rest:has_panic")
            for kind_ in ("copy", "ws", "printf", "rcflush", "rcdl"):
                if any(a[0] == kind_ for a in case["script"]):
                    fs.append("rest:" + kind_)
            if any(a[0] == "copy" for a in case["script"]) and obs["wrapped"] and case["d"]["mode"] in ("cancel", "deadline"):
                # was D produced while the copy was waiting for its source?
                pos, at = case["d"]["pos"], 0
                for a in case["script"]:
                    n_ = len(a[1]) if a[0] == "copy" else 1
                    if a[0] == "copy" and at <= pos < at + n_:
                        fs.append("rest:deadline_inside_copy")
                    at += n_
            if case.get("fl") and any(a[0] in ("flush", "rcflush") for a in case["script"]):
                fs.append("rest:flush")
                s = obs["sched"]
                if obs["wrapped"] and "St" in s and obs["w"]["flushes"] > 0:
                    fs.append("rest:flushed_before_timeout")
            if any(a[0] == "wh" and a[1] in INFO_CODES for a in case["script"]):
                fs.append("rest:has_1xx" + (":first" if self._info_first(case["script"], case.get("fl")) else ""))
        if case["kind"] in ("zseq", "fxseq"):
            k = case["kind"]
            fs.append(k + ":calls=%d" % len(case["calls"]))
            fs.append(k + ":procs=%d" % case["procs"])
            for i, cl in enumerate(obs["calls"]):
                fs.append("%s:call%d=%s" % (k, i, "panic" if cl["panicked"] else
                                            ("timeout" if cl["e"] in (-1, -2) and cl["r"] == 0 else "result")))
        if case["kind"] == "srv":
            fs.append("srv:reqs=%d" % len(case["reqs"]))
            fs.append("srv:mw_timeout=%s" % case["mw_timeout"])
            fs.append("srv:conf_ms=%d" % case["conf_ms"])
            if case["mw_inner"]:
                fs.append("srv:inner_middlewares")
            for q, r in zip(case["reqs"], obs["reqs"]):
                dur, sse = self._srv_dur(case, q)
                fs.append("srv:route=%s%s" % ("sse" if sse else "plain",
                                               ":own_timeout" if any(o[0] == "timeout" and o[1] > 0 for o in case["groups"][q["group"]]["opts"]) and not sse else ""))
                fs.append("srv:req=%s" % ("exempt" if self._srv_exempt(q) else ("hdr_variant" if q["hdrs"] else "plain")))
                fs.append("srv:wrapped=%s" % r["wrapped"])
                if r["wrapped"]:
                    st = r["w"]["status"]
                    fs.append("srv:outcome=%s" % (st if st in (499, 503) else r["sout"]))
                    if q["parent_ns"] is not None and q["parent_ns"] < dur:
                        fs.append("srv:caller_deadline_earlier")
                if q["fl"] and any(a[0] in ("flush", "rcflush") for a in q["script"]):
                    fs.append("srv:flush")
        if case["kind"] == "seq":
            fs.append("seq:reqs=%d" % len(case["reqs"]))
            for i, r in enumerate(obs["reqs"]):
                fs.append("seq:req%d=%s" % (i, "timeout" if r["w"]["status"] == 499 else r["sout"]))
            if any(x[1] == "wto" for x in obs["hobs"]):
                fs.append("seq:late_write_refused")
        if case["kind"] in ("zrpc", "fx"):
            k = case["kind"]
            fs.append(k + ":mode=" + case["d"]["mode"])
            br = [e for e in obs["sched"] if e.startswith("S")]
            fs.append(k + ":branch=" + (br[0] if br else "none"))
            if obs["panicked"]:
                fs.append(k + ":panic_reraised")
            if case["confs"]:
                fs.append(k + ":method_conf")
            if case["dur_ns"] <= 0:
                fs.append(k + ":timeout<=0")
        return fs

    def shrink_candidates(self, case):
        res = []
        if case["kind"] == "rest":
            sc = case["script"]
            for j in range(len(sc)):
                c = copy.deepcopy(case)
                c["script"] = sc[:j] + sc[j + 1:]
                if c["d"]["pos"] > j:
                    c["d"]["pos"] -= 1
                res.append(c)
            for j in range(len(case["h0"])):
                c = copy.deepcopy(case)
                c["h0"] = case["h0"][:j] + case["h0"][j + 1:]
                res.append(c)
            for j, a in enumerate(sc):
                if a[0] == "w" and len(a[1]) > 1:
                    c = copy.deepcopy(case)
                    c["script"][j] = ["w", a[1][:1]]
                    res.append(c)
        if case.get("rec") and case["kind"] in ("rest", "seq", "srv"):
            c = copy.deepcopy(case)
            del c["rec"]
            res.append(c)
        if case["kind"] in ("rest",) and case.get("fl"):
            c = copy.deepcopy(case)
            c["fl"] = False
            res.append(c)
        if case["kind"] == "srv":
            for drop in range(len(case["reqs"])):
                if len(case["reqs"]) > 1:
                    c = copy.deepcopy(case)
                    del c["reqs"][drop]
                    c["order"] = [[e[0], e[1] - (1 if e[1] > drop else 0)] for e in c["order"] if e[1] != drop]
                    res.append(c)
            for i, r in enumerate(case["reqs"]):
                for j in range(len(r["script"])):
                    c = copy.deepcopy(case)
                    c["reqs"][i]["script"] = r["script"][:j] + r["script"][j + 1:]
                    idx = [t for t, e in enumerate(c["order"]) if e == ["H", i]]
                    if idx:
                        del c["order"][idx[-1]]
                    res.append(c)
                if r["h0"]:
                    c = copy.deepcopy(case)
                    c["reqs"][i]["h0"] = []
                    res.append(c)
            if case.get("mw_inner"):
                c = copy.deepcopy(case)
                c["mw_inner"] = False
                res.append(c)
            if case.get("procs"):
                c = copy.deepcopy(case)
                c["procs"] = 0
                res.append(c)
        if case["kind"] == "seq":
            for i, r in enumerate(case["reqs"]):
                for j in range(len(r["script"])):
                    c = copy.deepcopy(case)
                    c["reqs"][i]["script"] = r["script"][:j] + r["script"][j + 1:]
                    # one release less for that handler (the last one)
                    idx = [t for t, e in enumerate(c["order"]) if e == ["H", i]]
                    if idx:
                        del c["order"][idx[-1]]
                    res.append(c)
                if r["h0"]:
                    c = copy.deepcopy(case)
                    c["reqs"][i]["h0"] = []
                    res.append(c)
            if len(case["reqs"]) > 2:
                c = copy.deepcopy(case)
                c["reqs"] = c["reqs"][:2]
                c["order"] = [e for e in c["order"] if e[1] < 2]
                res.append(c)
        if case["kind"] in ("zseq", "fxseq"):
            for i, cl in enumerate(case["calls"]):
                for j in range(len(cl["steps"])):
                    c = copy.deepcopy(case)
                    c["calls"][i]["steps"] = cl["steps"][:j] + cl["steps"][j + 1:]
                    idx = [t for t, e in enumerate(c["order"]) if e == ["H", i]]
                    if idx:
                        del c["order"][idx[-1]]
                    res.append(c)
            if len(case["calls"]) > 2:
                for drop in range(len(case["calls"])):
                    c = copy.deepcopy(case)
                    del c["calls"][drop]
                    c["order"] = [[e[0], e[1] - (1 if e[1] > drop else 0)] for e in c["order"] if e[1] != drop]
                    res.append(c)
            if case.get("procs"):
                c = copy.deepcopy(case)
                c["procs"] = 0
                res.append(c)
        if case["kind"] in ("zrpc", "fx"):
            st = case["steps"]
            for j in range(len(st)):
                c = copy.deepcopy(case)
                c["steps"] = st[:j] + st[j + 1:]
                if c["d"]["pos"] > j:
                    c["d"]["pos"] -= 1
                res.append(c)
            for j in range(len(case.get("confs", []))):
                c = copy.deepcopy(case)
                c["confs"] = case["confs"][:j] + case["confs"][j + 1:]
                res.append(c)
        if case["kind"] == "client":
            for j in range(len(case["opts"])):
                c = copy.deepcopy(case)
                c["opts"] = case["opts"][:j] + case["opts"][j + 1:]
                res.append(c)
        return res

    def known(self, case, obs):
        """C04-informational-status: single-request REST case whose script's first status-committing action
        is WriteHeader(1xx != 101); the handler completed and the client got exactly that 1xx once,
        then status 200 and all the body chunks of the run.  Nothing else is excused."""
        if case.get("kind") != "rest" or not obs.get("wrapped"):
            return None
        fl = bool(case.get("fl"))
        sc = case["script"]
        if not self._info_first(sc, fl) or obs["sout"] != "ret":
            return None
        first = next(a[1] for a in sc if a[0] == "wh")
        w = obs["w"]
        if w["status"] != 200 or [x["code"] for x in w["infos"]] != [first] or w["late"] != 0:
            return None
        runs = [sc]
        if case["d"]["mode"] != "none":
            runs += [sc[:j + 1] for j, a in enumerate(sc) if a[0] == "chk"]
        for run in runs:
            body = [b for a in run if a[0] == "w" for b in a[1]]
            if body == w["body"]:
                return "C04-informational-status"
        return None

    def describe_failure(self, case, obs):
        if obs.get("hung") or (case["kind"] in ("seq", "srv") and obs.get("stuck", -1) >= 0 and case.get("rec")):
            return ("timeout middleware: a handler action never came back — a goroutine sat on a mutex of rest/handler for "
                    "seconds (a lock of the timeout writer held across a panic / error path, e.g. an invalid status code "
                    "recovered by the RecoverHandler inside the timeout handler, whose WriteHeader(500) then blocks); "
                    "ServeHTTP neither completed nor returned at the deadline")
        if case["kind"] == "rest":
            return ("REST timeout handler: the response is not the handler's complete response, the 503/499 timeout "
                    "response or the re-raised panic; or something was written after the timeout / a late Write was not "
                    "refused; or the handler's deadline exceeds min(caller's, now+timeout); or ServeHTTP did not return "
                    "at the deadline")
        if case["kind"] == "seq":
            return ("several requests through one TimeoutHandler: a request's response is not all-or-nothing w.r.t. its "
                    "OWN script (something of another request's abandoned handler appears), or a late write of the "
                    "abandoned handler was accepted, or its timeout reply changed")
        if case["kind"] == "srv":
            return ("rest.Server with several routes: a request's handler deadline is not min(caller's, now + the timeout "
                    "chosen for its route), or its response is not all-or-nothing w.r.t. its own route handler, or something "
                    "reached the client after its timeout, or a websocket / event-stream request was wrapped or cut")
        if case["kind"] in ("zseq", "fxseq"):
            return ("several calls through one timeout interceptor / fx: a call returned something that is not its own "
                    "result, its own timeout error or its own panic (a signal of another call's abandoned work reached it), "
                    "or did not return at its own deadline, or never returned")
        return "timeout wrapper: outcome is not all-or-nothing / deadline not shrunk / wrapper did not return at the deadline"


PROPERTY = C04()
