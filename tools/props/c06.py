"""C06 — cache-aside store (cache.Cache / sqlc.CachedConn)."""
import os
import re

import vlib
from runner import Property, ExecError
from vlib import cz, clist

S = 1000000000
F7 = "F7-stale-read-after-failed-invalidation"
F11 = "F11-persistent-key-on-nonpositive-expiry"
OVERLAY = {"core/stores/cache/zz_verif_c06.go": os.path.join(vlib.HARNESS, "overlay", "cache", "zz_verif_c06.go")}
DELAYS = {1: 5, 5: 60, 60: 300, 300: 3600}


def ckey(k):
    return "(K%s %s)" % ("P" if k[0] == "p" else "U", cz(int(k[1:])))


class C06(Property):
    id = "C06"
    title = "Cache-aside store: coherent reads, load suppression, failure containment"
    quick_cases = 500
    thorough_cases = 9000
    design_ref = "DESIGN.md §6/C06"
    level_text = ("Unbounded Rocq theorems over all sequential histories of Take/QueryRowIndex/Get/Exec/Set/SetWithExpire/Del/"
                  "Advance/fault toggles/cleaner ticks of an executable model of cachenode.go, cache.go, cleaner.go and "
                  "cachedsql.go: coherence invariant (every live entry of a key without an outstanding failed invalidation "
                  "equals the database), 0-query service of live entries, DB errors never cached, fail-fast on store "
                  "errors, finite banded TTLs, primary outlives index by 5 s; refuted witnesses for F7 and F11. Tied to the "
                  "code by differential execution (values, error classes, query counts, full store contents + TTLs).")
    level_note = ("Trusted: Coq kernel + vm_compute; hand-written model; correspondence on generated histories only; miniredis "
                  "stands for Redis (SetError outages, FastForward time); the cleaner wheel is ticked by the executor through "
                  "an added (not replacing) overlay file; load suppression is singleflight's theorem (C07) and is covered "
                  "here only by the gated concurrent-readers monitor; monc.Model (needs MongoDB) shares cache.Cache and is "
                  "not driven separately.")
    rule = ("histories: 1-2 cache nodes, 5 primary keys x 5 index values, rows present/absent, 8-40 ops, expiry crossings via "
            "FastForward, DB and per-node cache outages at every position of short histories; non-trivial = at least one "
            "read served from the cache after a load, and a write (Exec) followed by a read of that row or an operation "
            "run under an outage; distinct = canonical JSON hash of the history")
    trusted_base = [
        "model theories/C06/Model.v is hand-written; tie = correspondence run (harness/cmd/c06) on generated histories",
        "miniredis stands for Redis; outages are SetError (every command fails), toggled between operations",
        "harness/overlay/cache/zz_verif_c06.go ADDS an exported constructor to package cache so the executor owns the cleaner wheel's ticker (nothing replaced)",
        "key -> node of the cluster's consistent hash is observed by the executor and handed to the model as data (C15)",
        "singleflight (cacheNode.barrier) is C07's model; here only a gated concurrent-readers monitor",
    ]
    assumptions = ["operations on a key do not overlap (sequential histories); outages change between operations",
                   "rows are JSON-serialisable structs; keys of primary and index entries are disjoint",
                   "cleaner time and store time advance independently (superset of the real schedules)"]

    # ---------------------------------------------------------------- build / run
    def prepare(self, ctx):
        ok, res = vlib.go_build("c06", overlay=OVERLAY)
        self.bin = res if ok else None
        return ok, ("" if ok else res)

    def with_known(self):
        """F7/F11 shapes are generated only once the coordinator has listed them."""
        if os.environ.get("VERIF_C06_KNOWN") in ("0", "1"):
            return os.environ["VERIF_C06_KNOWN"] == "1"
        kids = vlib.known_ids(self.id)
        return F7 in kids and F11 in kids

    def _execute(self, cases, ctx):
        rc, out, res = vlib.go_run(self.bin, cases, tag="c06", timeout=900)
        if rc != 0 or len(res) != len(cases):
            raise ExecError("c06 executor rc=%s: %s" % (rc, out[-2000:]))
        for r in res:
            if r.get("err"):
                raise ExecError("c06 executor: case %s: %s" % (r.get("id"), r["err"]))
        return [{"obs": r.get("obs") or [], "nodeof": r.get("nodeof") or {}} for r in res]

    # ---------------------------------------------------------------- corpus
    def corpus(self):
        base = {"nodes": 1, "expiry": 100 * S, "nfexpiry": 10 * S, "rows": [[1, 7, 41], [2, 8, 5]]}
        cs = [
            # hit / placeholder / expiry crossing of the placeholder / reload
            dict(base, ops=[["take", 1], ["take", 1], ["take", 3], ["take", 3], ["adv", 11001], ["take", 3],
                            ["exec", 3, "put", 9, 1, ["p3", "u9"]], ["take", 3], ["qri", 9]]),
            # index load, primary outlives index, index hit after the primary was invalidated alone
            dict(base, ops=[["qri", 7], ["qri", 7], ["del", ["p1"]], ["qri", 7], ["adv", 104999], ["qri", 7],
                            ["qri", 6], ["qri", 6]]),
            # db error not cached, then served
            dict(base, ops=[["dbfault", 1], ["take", 1], ["qri", 8], ["exec", 1, "del", ["p1", "u7"]],
                            ["dbfault", 0], ["take", 1], ["qri", 8]]),
            # cache error fails fast (both nodes), Set/Del under outage, cleaner retry
            dict(base, nodes=2, ops=[["take", 1], ["cfault", 0, 1], ["cfault", 1, 1], ["take", 1], ["qri", 7],
                                     ["get", 1], ["set", 1, 7, 41], ["cfault", 0, 0], ["cfault", 1, 0],
                                     ["take", 1], ["qri", 7]]),
            # explicit sets: requested expiry rounding
            dict(base, ops=[["setex", 1, 7, 41, 1], ["setex", 2, 8, 5, S + 1], ["set", 1, 7, 41], ["get", 1],
                            ["adv", 2000], ["get", 2], ["adv", 1], ["get", 2]]),
            # default expiries (options not given)
            dict(base, expiry=0, nfexpiry=0, ops=[["take", 1], ["take", 4], ["qri", 8], ["qri", 3]]),
            # unique index violation is a database error, nothing invalidated
            dict(base, ops=[["take", 1], ["exec", 1, "put", 8, 1, ["p1", "u7", "u8"]], ["take", 1]]),
        ]
        if self.with_known():
            cs += self.known_corpus()
        return [dict(c) for c in cs]

    def known_corpus(self):
        base = {"nodes": 1, "expiry": 100 * S, "nfexpiry": 10 * S, "rows": [[1, 7, 41], [2, 8, 5]]}
        return [
            # F7: Take -> v1, outage, Exec(v2), recovery, Take -> v1; the cleaner repairs it
            dict(base, ops=[["take", 1], ["cfault", 0, 1], ["exec", 1, "put", 7, 42, ["p1", "u7"]],
                            ["cfault", 0, 0], ["take", 1], ["tick", 1], ["take", 1]]),
            # F7 with the retry schedule: failed at tick 1, next try 5 ticks later
            dict(base, nodes=2, ops=[["take", 1], ["qri", 8], ["cfault", 0, 1], ["cfault", 1, 1],
                                     ["exec", 1, "put", 7, 42, ["p1", "u7"]], ["tick", 1], ["cfault", 0, 0],
                                     ["cfault", 1, 0], ["tick", 4], ["take", 1], ["tick", 1], ["take", 1]]),
            # F7 on a placeholder: the row is created while the cache is down
            dict(base, ops=[["take", 3], ["cfault", 0, 1], ["exec", 3, "put", 9, 1, ["p3", "u9"]],
                            ["cfault", 0, 0], ["take", 3], ["tick", 1], ["take", 3]]),
            # F11
            dict(base, ops=[["setex", 1, 7, 41, 0], ["setex", 2, 8, 5, -S], ["adv", 1000000], ["get", 1],
                            ["exec", 1, "put", 7, 42, ["p1", "u7"]], ["take", 1]]),
        ]

    # ---------------------------------------------------------------- generator
    def gen(self, rng, n, tier):
        allow = self.with_known()
        cases = []
        for i in range(n):
            if rng.random() < 0.2:
                c = self._gen_placement(rng)
            else:
                c = self._gen_random(rng, allow)
            if not allow:
                c["ops"] = self._avoid_known(c)
            if c["ops"]:
                cases.append(c)
        return cases

    def _config(self, rng):
        expiry = rng.choice([10 * S, 100 * S, S, 2500000000, 7 * S, 0, 33 * S + 1000000, 20 * S])
        nf = rng.choice([S, 10 * S, 3 * S, 0, 1500000000, 5 * S])
        us = rng.sample(range(5), 5)
        rows = [[p, us[p], rng.randrange(100)] for p in range(5) if rng.random() < 0.6]
        return {"nodes": rng.choice([1, 1, 1, 2, 2]), "expiry": expiry, "nfexpiry": nf, "rows": rows}

    def _gen_random(self, rng, allow):
        c = self._config(rng)
        db = {r[0]: (r[1], r[2]) for r in c["rows"]}
        dbfault = False
        eff = (c["expiry"] or 604800 * S) // 1000000
        nfe = (c["nfexpiry"] or 60 * S) // 1000000
        advs = [500, 1000, 999, 1001, 5000, 4999, 5001, eff * 95 // 100, eff * 95 // 100 - 1000, eff * 105 // 100 + 1000,
                eff, nfe, nfe * 95 // 100, nfe * 105 // 100 + 1000, eff // 2, 1]
        ops = []
        nops = rng.randint(8, 40)
        sloppy = rng.random() < 0.25          # undisciplined history (agreement only)
        f11case = allow and rng.random() < 0.08   # explicit non-positive expiries (known finding F11)
        cf = [False, False]
        while len(ops) < nops:
            r = rng.random()
            p = rng.randrange(5)
            if r < 0.24:
                ops.append(["take", p])
            elif r < 0.44:
                ops.append(["qri", rng.randrange(6)])
            elif r < 0.49:
                ops.append(["get", p])
            elif r < 0.65:
                old = db.get(p)
                if rng.random() < 0.3:
                    keys = ["p%d" % p] + (["u%d" % old[0]] if old else [])
                    if sloppy and rng.random() < 0.5:
                        keys = keys[1:] or ["p%d" % rng.randrange(5)]
                    ops.append(["exec", p, "del", keys])
                    if not dbfault:
                        db.pop(p, None)
                else:
                    if old and rng.random() < 0.6:
                        u = old[0]
                    else:
                        u = rng.randrange(6)
                    v = rng.randrange(100)
                    keys = ["p%d" % p, "u%d" % u] + (["u%d" % old[0]] if old and old[0] != u else [])
                    if sloppy and rng.random() < 0.5:
                        keys = [k for k in keys if rng.random() < 0.5] or ["u%d" % rng.randrange(6)]
                    rng.shuffle(keys)
                    ops.append(["exec", p, "put", u, v, keys])
                    taken = any(q != p and row[0] == u for q, row in db.items())
                    if not dbfault and not taken:
                        db[p] = (u, v)
            elif r < 0.77:
                ops.append(["adv", max(1, rng.choice(advs))])
            elif r < 0.81:
                row = db.get(p)
                if row and not (sloppy and rng.random() < 0.4):
                    ops.append(["set", p, row[0], row[1]])
                elif sloppy:
                    ops.append(["set", p, rng.randrange(6), rng.randrange(100)])
            elif r < 0.84:
                row = db.get(p)
                ds = [1, S, S + S // 2, 10 * S, S - 1, S + 1, 3 * S]
                if f11case:
                    ds = [0, -S, -5, S]
                if row:
                    ops.append(["setex", p, row[0], row[1], rng.choice(ds)])
                elif sloppy:
                    ops.append(["setex", p, rng.randrange(6), rng.randrange(100), rng.choice(ds)])
            elif r < 0.87:
                ks = rng.sample(["p%d" % i for i in range(5)] + ["u%d" % i for i in range(6)], rng.randint(1, 3))
                ops.append(["del", ks])
            elif r < 0.90:
                dbfault = not dbfault if rng.random() < 0.8 else dbfault
                ops.append(["dbfault", 1 if dbfault else 0])
            elif r < 0.95:
                nd = rng.randrange(c["nodes"])
                cf[nd] = not cf[nd] if rng.random() < 0.85 else cf[nd]
                ops.append(["cfault", nd, 1 if cf[nd] else 0])
            else:
                ops.append(["tick", rng.choice([1, 1, 1, 2, 4, 5, 6, 60])])
        c["ops"] = ops
        return c

    def _gen_placement(self, rng):
        """a short disciplined history with one outage (database, node 0, node 1 or all) switched on
        before position i and off before position j, for random i < j"""
        c = self._config(rng)
        db = {r[0]: (r[1], r[2]) for r in c["rows"]}
        p = rng.randrange(5)
        old = db.get(p)
        u = old[0] if old else next(x for x in range(6) if all(x != r[0] for r in db.values()))
        body = [["take", p], ["qri", u], ["take", p]]
        w = ["exec", p, "put", u, rng.randrange(100), ["p%d" % p, "u%d" % u]] if rng.random() < 0.7 or not old \
            else ["exec", p, "del", ["p%d" % p, "u%d" % u]]
        body += [w, ["take", p], ["qri", u], ["tick", 1], ["adv", rng.choice([1000, 5000, 11000])], ["take", p], ["qri", u],
                 ["get", p], ["tick", 5], ["take", p]]
        i = rng.randrange(len(body))
        j = rng.randrange(i + 1, len(body) + 1)
        kind = rng.choice(["db", "c0", "c1", "call"] if c["nodes"] == 2 else ["db", "c0", "c0"])
        on = {"db": [["dbfault", 1]], "c0": [["cfault", 0, 1]], "c1": [["cfault", 1, 1]],
              "call": [["cfault", 0, 1], ["cfault", 1, 1]]}[kind]
        off = [[o[0]] + o[1:-1] + [0] for o in on]
        c["ops"] = body[:i] + on + body[i:j] + off + body[j:]
        return c

    def _avoid_known(self, c):
        """Drop the reads that could observe a key whose invalidation failed (F7) and explicit
        non-positive expiries (F11), conservatively, while those findings are not listed."""
        ops = []
        stale = set()
        tasks = []
        faults = set()
        for o in c["ops"]:
            k = o[0]
            if k == "cfault":
                (faults.add if o[2] else faults.discard)(o[1])
            elif k in ("exec", "del"):
                keys = set(o[-1])
                if faults:
                    stale |= keys
                    tasks.append({"keys": keys, "rem": 1, "delay": 1})
                else:
                    stale -= keys
            elif k == "tick":
                for _ in range(o[1]):
                    for t in list(tasks):
                        t["rem"] -= 1
                        if t["rem"] <= 0:
                            if not faults:
                                stale -= t["keys"]
                                tasks.remove(t)
                            elif t["delay"] in DELAYS:
                                t["delay"] = t["rem"] = DELAYS[t["delay"]]
                            else:
                                tasks.remove(t)
            elif k in ("take", "get") and "p%d" % o[1] in stale:
                continue
            elif k == "qri" and ("u%d" % o[1] in stale or any(s[0] == "p" for s in stale)):
                continue
            elif k == "setex" and o[4] <= 0:
                continue
            ops.append(o)
        return ops

    # ---------------------------------------------------------------- Coq rendering
    def _oracle(self, o, ob):
        d = {e["k"]: e for e in ob["dump"]}
        e = None
        if o[0] in ("take", "set"):
            e = d.get("p%d" % o[1])
        elif o[0] == "qri":
            ie = d.get("u%d" % o[1])
            if ob["qi"] == 1 or ie is None or ie["t"] != "pk":
                e = ie
            else:
                e = d.get("p%d" % ie["a"])
        return e["ttl"] // 1000 if e else 0

    def _op(self, o, ob):
        k = o[0]
        if k == "take":
            return "OTake %s %s" % (cz(o[1]), cz(self._oracle(o, ob)))
        if k == "qri":
            return "OQri %s %s" % (cz(o[1]), cz(self._oracle(o, ob)))
        if k == "get":
            return "OGet %s" % cz(o[1])
        if k == "exec":
            if o[2] == "put":
                return "OExec %s (Some (%s, %s)) %s" % (cz(o[1]), cz(o[3]), cz(o[4]), clist([ckey(x) for x in o[5]]))
            return "OExec %s None %s" % (cz(o[1]), clist([ckey(x) for x in o[3]]))
        if k == "set":
            return "OSet %s %s %s %s" % (cz(o[1]), cz(o[2]), cz(o[3]), cz(self._oracle(o, ob)))
        if k == "setex":
            return "OSetEx %s %s %s %s" % (cz(o[1]), cz(o[2]), cz(o[3]), cz(o[4]))
        if k == "del":
            return "ODel %s" % clist([ckey(x) for x in o[1]])
        if k == "adv":
            return "OAdv %s" % cz(o[1])
        if k == "dbfault":
            return "ODbFault %s" % ("true" if o[1] else "false")
        if k == "cfault":
            return "OCFault %s %s" % (cz(o[1]), "true" if o[2] else "false")
        if k == "tick":
            return "OClean %d%%N" % o[1]
        raise ValueError(k)

    def _entry(self, e):
        k = e["k"]
        if e["t"] == "row":
            v = "CRow %s %s" % (cz(e["a"]), cz(e["b"]))
        elif e["t"] == "pk":
            v = "CPk %s" % cz(e["a"])
        elif e["t"] == "hole":
            v = "CHole"
        else:   # unclassifiable value: rendered ill-typed, which neither the model nor the property accepts
            v = "CPk (-424242)" if k[0] == "p" else "CRow (-424242) 0"
        return "(%s, %s, %s)" % (ckey(k), v, cz(e["ttl"]))

    def _ret(self, ob):
        r = ob["r"]
        if r == "row":
            return "RRow %s %s %s" % (cz(ob["pk"]), cz(ob["u"]), cz(ob["v"]))
        return {"ok": "ROk", "nf": "RNf", "dberr": "RDbErr", "cerr": "RCErr"}[r]

    def coq_case(self, case, obs):
        nodes = clist(["(%s, %s)" % (ckey(k), cz(n)) for k, n in sorted(obs["nodeof"].items()) if n])
        cfg = "(mkCfg %s %s %s)" % (cz(case["expiry"]), cz(case["nfexpiry"]), nodes)
        rows = clist(["(%s, (%s, %s))" % (cz(r[0]), cz(r[1]), cz(r[2])) for r in case["rows"]])
        ops = clist([self._op(o, ob) for o, ob in zip(case["ops"], obs["obs"])])
        oo = clist(["mkOO (%s) %s %s %s" % (self._ret(ob), cz(ob["qi"]), cz(ob["qp"]),
                                            clist([self._entry(e) for e in ob["dump"]])) for ob in obs["obs"]])
        return "mkCase %s %s %s %s" % (cfg, rows, ops, oo)

    # ---------------------------------------------------------------- known findings
    def _may(self, case):
        ops = case["ops"]
        may7 = any(o[0] == "cfault" and o[2] for o in ops) and any(o[0] in ("exec", "del") for o in ops)
        may11 = any(o[0] == "setex" and o[4] <= 0 for o in ops)
        return may7, may11

    def _kkey(self, case, obs):
        return vlib.canon_hash([case["ops"], case["rows"], case["expiry"], case["nfexpiry"], case["nodes"], obs])

    def _classify_batch(self, pairs):
        """Check.classify for many histories at once: which exemption (F7 / F11 / both) makes the
        property hold on the observed history."""
        cache = self.__dict__.setdefault("_kcache", {})
        todo = [(self._kkey(c, o), c, o) for c, o in pairs if any(self._may(c))]
        todo = [t for t in todo if t[0] not in cache]
        chunks = [todo[i:i + 60] for i in range(0, len(todo), 60)]

        def work(chunk):
            term = "map classify %s" % clist(["(%s)" % self.coq_case(c, o) for _, c, o in chunk])
            out = vlib.coq_eval_term("%s_k%d" % (self.id, id(chunk) % 100000), self.check_module, term)
            rs = re.findall(r"\(\s*(true|false)\s*,\s*(true|false)\s*,\s*(true|false)\s*\)", out)
            return rs if len(rs) == len(chunk) else None

        import concurrent.futures
        with concurrent.futures.ThreadPoolExecutor(max_workers=8) as ex:
            outs = list(ex.map(work, chunks))
        for chunk, rs in zip(chunks, outs):
            for i, (key, c, o) in enumerate(chunk):
                cache[key] = tuple(x == "true" for x in rs[i]) if rs else None

    def execute(self, cases, ctx):
        res = self._execute(cases, ctx)
        self._last = list(zip(cases, res))
        return res

    def known(self, case, obs):
        may7, may11 = self._may(case)
        if not (may7 or may11):
            return None
        cache = self.__dict__.setdefault("_kcache", {})
        key = self._kkey(case, obs)
        if key not in cache:
            batch = [(c, o) for c, o in self.__dict__.get("_last", []) if len(o["obs"]) == len(c["ops"])]
            self._classify_batch(batch + [(case, obs)])
        r = cache.get(key)
        if not r:
            return None
        a, b, c = r
        if a and may7:
            return F7
        if b and may11:
            return F11
        if c and may7 and may11:
            kids = vlib.known_ids(self.id)
            return F7 if (F7 in kids and F11 in kids) else None
        return None

    # ---------------------------------------------------------------- load suppression monitor
    def extra(self, ctx):
        cases = []
        for nodes in (1, 2):
            for present in (True, False):
                for readers in (2, 3, 5, 8):
                    cases.append({"id": len(cases), "kind": "conc", "nodes": nodes, "expiry": 100 * S, "nfexpiry": 10 * S,
                                  "readers": readers, "present": present})
        reps = 1 if ctx.tier == "quick" else 10
        fails = []
        for _ in range(reps):
            rc, out, res = vlib.go_run(self.bin, cases, tag="c06conc", timeout=300)
            if rc != 0 or len(res) != len(cases):
                raise ExecError("c06 concurrent-readers monitor rc=%s: %s" % (rc, out[-1500:]))
            for c, r in zip(cases, res):
                co = r.get("conc") or {}
                want = "row:1:7:42" if c["present"] else "nf"
                ok = co.get("queries") == 1 and co.get("maxpar") == 1 and all(x == want for x in co.get("results", [None]))
                if not ok:
                    fails.append({"what": "load suppression: %d concurrent readers of one uncached key ran %s database "
                                          "queries (max %s at once), results %s" % (c["readers"], co.get("queries"),
                                                                                     co.get("maxpar"), co.get("results")),
                                  "replay": {"case": c, "observed": co}})
            if fails:
                break
        ctx.notes.append("load-suppression monitor: %d gated concurrent-reader runs" % (reps * len(cases)))
        return fails[:3]

    # ---------------------------------------------------------------- evidence
    def nontrivial(self, case, obs):
        loaded = set()
        hit_after_load = False
        wrote = set()
        read_after_write = False
        faulted = False
        fault_on = False
        for o, ob in zip(case["ops"], obs["obs"]):
            k = o[0]
            if k in ("dbfault", "cfault"):
                fault_on = bool(o[-1]) or fault_on
            if k in ("take", "qri"):
                q = ob["qi"] + ob["qp"]
                tag = (k, o[1])
                if q and ob["r"] in ("row", "nf"):
                    loaded.add(tag)
                elif q == 0 and ob["r"] in ("row", "nf") and tag in loaded:
                    hit_after_load = True
                if k == "take" and o[1] in wrote:
                    read_after_write = True
                if k == "qri" and wrote:
                    read_after_write = True
                if fault_on and ob["r"] in ("dberr", "cerr"):
                    faulted = True
            if k == "exec" and ob["r"] == "ok":
                wrote.add(o[1])
        return hit_after_load and (read_after_write or faulted)

    def features(self, case, obs):
        fs = ["nodes=%d" % case["nodes"], "ops<=%d" % (10 * (1 + len(case["ops"]) // 10))]
        fs += ["has_" + k for k in sorted(set(o[0] for o in case["ops"]))]
        for o, ob in zip(case["ops"], obs["obs"]):
            if o[0] in ("take", "qri", "get", "exec", "set", "setex"):
                fs.append("%s:%s:q%d" % (o[0], ob["r"], ob["qi"] + ob["qp"]))
        return fs

    PARTS = ["coherence (read differs from the reference database)",
             "served-from-cache (live entry not answered with 0 queries / store touched)",
             "database errors (not returned, cached, or more than one query)",
             "fail-fast (cache outage reached the database or was not reported)",
             "TTL (entry written without TTL, outside its band, or an unexpected store change)",
             "invalidation (key still cached after a successful Exec/Del)"]

    def describe_failure(self, case, obs):
        try:
            out = vlib.coq_eval_term(self.id + "_d", self.check_module, "diagnose (%s)" % self.coq_case(case, obs))
            m = re.search(r"Some\s*\(\s*(\d+)\s*,\s*\[([^\]]*)\]", out)
            if m:
                i = int(m.group(1))
                flags = [x.strip() == "true" for x in m.group(2).split(";")]
                bad = [self.PARTS[j] for j, f in enumerate(flags) if not f]
                return "operation #%d %s: %s" % (i, case["ops"][i], "; ".join(bad))
        except Exception:
            pass
        return ("a read returned something other than the database's row, a cached entry was not served from the cache, "
                "a database error was cached or swallowed, a cache outage reached the database, or an entry was written "
                "with a TTL outside its band / without TTL")


PROPERTY = C06()
