"""C01 — circuit breaker: admission law, exact accounting, guaranteed probing."""
import os
import re
from fractions import Fraction

import vlib
from runner import Property, ExecError
from vlib import cz, clist, cbool

MS = 1000000
SEC = 1000 * MS
IV = 250 * MS          # used by the generators only (gaps around bucket boundaries)
TWO53 = 1 << 53

ENTRY = ["EDo", "EDoAcc", "EDoFb", "EDoFbAcc", "EAllowAccept", "EAllowReject"]
CTX = ["CNone", "CLive", "CDone", "CLive"]   # 3: live at entry, cancelled by the request itself: CLive for the model
OUT = ["OOk", "OErrU", "OErrA", "OPanic", "OErrSU", "OErrSUW", "OCanceled", "ODeadline", "OErrFB", "OPanicSU",
       "OOkRej", "OErrUAcc", "OPredPanic"]     # 10..12: the caller's predicate rejects a nil / accepts errU (side state) / panics
RES = ["RNil", "RUnavailable", "RErrU", "RErrA", "RPanic", "RFallback", "RCtxDone", "ROther", "RErrSUW", "RDeadline",
       "RPanicSU"]
# outcomes the caller's predicate (DoWithAcceptable / DoWithFallbackAcceptable) accepts
ACC_OUT = (0, 2, 5, 6)
BAD_OUT = (1, 1, 1, 2, 3, 4, 4, 5, 6, 7, 8, 9, 10, 10, 12)      # what a "bad" request does (weights)
GOOD_OUT = (0, 0, 0, 0, 2, 5, 6, 11)                          # what a "good" request does

OVERLAY = {
    "core/breaker/verif_c01_test.go": os.path.join(vlib.HARNESS, "overlay/breaker/verif_c01_test.go"),
    "core/breaker/verif_c01_conc_test.go": os.path.join(vlib.HARNESS, "overlay/breaker/verif_c01_conc_test.go"),
    "core/breaker/verif_c01_multi_test.go": os.path.join(vlib.HARNESS, "overlay/breaker/verif_c01_multi_test.go"),
    "core/mathx/proba_verif.go": os.path.join(vlib.HARNESS, "overlay/mathx/proba_verif.go"),
    "core/timex/relativetime.go": os.path.join(vlib.HARNESS, "overlay/timex/relativetime.go"),
}

SQLM = ["MExec", "MPrepare", "MQueryRow", "MQueryRowPartial", "MQueryRows", "MQueryRowsPartial", "MTransact"]
WK = ["WGrpcClient", "WGrpcServerUnary", "WGrpcServerStream", "WRedisCmd", "WRedisIgnoredCmd", "WRedisPipeline",
      "WRedisReal", "WSqlExec", "WSqlPredicate", "(WSqlM MExec false)"]
WK += ["(WSqlM %s true)" % m for m in SQLM[1:]] + ["(WSqlM %s false)" % m for m in SQLM[1:]]   # 10..15, 16..21
WK.append("WGrpcServerChain")       # 22
SQL_KINDS = list(range(7, 22))
SQL_QUERY_KINDS = (11, 12, 13, 14, 17, 18, 19, 20)
DERR = ["DNil", None, "DCtxCanceled", "DCtxDeadline", "DBreakerUnavailable", "DRedisNil", "DWrappedRedisNil",
        "DSqlNoRows", "DSqlTxDone", "DSqlAcceptable", "DOther", "DPanic", "DWrappedCanceled", None, "DSqlConnErr",
        "DSqlScanFail", "DSqlScanDeadline", "DWrappedDeadline", "DWrappedBreakerUnavailable", "DWrappedSqlNoRows",
        "DWrappedSqlTxDone", "DStallTimeout", "DStallCancel", "DShaped"]
# error shapes (class 23, code = 10*shape + sentinel): every sentinel of a site's table wrapped twice, inside errors.Join
# (first / last), inside a multi-%w error, matched through a custom Is method
SHAPES = ["ShWrap2", "ShJoinFirst", "ShJoinLast", "ShMultiW", "ShCustomIs"]
SENTINELS = ["BCanceled", "BDeadline", "BBreakerUnavailable", "BRedisNil", "BSqlNoRows", "BSqlTxDone"]
SHAPED_BASES = {"grpcc": (0, 1, 2), "grpcs": (0, 1, 2), "redis": (0, 1, 2, 3), "sql": (0, 1, 2, 4, 5)}


def shaped_codes(w):
    return [10 * sh + b for b in SHAPED_BASES[w] for sh in range(len(SHAPES))]


def wcodes(w, cls):
    return list(range(1, 17)) if cls == 1 else shaped_codes(w) if cls == 23 else [0]
SQL_CUSTOM = (10, 11, 12, 21, 22, 31, 32)    # 10*i + n: accepted iff 1 <= i <= n
# the context of a wrapper call over its life (third field of a wrapper call): live / cancelled before the call /
# live on entry and cancelled while the downstream runs / live on entry and past its deadline when the downstream
# returns / past its deadline before the call
XCTX = ["XLive", "XDone", "XCancelledAtReturn", "XExpiredAtReturn", "XExpired"]
SQL_CTX_KINDS = (7, 10, 11, 12, 13, 14)      # *Ctx methods whose statement the driver wrapper can interrupt (not Transact)


def wmodes(k, rej, cls):
    """context modes the executors can force deterministically for this call"""
    if rej:                                   # a rejected call has no downstream run that could end the context
        return [0] if k == 6 else [0, 1, 4]
    if k == 6 or k == 22:                     # real redis client; Timeout chain (the end of the context races with the handler)
        return [0, 1, 4]
    if k in SQL_KINDS:
        if k in SQL_CTX_KINDS and cls not in (14, 15, 16) and (cls != 0 or k in (7, 10)):
            return [0, 1, 2, 3, 4]
        return [0, 1, 4]
    return [0, 1, 2, 3, 4]


def sql_classes(k):
    """(class, code) pairs a sqlx wrapper kind understands"""
    cl = [(c, 0) for c in (0, 2, 3, 4, 7, 8, 9, 10, 12, 17, 18, 19, 20)] + [(13, x) for x in SQL_CUSTOM]
    cl += [(23, x) for x in shaped_codes("sql")]
    if k != 8:
        cl.append((14, 0))
    if k in SQL_QUERY_KINDS:
        cl += [(15, 0), (16, 0)]
    return cl
# wrapper executors: case["w"] -> (go package, overlay test file, downstream classes it understands)
WPKG = {
    "grpcc": ("zrpc/internal/clientinterceptors", "grpc_client_verif_test.go", [0], [0, 1, 2, 3, 4, 10, 11, 12, 17, 18, 23]),
    "grpcs": ("zrpc/internal/serverinterceptors", "grpc_server_verif_test.go", [1, 2, 22, 22], [0, 1, 2, 3, 4, 10, 11, 12, 17, 18, 23]),
    "redis": ("core/stores/redis", "redis_verif_test.go", [3, 4, 5, 6], [0, 2, 3, 4, 5, 6, 10, 11, 12, 17, 18, 23]),
    "sql": ("core/stores/sqlx", "sqlx_verif_test.go", SQL_KINDS, [0, 2, 3, 4, 7, 8, 9, 10, 12]),
    "rest": ("rest/handler", "rest_verif_test.go", [], []),
}


def wrapper_overlay(w):
    pkg, tf = WPKG[w][0], WPKG[w][1]
    ov = {
        pkg + "/verif_c01w_test.go": os.path.join(vlib.HARNESS, "overlay/wrappers", tf),
        "core/breaker/verif_probe.go": os.path.join(vlib.HARNESS, "overlay/breaker/verif_probe.go"),
        "core/mathx/proba_verif.go": os.path.join(vlib.HARNESS, "overlay/mathx/proba_verif.go"),
        "core/timex/relativetime.go": os.path.join(vlib.HARNESS, "overlay/timex/relativetime.go"),
    }
    if w == "rest":   # the handler's breaker is private: its draws come from a replaced proba.go
        ov["core/mathx/proba.go"] = os.path.join(vlib.HARNESS, "overlay/mathx/proba_global.go")
    return ov


# The shared evaluator puts 400 cases in one coqc process; C01 histories cost up to ~1 s each
# (400 calls x 40 buckets, exact rationals), so spread them over all cores.  This wraps the
# shared function for this process only (tools/check.py loads a single property module).
_coq_eval_cases = vlib.coq_eval_cases


def _shards(n, shard=400):
    return max(2, min(shard, -(-n // (2 * vlib.NCPU))))


def _coq_eval_cases_sharded(prop, check_module, terms, preamble="", shard=400, timeout=900):
    if prop != "C01" or not terms:
        return _coq_eval_cases(prop, check_module, terms, preamble=preamble, shard=shard, timeout=timeout)
    rs = _coq_eval_cases(prop, check_module, terms, preamble=preamble, shard=_shards(len(terms), shard), timeout=timeout)
    return PROPERTY.confirm(check_module, terms, list(rs), preamble, timeout)


vlib.coq_eval_cases = _coq_eval_cases_sharded

# ------------------------------------------------------------------ constants translator

TIME_UNITS = {"time.Nanosecond": 1, "time.Microsecond": 1000, "time.Millisecond": MS,
              "time.Second": SEC, "time.Minute": 60 * SEC, "time.Hour": 3600 * SEC}


class _N:
    """a Go constant: exact value + whether it is of integer kind (integer / integer = truncated quotient)"""

    def __init__(self, v, isint):
        self.v, self.isint = Fraction(v), isint

    def __add__(self, o):
        return _N(self.v + o.v, self.isint and o.isint)

    def __sub__(self, o):
        return _N(self.v - o.v, self.isint and o.isint)

    def __mul__(self, o):
        return _N(self.v * o.v, self.isint and o.isint)

    def __truediv__(self, o):
        if o.v == 0:
            raise RuntimeError("C01 constants translator: division by zero")
        if self.isint and o.isint:
            q = abs(self.v.numerator) // abs(o.v.numerator)
            return _N(q if (self.v >= 0) == (o.v >= 0) else -q, True)
        return _N(self.v / o.v, False)

    def __neg__(self):
        return _N(-self.v, self.isint)

    def __pos__(self):
        return self


def _strip_go_comments(src):
    """comments out, string / rune literals kept (a '//' inside a string is not a comment)"""
    out, i, n = [], 0, len(src)
    while i < n:
        c = src[i]
        if c == '"' or c == "'":
            j = i + 1
            while j < n and src[j] != c:
                j += 2 if src[j] == "\\" else 1
            out.append(src[i:j + 1])
            i = j + 1
        elif c == "`":
            j = src.find("`", i + 1)
            j = n if j < 0 else j
            out.append(src[i:j + 1])
            i = j + 1
        elif src.startswith("//", i):
            j = src.find("\n", i)
            i = n if j < 0 else j
        elif src.startswith("/*", i):
            j = src.find("*/", i + 2)
            out.append("\n" * src[i:(n if j < 0 else j)].count("\n"))
            i = n if j < 0 else j + 2
        else:
            out.append(c)
            i += 1
    return "".join(out)


def _const_decls(src):
    """{name: (expression text, iota)} of the package-level const declarations of one file: blocks
    (with iota and implicit repetition) and single-line declarations, wherever they stand"""
    src = _strip_go_comments(src)
    decls = {}
    for m in re.finditer(r"^const\s+(\w+)(?:\s+[\w.]+)?\s*=\s*(.+)$", src, re.M):
        decls[m.group(1)] = (m.group(2).strip(), 0)
    for blk in re.findall(r"^const\s*\((.*?)^\)", src, re.S | re.M):
        iota, prev = 0, None
        for line in blk.split("\n"):
            line = line.strip().rstrip(";")
            if not line:
                continue
            m = re.fullmatch(r"(\w+)\s*(?:[\w.]+\s*)?=\s*(.+)", line)
            if m:
                prev = m.group(2).strip()
                decls[m.group(1)] = (prev, iota)
            elif re.fullmatch(r"\w+", line) and prev is not None:
                decls[line] = (prev, iota)          # implicit repetition of the previous expression
            else:
                prev = None                         # a form this translator does not read (a, b = ...)
            iota += 1
    return decls


_CONV_INT = ("int", "int8", "int16", "int32", "int64", "uint", "uint8", "uint16", "uint32", "uint64", "time.Duration")
_CONV_FLOAT = ("float32", "float64")


def _eval_const(name, decls, stack=()):
    """Exact value of a package constant: numeric literals, time units, other constants of the package,
    iota, + - * / ( ), numeric conversions.  Fails loudly on anything else."""
    if name in stack:
        raise RuntimeError("C01 constants translator: cyclic constant %s" % name)
    if name not in decls:
        raise RuntimeError("C01 constants translator: constant %s not found in the package" % name)
    expr, iota = decls[name]

    def tok(m):
        t = m.group(0)
        if re.fullmatch(r"0[xX][0-9a-fA-F_]+", t):
            return "_N(%d, True)" % int(t.replace("_", ""), 16)
        if re.fullmatch(r"[0-9][0-9_]*", t):
            return "_N(%d, True)" % int(t.replace("_", ""))
        if re.fullmatch(r"[0-9][0-9_]*\.[0-9_]*|\.[0-9][0-9_]*", t):
            return "_N(Fraction(%r), False)" % t.replace("_", "")
        if re.fullmatch(r"(?:[0-9][0-9_]*\.?[0-9_]*|\.[0-9][0-9_]*)[eE][+-]?[0-9]+", t):
            return "_N(Fraction(%r), False)" % t.replace("_", "")
        if t == "iota":
            return "_N(%d, True)" % iota
        if t in TIME_UNITS:
            return "_N(%d, True)" % TIME_UNITS[t]
        if t in _CONV_INT:
            return "_toint"
        if t in _CONV_FLOAT:
            return "_tofloat"
        if re.fullmatch(r"[A-Za-z_]\w*", t):
            return "_ref(%r)" % t
        raise RuntimeError("C01 constants translator: cannot evaluate %r in %s = %s" % (t, name, expr))

    if not re.fullmatch(r"[\w.+\-*/() \t]+", expr):
        raise RuntimeError("C01 constants translator: cannot evaluate %s = %r" % (name, expr))
    py = re.sub(r"(?:[0-9][0-9_]*\.?[0-9_]*|\.[0-9][0-9_]*)[eE][+-]?[0-9]+|0[xX][0-9a-fA-F_]+|[0-9][0-9_]*\.[0-9_]*|\.[0-9][0-9_]*"
                r"|[0-9][0-9_]*|[A-Za-z_][\w]*(?:\.[A-Za-z_]\w*)?", tok, expr)

    def _toint(x):
        if x.v.denominator != 1:
            raise RuntimeError("C01 constants translator: %s: conversion of %s to an integer type" % (name, x.v))
        return _N(x.v, True)

    env = {"_N": _N, "Fraction": Fraction, "_toint": _toint, "_tofloat": lambda x: _N(x.v, False),
           "_ref": lambda n: _eval_const(n, decls, stack + (name,)), "__builtins__": {}}
    try:
        return eval(py, env)
    except RuntimeError:
        raise
    except Exception as e:
        raise RuntimeError("C01 constants translator: cannot evaluate %s = %r (%s)" % (name, expr, e))


def extract_constants(repo):
    """The breaker's constants, wherever in package core/breaker they are declared (any non-test file, block or
    single declaration, in terms of each other or not): moving / reordering / re-expressing them is followed."""
    d = os.path.join(repo, "core/breaker")
    decls = {}
    for fn in sorted(os.listdir(d)):
        if fn.endswith(".go") and not fn.endswith("_test.go"):
            decls.update(_const_decls(open(os.path.join(d, fn)).read()))
    vals = {}
    for n in ("window", "buckets", "forcePassDuration", "k", "minK", "protection"):
        vals[n] = _eval_const(n, decls).v
    for n in ("window", "buckets", "forcePassDuration", "protection"):
        if vals[n].denominator != 1:
            raise RuntimeError("C01 constants translator: %s is not an integer: %s" % (n, vals[n]))
    for n in ("success", "fail", "drop"):
        v = _eval_const(n, decls).v
        if v.denominator != 1:
            raise RuntimeError("C01 constants translator: %s is not an integer: %s" % (n, v))
        vals["v_" + n] = v
    return vals


def render_constants(vals):
    def q(x):
        return "%s # %d" % (cz(x.numerator), x.denominator)
    lines = ["(* GENERATED by tools/props/c01.py from core/breaker/googlebreaker.go and bucket.go",
             "   of the checked tree at every run - do not edit. *)",
             "From Coq Require Import ZArith QArith.",
             "Open Scope Z_scope.",
             "Definition gen_window : Z := %s." % cz(vals["window"].numerator),
             "Definition gen_buckets : Z := %s." % cz(vals["buckets"].numerator),
             "Definition gen_forcePassDuration : Z := %s." % cz(vals["forcePassDuration"].numerator),
             "Definition gen_k : Q := %s." % q(vals["k"]),
             "Definition gen_minK : Q := %s." % q(vals["minK"]),
             "Definition gen_protection : Z := %s." % cz(vals["protection"].numerator),
             "Definition gen_success : Z := %s." % cz(vals["v_success"].numerator),
             "Definition gen_fail : Z := %s." % cz(vals["v_fail"].numerator),
             "Definition gen_drop : Z := %s." % cz(vals["v_drop"].numerator), ""]
    return "\n".join(lines)


def regen_constants():
    vals = extract_constants(vlib.REPO)
    text = render_constants(vals)
    path = os.path.join(vlib.COQ, "gen", "C01Consts.v")
    os.makedirs(os.path.dirname(path), exist_ok=True)
    old = open(path).read() if os.path.exists(path) else None
    if old != text:
        tmp = path + ".tmp%d" % os.getpid()
        with open(tmp, "w") as f:
            f.write(text)
        os.replace(tmp, path)
    return vals, old != text


# ------------------------------------------------------------------ the property module


def call(entry=0, ctx=0, out=0, gap=0, dur=0, m=1 << 13):
    return [entry, ctx, out, gap, dur, m]


class C01(Property):
    id = "C01"
    title = "Circuit breaker: admission law, exact accounting, guaranteed probing"
    quick_cases = 170      # + the fixed corpus (~85 cases, at least one per seeded class); the volume is in the thorough tier
    thorough_cases = 8000
    design_ref = "DESIGN.md §6/C01"
    level_text = ("Unbounded Rocq theorems over every history of calls (all entry points, ten request outcomes including the "
                  "breaker's own sentinel values returned by the request itself, time gaps, draws), every interleaving of "
                  "concurrent calls, and every history of a SYSTEM of breakers (plain instances, names of the package-level "
                  "registry created at first use, NoBreakerFor, calls nested to any depth): a rejection implies non-accepted > "
                  "protection + (minK-1)*accepted over the window accept() read; exact accounting per entry point and outcome "
                  "(request / fallback run counts over whole histories, the returned value is the request's), lifted to window "
                  "sums = calls recorded in the last `buckets` intervals; force-pass guarantees admission more than "
                  "forcePassDuration after the previous throttled admission for every draw and total failure rejects every draw "
                  "below (T-protection)/(T+1) - sequentially and under every interleaving; every step of every breaker of a "
                  "system is a step of the sequential model after a history of that breaker alone, call trees touch the breakers "
                  "on their path only. Wrapper call sites (REST, zrpc client/server, redis hook, every breaker-wrapped sqlx "
                  "method) resolve exactly once per their acceptability table. The model is tied to the code by white-box "
                  "differential execution under a virtual clock with injected draws; constants are re-extracted from the source "
                  "and their side conditions re-proved at every run; a wrapper records an admitted call by its table whatever has "
                  "become of the call's context when the downstream returns; pinned refuted variants for four seeded changes.")
    level_note = ("Trusted: Coq kernel + vm_compute; hand-written model; float64 vs exact rational arithmetic (near-ties "
                  "are skipped for agreement, the property check uses the property's own constants); overlay files "
                  "replace core/timex/relativetime.go and add a constructor to core/mathx.")
    rule = ("sequential histories of 1..400 calls over 6 entry points x 4 context modes (none, live, done, cancelled by the request "
            "itself) x 13 outcomes (ok, unacceptable / acceptable error, panic, ErrServiceUnavailable bare / %w-wrapped, "
            "context.Canceled / DeadlineExceeded under a live context, the fallback's own value, panic(ErrServiceUnavailable), and the "
            "caller's predicate as a callback: rejects a nil return / accepts the unacceptable error by side state / panics; how often "
            "and with which argument it was asked is observed), gaps in "
            "{0, <250ms, k*250ms+-1ns, 1s+-1ns, 10s+-1ns, several windows, hours..months}, request durations, draws in {0, 2^-40, random "
            "53-bit, 1-2^-53}; ~14% forced interleavings of 2..44 concurrent calls; ~10% systems of 2..4 breakers (plain / registry names "
            "differing in case, trailing blank, prefix; method or package-level helper; NoBreakerFor; call trees of depth 1..3 towards a "
            "downstream breaker that is open; a done-context call on every breaker at the end); ~8% wrapper cases (REST histories; gRPC "
            "client/server, redis hook, 15 sqlx methods x error classes incl. wrapped sentinels, WithAcceptable options, scan failures, x the "
            "life of the call's context: live / cancelled before / cancelled or past its deadline when the downstream returns / past its "
            "deadline before). A fixed corpus (independent of the seed) holds the boundaries of the law, every entry point x context x "
            "outcome, every wrapper site x context life x its whole acceptability table, idle-then-burst, flapping-then-probe, slow "
            "failing probes, a forced probe in flight under a forced schedule, REST chain scripts, nested / registry systems. "
            "non-trivial = (sequential) at least one rejection AND at least one throttled admission AND at least 3 entry points used, "
            "(concurrent) some call's start and finish are separated by another call's action AND at least one rejection, (multi) at "
            "least two breakers used AND a rejection; distinct = canonical JSON hash")
    trusted_base = [
        "model theories/C01/Model.v, Multi.v, WrapModel.v are hand-written; tie = white-box correspondence run (harness/overlay/breaker/verif_c01*_test.go, harness/overlay/wrappers/*) on generated histories",
        "float64 (Go) vs exact Q (model): near-ties (relative margin < 2^-30, or an exact tie with failingBuckets > 0) end the agreement comparison of a history; not a verified float development",
        "overlay replaces core/timex/relativetime.go (virtual clock) and adds core/mathx/proba_verif.go (NewProbaWithSource), core/breaker/verif_probe.go; for REST replaces core/mathx/proba.go; the bit-level relation draw = m/2^53 is re-checked at every run",
        "constants translator (regex + exact fractions) in tools/props/c01.py",
        "atomicity of the three steps read / decide / mark of a concurrent call is assumed (RWMutex, atomics)",
        "prop_ok's reference window (interval index -> sums) is compared with the implementation's history() at every call, not proved equal to the model's window in Coq",
    ]
    assumptions = ["times are positive (timex.Now() > 0) and non-decreasing",
                   "the acceptability predicate and the fallback are pure and do not re-enter the breaker",
                   "a request does not re-enter a breaker it is running under (such call trees are interleavings: concurrent model)"]

    # ---- second line of defence against a disturbed executor run (loaded machine, OS resources):
    # an observation on which prop_ok or agrees fails is taken again, alone, in fresh executor
    # processes; the failure is kept only if it persists.  A discarded first observation is logged
    # in the evidence notes.  (Called from the wrapped vlib.coq_eval_cases above, i.e. for the main
    # run, the shrinker's candidates and the search alike.)
    CONFIRM_MAX = 40

    def confirm(self, check_module, terms, rs, preamble, timeout):
        bad = [i for i, r in enumerate(rs) if tuple(r) != (True, True)]
        pend = getattr(self, "_pending", {})
        bad = [i for i in bad if terms[i] in pend][:self.CONFIRM_MAX]
        if not bad:
            return rs
        import copy
        cases2 = [copy.deepcopy(pend[terms[i]][0]) for i in bad]
        try:
            obs2 = self._execute_once(cases2)
            terms2 = [self._render(c, o) for c, o in zip(cases2, obs2)]
            rs2 = _coq_eval_cases("C01", check_module, terms2, preamble=preamble,
                                  shard=_shards(len(terms2)), timeout=timeout)
        except Exception as e:      # the re-run itself broke: keep the first observations
            self._note("re-run of %d failing observation(s) did not complete (%s): first observations kept" % (len(bad), str(e)[-300:]))
            return rs
        for i, o2, r2 in zip(bad, obs2, rs2):
            case, o1 = pend[terms[i]]
            if tuple(r2) == (True, True):
                import json
                self._note("case %s (%s): first observation gave agrees=%s prop_ok=%s but was NOT reproduced in a fresh executor "
                           "process (agrees=True prop_ok=True): discarded; first observation: %s"
                           % (case.get("id"), case.get("w") or ("multi" if case.get("insts") else "conc" if case.get("conc") else "seq"),
                              rs[i][0], rs[i][1], json.dumps(o1)[:1500]))
                o1.clear()
                o1.update(o2)           # the runner's record now holds the reproducible observation
                rs[i] = tuple(r2)
        return rs

    def _note(self, text):
        ctx = getattr(self, "_ctx", None)
        if ctx is not None:
            ctx.notes.append(text)
        vlib_log = getattr(vlib, "log", None)
        if vlib_log:
            vlib_log("C01: " + text[:400])

    # ---- translator
    def regen(self, ctx):
        self._ctx = ctx
        vals, changed = regen_constants()
        self.consts = vals
        return ["C01Consts.v %s: window=%s buckets=%s forcePass=%s k=%s minK=%s protection=%s"
                % ("rewritten" if changed else "unchanged", vals["window"], vals["buckets"],
                   vals["forcePassDuration"], vals["k"], vals["minK"], vals["protection"])]

    def prepare(self, ctx):
        # go test compiles at execute time; do a 1-case smoke run so that a build failure is reported as such
        rc, out, res = vlib.go_test_overlay("./core/breaker", OVERLAY, "TestVerifC01",
                                            [{"id": 0, "base": 10 ** 12, "calls": [call()]}], tag="c01p", timeout=600)
        if rc != 0 or len(res) != 1 or res[0].get("err"):
            return False, out + "\n" + str(res)
        smoke = [{"id": 0, "w": "grpcc", "wcalls": [[0, 0, 0, 0, 0]]}, {"id": 1, "w": "grpcs", "wcalls": [[1, 0, 0, 0, 0]]},
                 {"id": 2, "w": "redis", "wcalls": [[3, 0, 0, 0, 0]]}, {"id": 3, "w": "sql", "wcalls": [[7, 0, 0, 0, 0], [13, 0, 0, 0, 0]]},
                 {"id": 4, "w": "rest", "base": 10 ** 15, "reqs": [[0, 200, 0, 0, 0]]}]
        try:
            self._run_wrappers(smoke)
        except ExecError as e:
            return False, str(e)
        return True, ""

    def _run_wrappers(self, cases):
        """cases: wrapper cases (any mix); returns {case id: obs rows}."""
        import concurrent.futures
        groups = {}
        for c in cases:
            groups.setdefault(c["w"], []).append(c)

        def work(w):
            cs = groups[w]
            rc, out, res = vlib.go_test_overlay("./" + WPKG[w][0], wrapper_overlay(w), "TestVerifC01W", cs,
                                                tag="c01w_" + w, timeout=900)
            if rc != 0 or len(res) != len(cs):
                raise ExecError("c01 wrapper executor %s rc=%s (%d/%d results): %s" % (w, rc, len(res), len(cs), out[-2000:]))
            for r in res:
                if r.get("err"):
                    raise ExecError("c01 wrapper executor %s: case %s: %s" % (w, r.get("id"), r["err"]))
            return {r["id"]: r["obs"] for r in res}
        merged = {}
        with concurrent.futures.ThreadPoolExecutor(max_workers=5) as ex:
            for part in ex.map(work, list(groups)):
                merged.update(part)
        return merged

    # ---- cases
    def corpus(self):
        cs = []
        B = 10 ** 15 + 12345
        ok = lambda **kw: call(1, 0, 0, **kw)
        fail = lambda **kw: call(1, 0, 1, **kw)
        big = TWO53 - 1
        # (1) property boundary: total-5 = 1.1*accepts exactly (accepts=10,total=16 .. ) then one more failure
        for acc in (10, 20, 100):
            tot = 5 + acc * 11 // 10
            calls = [ok() for _ in range(acc)] + [fail(gap=1) for _ in range(tot - acc)]
            calls += [call(2, 0, 1, gap=1, m=0), call(2, 0, 1, gap=1, m=0), call(0, 0, 0, gap=1, m=0)]
            cs.append({"base": B, "calls": calls})
        # (2) the code's boundary with failingBuckets=f>0: total-5 = (1.5-f/100)*accepts exactly
        for f, acc in ((10, 20), (20, 10), (30, 30), (39, 100), (5, 40)):
            w = Fraction(3, 2) - Fraction(f, 100)
            tot = 5 + w * acc
            if tot.denominator != 1:
                continue
            nfail = int(tot) - acc
            calls = [ok() for _ in range(acc)]
            per = [nfail // f + (1 if i < nfail % f else 0) for i in range(f)]
            for i, n in enumerate(per):
                for j in range(n):
                    calls.append(fail(gap=IV if j == 0 else 0))
            calls += [call(2, 0, 1, gap=0, m=0), call(2, 0, 1, gap=0, m=0), call(3, 1, 2, gap=0, m=big),
                      call(2, 0, 1, gap=0, m=1 << 13)]
            cs.append({"base": B + 7, "calls": calls})
        # (3) force-pass boundary: throttling, a random pass sets lastPass, then exactly 1 s and 1 s + 1 ns later
        calls = [fail(gap=MS) for _ in range(30)] + [fail(gap=MS, m=big)]
        calls += [call(2, 0, 1, gap=SEC, m=0), call(2, 0, 1, gap=1, m=0), call(2, 0, 1, gap=SEC - 1, m=0),
                  call(2, 0, 1, gap=1, m=0), call(2, 0, 1, gap=1, m=0)]
        cs.append({"base": B, "calls": calls})
        # (4) window expiry: 10 s - 1 ns / 10 s after a burst of failures, on and off the bucket grid
        for off in (0, 1, IV - 1):
            calls = [fail(gap=off)] + [fail() for _ in range(40)]
            calls += [call(2, 0, 0, gap=10 * SEC - IV - off - 1, m=0), call(2, 0, 0, gap=1, m=0),
                      call(2, 0, 0, gap=IV - 1, m=0), call(2, 0, 0, gap=1, m=0)]
            cs.append({"base": B, "calls": calls})
        # (5) every entry point x context mode x outcome, admitted and rejected
        calls = []
        for e in range(6):
            for c in range(4):
                for o in (range(len(OUT)) if e < 4 else (0,)):
                    calls.append(call(e, c, o, gap=MS, dur=3 * MS))
        cs.append({"base": B, "calls": calls})
        calls = [fail(gap=0) for _ in range(60)]
        for e in range(6):
            for c in range(4):
                for o in (range(len(OUT)) if e < 4 else (0,)):
                    calls.append(call(e, c, o, gap=MS, dur=3 * MS, m=(0 if (e + o) % 2 else big)))
        cs.append({"base": B, "calls": calls})
        # (5b) the request's own error collides with the breaker's values (a nested / downstream breaker
        # that is open, a context error under a live context, the fallback's value), on a breaker that
        # admits: every Do* entry point x {no ctx, live ctx}
        calls = []
        for e in range(4):
            for c in (0, 1, 3):
                for o in (4, 5, 6, 7, 8, 9):
                    calls.append(call(e, c, o, gap=3 * SEC, dur=MS))
        cs.append({"base": B + 3, "calls": calls})
        # (6) total failure: 100 failures in the window, then draws just below / above 95/101
        thr = (95 * TWO53) // 101
        calls = [call(0, 0, 1, gap=10 * MS, m=big) for _ in range(100)]
        calls += [call(2, 0, 1, gap=0, m=thr - 4096), call(2, 0, 1, gap=0, m=(94 * TWO53) // 100)]
        cs.append({"base": B, "calls": calls})
        # (7) idle for more than one window (2.5 / 3 windows + part of a bucket / exactly 2 windows), then a burst: the
        # calls recorded a moment ago must all be in the window, sustained failure right after the idle time is shed
        # (seeded C01-1: the window's lastTime lags after a long gap)
        for idle in (25 * SEC + 3 * MS, 30 * SEC + IV - 1, 20 * SEC):
            calls = [fail(gap=MS) for _ in range(8)]
            calls += [fail(gap=idle, m=big)] + [fail(gap=MS, m=big) for _ in range(11)]
            calls += [call(2, 0, 1, gap=MS, m=0), call(0, 1, 0, gap=0, m=0), ok(gap=IV, m=big), call(3, 0, 1, gap=1, m=0)]
            calls += [ok(gap=idle + 7, m=big)] + [ok(gap=0) for _ in range(5)] + [fail(gap=IV + 1) for _ in range(9)]
            calls += [call(2, 0, 1, gap=0, m=0)]
            cs.append({"base": B + 11, "calls": calls})
        # (8) flapping: a throttled admission (sets lastPass), recovery (decisions on the healthy path), more failures
        # admitted on the healthy path until the breaker throttles again, rejections less than 1 s later, then a call
        # more than 1 s after the last THROTTLED admission drawing 0: it must be force-admitted (seeded C01-5: lastPass
        # forgotten on the healthy path)
        for e_ok, e_bad in ((0, 0), (4, 5), (1, 3)):
            calls = [call(e_bad, 0, 1, gap=0, m=big) for _ in range(7)]           # the 7th is a lucky pass while throttling
            calls += [call(e_ok, 0, 0, gap=MS, m=big) for _ in range(12)]         # recovery: the last ones on the healthy path
            calls += [call(e_bad, 0, 1, gap=MS, m=big) for _ in range(3)]         # healthy admissions that fail
            calls += [call(e_bad, 0, 1, gap=MS, m=0) for _ in range(30)]          # admitted while healthy, shed once throttling
            calls += [call(2, 0, 0, gap=SEC + 1, m=0), call(2, 0, 1, gap=1, m=0), call(0, 0, 1, gap=SEC + 1, m=0)]
            cs.append({"base": B + 12, "calls": calls})
        # (9) a slow probe that fails: admitted while throttling (forced / lucky), takes 1.2 s .. 3 s, ends as a failure
        # (error, panic, Promise.Reject); the next call comes a moment after its END, i.e. more than 1 s after its
        # ADMISSION, drawing 0: it must be force-admitted (seeded C01-8: lastPass re-stamped when a probe fails)
        calls = [fail(gap=MS, m=big) for _ in range(40)]
        for e, o in ((0, 1), (1, 3), (5, 0), (3, 9), (2, 1)):
            calls += [call(e, 0, o, gap=SEC + 1, dur=SEC + 200 * MS, m=0), call(2, 0, 1, gap=MS, dur=3 * SEC, m=0),
                      call(0, 1, 1, gap=MS, m=0), call(2, 0, 1, gap=MS, m=0)]
        cs.append({"base": B + 13, "calls": calls})
        # (10) the caller's predicate is a user callback: asked once, about the returned value, nil included.  A backend
        # answering 100 % 5xx behind nil errors (rest/httpc's predicate: err == nil && status < 500): every call through
        # DoWithAcceptable* / DoWithFallbackAcceptable* is a failure, the calls drawing 0 afterwards are shed; a predicate
        # that accepts the "unacceptable" error keeps the breaker closed; a predicate that panics is a failure
        # (seeded C01-11: a nil error never reached the predicate)
        for e in (1, 3):
            for c in (0, 1):
                calls = [call(e, c, 10, gap=MS, m=big) for _ in range(30)] + [call(e, c, 10, gap=MS, m=0) for _ in range(4)]
                calls += [call(e, c, 11, gap=SEC + 1, m=0)] + [call(e, c, 12, gap=MS, m=big) for _ in range(3)]
                calls += [call(0, c, 10, gap=SEC + 1, m=0), call(2, c, 12, gap=SEC + 1, m=0), call(e, 2, 10, gap=1, m=0)]
                cs.append({"base": B + 14, "calls": calls})
        calls = [call([1, 3][i % 2], i % 2, 11, gap=MS, m=0) for i in range(40)] + [call(1, 0, 12, gap=MS, m=0) for _ in range(8)]
        cs.append({"base": B + 15, "calls": calls})
        cs += self._conc_corpus()
        cs += self._wrapper_corpus()
        cs += self._multi_corpus()
        # minimised past failures
        d = os.path.join(vlib.ROOT, "corpus", "C01")
        if os.path.isdir(d):
            import json
            for fn in sorted(os.listdir(d)):
                if fn.endswith(".json"):
                    cs.append(json.load(open(os.path.join(d, fn))))
        return cs

    def _gap(self, rng, tempo):
        r = rng.random()
        if r < 0.004:       # hours .. months: span computations far beyond the window, int64 nanoseconds
            return rng.choice([3600 * SEC, 10 ** 14 + 1, 4294967296 * MS + 7, (1 << 53) + 12345])
        if tempo == "dense":
            if r < 0.55:
                return 0
            if r < 0.85:
                return rng.randrange(0, 20 * MS)
            if r < 0.93:
                return rng.randrange(0, IV)
        elif tempo == "medium":
            if r < 0.25:
                return 0
            if r < 0.6:
                return rng.randrange(0, IV)
            if r < 0.8:
                return rng.randint(1, 5) * IV + rng.choice([-1, 0, 1])
        else:
            if r < 0.2:
                return rng.randrange(0, IV)
            if r < 0.5:
                return rng.randint(1, 8) * IV + rng.choice([-1, 0, 1])
        r = rng.random()
        if r < 0.35:
            return rng.randint(1, 5) * IV + rng.choice([-1, 0, 1])
        if r < 0.65:
            return SEC + rng.choice([-1, 0, 1])
        if r < 0.8:
            return 10 * SEC + rng.choice([-1, 0, 1]) - rng.choice([0, 0, IV])
        if r < 0.9:
            return rng.randrange(0, 3 * SEC)
        return rng.randrange(10 * SEC, 35 * SEC)

    def _draw(self, rng):
        r = rng.random()
        if r < 0.15:
            return 1 << 13          # 2^-40
        if r < 0.25:
            return TWO53 - 1        # 1 - 2^-53
        if r < 0.28:
            return 0
        return rng.randrange(1 << 13, TWO53) | 1

    def _stale_success(self, rng):
        """Successes that are about to leave the window followed by >= 30 failing buckets
        (w close to minK) with non-accepted around 5 + 10% of accepted, then probes with
        small draws: the region where the 10% bound of the property is tight."""
        f = rng.randint(30, 39)
        nn = f + rng.randint(0, 6)
        acc = max(1, 10 * (nn - 5) + rng.randint(-40, 40))
        base = 10 ** 15 + rng.randrange(IV)
        e_ok = rng.choice([0, 1, 2, 3, 4])
        calls = [call(e_ok, rng.choice([0, 1]), 0, 0, 0, self._draw(rng)) for _ in range(acc)]
        per = [nn // f + (1 if i < nn % f else 0) for i in range(f)]
        probes = 0
        for n_in_bucket in per:
            for j in range(n_in_bucket):
                e = rng.choice([0, 1, 2, 3, 5])
                m = rng.choice([0, 1 << 13, self._draw(rng)])
                calls.append(call(e, 0, 1, IV if j == 0 else rng.randrange(0, 1000), 0, m))
        for _ in range(rng.randint(1, 6)):
            calls.append(call(rng.choice([2, 3]), 0, 1, rng.choice([0, 1, 1000]), 0, rng.choice([0, 1 << 13])))
        return {"base": base, "calls": calls[:420]}

    def _conc(self, rng):
        """Concurrent calls under a forced schedule: a sequential prefix that builds up
        failures, then a random interleaving of the start / finish actions of the rest."""
        nseq = rng.choice([0, 4, 7, 10, 20])
        npar = rng.randint(2, 24)
        pfail = rng.choice([0.5, 0.8, 1.0])
        calls, sched = [], []
        for i in range(nseq + npar):
            bad = rng.random() < pfail
            e = rng.choice([0, 1, 2, 3, 5 if bad else 4])
            o = rng.choice(BAD_OUT) if bad else rng.choice(GOOD_OUT)
            c = rng.choices([0, 1, 2], weights=(6, 3, 1))[0]
            calls.append(call(e, c, o, 0, 0, self._draw(rng)))

        def dt():
            return rng.choice([0, 0, 1, 1000, MS, rng.randrange(0, 30 * MS), IV + rng.choice([-1, 0, 1]),
                               SEC + rng.choice([0, 1])])
        for i in range(nseq):
            sched += [[i, dt()], [i, rng.choice([0, 1000])]]
        acts = []
        for i in range(nseq, nseq + npar):
            acts += [i, i]
        rng.shuffle(acts)
        if rng.random() < 0.3:
            acts = acts[:rng.randint(1, len(acts))]     # some calls are still in flight at the end
        sched += [[i, dt()] for i in acts]
        if rng.random() < 0.2:
            sched.append([rng.choice([len(calls), len(calls) + 3, 0]), 5])   # no-op actions
        return {"base": 10 ** 15 + rng.randrange(IV), "calls": calls, "conc": {"sched": sched}}

    def _conc_corpus(self):
        """forced interleavings that do not depend on VERIF_SEED"""
        cs = []
        big = TWO53 - 1
        B = 10 ** 15 + 999
        # (a) a probe in flight for longer than 1 s: 30 failures (the last ones lucky passes: lastPass set), then call A
        # starts 1 s + 1 ns later (force pass) and stays in its request; B, C start 1 s + 1 ns / 2 s after A's ADMISSION
        # drawing 0 while A is still running: each is more than 1 s after the previous throttled admission - admitted
        # (seeded C01-7: one forced probe at a time); D right after C is shed; then they finish in another order
        for ents in ((0, 0, 0, 0), (4, 2, 5, 3), (2, 5, 1, 4)):
            nseq = 30
            calls = [call(0, 0, 1, 0, 0, big) for _ in range(nseq)]
            sched = []
            for i in range(nseq):
                sched += [[i, MS], [i, 0]]
            A, Bt, C, D = nseq, nseq + 1, nseq + 2, nseq + 3
            outs = [1 if e != 4 else 0 for e in ents]
            calls += [call(ents[j], 0, outs[j], 0, 0, 0) for j in range(4)]
            sched += [[A, SEC + 1], [Bt, SEC + 1], [C, 2 * SEC], [D, MS], [Bt, MS], [A, SEC], [C, 1], [D, 0]]
            cs.append({"base": B, "calls": calls, "conc": {"sched": sched}})
        return cs

    # ---- several breakers, the registry, nested calls
    @staticmethod
    def _nodes(n):
        out = []
        while n:
            out.append(n)
            n = n.get("in")
        return out

    def _mnode(self, insts, chain, rng, pfail, tempo, force=None):
        """a call tree over the instances of `chain` (outermost first)"""
        node = None
        for depth, i in reversed(list(enumerate(chain))):
            bad = rng.random() < pfail[i]
            e = rng.choice([0, 1, 2, 2, 3, 3, 5 if bad else 4])
            o = rng.choice(BAD_OUT) if bad else rng.choice(GOOD_OUT)
            c = rng.choices([0, 1, 2, 3], weights=(6, 3, 1, 1))[0]
            via = rng.choice([0, 1]) if insts[i] == 1 else 0
            dur = 0 if rng.random() < 0.7 else rng.randrange(0, IV)
            gap = self._gap(rng, tempo) if depth == 0 else rng.choice([0, 0, 1, 1000, rng.randrange(0, IV)])
            n = {"c": [i, via, e, c, o, gap, dur, self._draw(rng), rng.choice([0, 1])]}
            if node is not None:
                n["in"] = node
            node = n
        return node

    def _multi(self, rng):
        ninst = rng.randint(2, 4)
        insts = [rng.choice([0, 1, 1]) for _ in range(ninst)]
        # the last instance plays the downstream that is down
        pfail = [rng.choice([0.05, 0.3, 0.6]) for _ in range(ninst)]
        pfail[-1] = rng.choice([0.9, 1.0])
        tempo = rng.choice(["dense", "dense", "medium"])
        ops = []
        # warm the downstream up: failures let through (large draws) so that it opens
        for _ in range(rng.choice([0, 8, 15, 30])):
            ops.append({"call": {"c": [ninst - 1, rng.choice([0, 1]) if insts[-1] == 1 else 0, rng.choice([0, 1, 2, 3]), 0, 1,
                                       rng.choice([0, 1000, MS]), 0, TWO53 - 1, 0]}})
        for _ in range(rng.randint(8, 70)):
            r = rng.random()
            if r < 0.03 and 1 in insts:
                ops.append({"nop": [rng.choice([i for i, k in enumerate(insts) if k == 1]), rng.choice([0, 1, MS])]})
                continue
            depth = rng.choices([1, 2, 3], weights=(5, 4, 1))[0]
            depth = min(depth, ninst)
            if depth == 1:
                chain = [rng.randrange(ninst)]
            else:
                # towards the downstream: the inner breaker is the one that is (more) open
                chain = sorted(rng.sample(range(ninst), depth))
                if rng.random() < 0.2:
                    chain.reverse()
            ops.append({"call": self._mnode(insts, chain, rng, pfail, tempo)})
        # has any state leaked into a breaker that was not called?  one done-context call each
        for i in range(ninst):
            ops.append({"call": {"c": [i, 0, rng.choice([0, 1, 2, 3, 4]), 2, 0, 0, 0, 0, 0]}})
        return {"base": 10 ** 15 + rng.randrange(IV), "insts": insts, "mops": ops}

    def _multi_corpus(self):
        cs = []
        B = 10 ** 15 + 4242
        big = TWO53 - 1
        leaf = lambda i, e, o, gap=MS, m=big, via=0, c=0: {"c": [i, via, e, c, o, gap, 0, m, 0]}
        # (a) nested breakers: the downstream (1) is open and rejects; the outer breaker (0) admits, its request
        # returns the inner ErrServiceUnavailable (bare / %w-wrapped): every Do* entry point, method and
        # package-level helper, with and without a live context
        for insts in ([0, 0], [1, 1]):
            ops = [{"call": leaf(1, 0, 1, via=insts[1])} for _ in range(20)]
            for e in range(4):
                for c in (0, 1):
                    for wrap in (0, 1):
                        for ie in (0, 2):
                            ops.append({"call": {"c": [0, insts[0], e, c, 0, MS, MS, big, wrap],
                                                 "in": {"c": [1, insts[1], ie, 0, 1, 1000, 0, 0, 0]}}})
            ops += [{"call": leaf(i, 0, 0, gap=0, c=2)} for i in range(2)]
            cs.append({"base": B, "insts": insts, "mops": ops})
        # (b) the registry: two names do not share a window, one name does; NoBreakerFor switches one off
        ops = []
        for j in range(14):
            ops.append({"call": leaf(0, j % 4, 1, m=0, via=j % 2, c=j % 2)})
        for j in range(8):
            ops.append({"call": leaf(1, j % 4, 1, m=0, via=(j + 1) % 2)})
        ops.append({"nop": [0, 5]})
        for j in range(8):
            ops.append({"call": leaf(0, j % 6, [1, 3, 4, 8][j % 4], m=0, via=j % 2, c=j % 3)})
        for j in range(6):
            ops.append({"call": leaf(1, j % 4, 1, m=0, via=j % 2)})
        ops.append({"call": {"c": [2, 0, 2, 0, 0, MS, 0, 0, 1], "in": {"c": [1, 1, 0, 0, 1, 0, 0, 0, 0],}}})
        ops += [{"call": leaf(i, 0, 0, gap=0, c=2)} for i in range(3)]
        cs.append({"base": B + 1, "insts": [1, 1, 0], "mops": ops})
        # (c) every entry point x context mode x {method, package-level helper} on a name: while it
        # admits (good requests) and while it is open (after failures; draws 0)
        ops = []
        for phase in (0, 1):
            for e in range(6):
                for c in range(4):
                    for via in (0, 1):
                        ops.append({"call": leaf(phase, e, [0, 4][phase] if e < 4 else 0, gap=MS, m=0, via=via, c=c)})
            if phase == 0:
                ops += [{"call": leaf(1, 0, 1, gap=0, m=big, via=1)} for _ in range(30)]
        cs.append({"base": B + 2, "insts": [1, 1], "mops": ops})
        # (d) the caller's predicate as a callback (rejects a nil / accepts errU / panics) through the methods and the
        # package-level helpers: 12 nil returns the predicate rejects, then draws of 0
        ops = []
        for j in range(12):
            ops.append({"call": leaf(0, [1, 3][j % 2], 10, gap=MS, m=big, via=(j // 2) % 2, c=j % 2)})
        for j in range(4):
            ops.append({"call": leaf(0, [1, 3][j % 2], 10, gap=MS, m=0, via=(j // 2) % 2)})
        for j in range(8):
            ops.append({"call": leaf(1, [1, 3, 0, 2][j % 4], [11, 12][j // 4], gap=MS, m=0, via=j % 2)})
        # after NoBreakerFor the predicate is not asked at all (one that would panic does not)
        ops.append({"nop": [1, 1]})
        for j in range(6):
            ops.append({"call": leaf(1, [1, 3][j % 2], [10, 11, 12][j % 3], gap=MS, m=0, via=(j // 3) % 2)})
        ops.append({"call": {"c": [0, 0, 3, 0, 0, MS, 0, big, 0], "in": {"c": [1, 1, 3, 0, 12, 1000, 0, 0, 1]}}})
        ops += [{"call": leaf(i, 0, 0, gap=0, c=2)} for i in range(2)]
        cs.append({"base": B + 3, "insts": [1, 1], "mops": ops})
        return cs

    REST_OK = (200, 201, 204, 301, 400, 404, 429, 499, 103)
    REST_BAD = (500, 502, 503, 504, 599)

    def _rest_script(self, rng, bad, gap, dur, m):
        """[3, chain, gap, dur, m, end, op...]: a handler script through the engine's chain; `bad` steers
        towards an outcome the breaker has to record as a failure"""
        chain = rng.choice([0, 1, 2, 2, 3, 3, 3])
        ops = []
        for _ in range(rng.choice([0, 1, 1, 2, 3, 4])):
            r = rng.random()
            if chain < 2 and rng.random() < 0.15:
                ops.append(rng.choice([3, 4]))       # the request's context ends here; the handler goes on
            elif r < 0.3:
                ops.append(1)
            elif r < 0.55:
                ops.append(2)
            else:
                ops.append(rng.choice(self.REST_BAD if (bad and rng.random() < 0.6) else self.REST_OK))
        if chain >= 2:
            end = rng.choice([2, 2, 2, 1, 0]) if bad else rng.choice([0, 0, 0, 3, 1])
        else:
            end = rng.choice([0, 0, 1])
            if bad and not any(o >= 500 for o in ops):
                ops.append(rng.choice(self.REST_BAD))     # without TimeoutHandler the last status decides
        return [3, chain, gap, dur, m, end] + ops

    def _wrapper_case(self, rng):
        w = rng.choice(["grpcc", "grpcs", "redis", "sql", "rest", "rest"])
        if w == "rest":
            reqs = []
            tempo = rng.choice(["dense", "dense", "medium"])
            p5 = rng.choice([0.3, 0.6, 0.9, 1.0])
            pscript = rng.choice([0.0, 0.3, 0.7, 1.0])
            for _ in range(rng.randint(5, 120)):
                if rng.random() < pscript:
                    dur = 0 if rng.random() < 0.8 else rng.randrange(0, IV)
                    reqs.append(self._rest_script(rng, rng.random() < p5, self._gap(rng, tempo), dur, self._draw(rng)))
                    continue
                r = rng.random()
                code = rng.choice([500, 500, 502, 503, 504, 599]) if rng.random() < p5 else rng.choice([0, 200, 201, 301, 400, 404, 429, 499])
                kind = 0 if r < 0.9 else (1 if r < 0.95 else 2)
                if kind == 2 and code == 0:
                    code = 500
                dur = 0 if rng.random() < 0.8 else rng.randrange(0, IV)
                reqs.append([kind, code, self._gap(rng, tempo), dur, self._draw(rng)])
            return {"w": "rest", "base": 10 ** 15 + rng.randrange(IV), "reqs": reqs}
        _, _, kinds, classes = WPKG[w]
        calls = []
        for _ in range(rng.randint(8, 40)):
            k = rng.choice(kinds)
            if w == "sql":
                cls, code = rng.choice(sql_classes(k))
                rej = rng.choice([0, 0, 1])
                calls.append([k, rej, self._wmode(rng, k, rej, cls), cls, code])
                continue
            cls = rng.choice(classes)
            if k == 6:
                cls = rng.choice([0, 5, 10])
            if k == 22 and rng.random() < 0.3:
                cls = rng.choice([21, 22])      # still running when the timeout fires / the client cancels
            rej = rng.choice([0, 0, 1])
            calls.append([k, rej, self._wmode(rng, k, rej, cls), cls, rng.choice(wcodes(w, cls))])
        return {"w": w, "wcalls": calls}

    @staticmethod
    def _wmode(rng, k, rej, cls):
        m = rng.choice([0, 0, 0, 0, 1, 2, 2, 3, 3, 4])
        return m if m in wmodes(k, rej, cls) else 0

    def _wrapper_corpus(self):
        cs = []
        # every wrapper call site x the context over the life of the call {live, cancelled before, cancelled while the
        # downstream runs, deadline passed while the downstream runs, past its deadline before} x the site's whole
        # acceptability table, admitted and rejected.  Deterministic, independent of VERIF_SEED (seeded C01-3).
        for w in ("grpcc", "grpcs", "redis"):
            _, _, kinds, classes = WPKG[w]
            calls = []
            for k in sorted(set(kinds)):
                cl = [0, 5, 10] if k == 6 else classes + ([21, 22] if k == 22 else [])
                for cls in cl:
                    for code in wcodes(w, cls):
                        for rej in (0, 1):
                            for cd in wmodes(k, rej, cls):
                                if cls == 23 and (rej or cd not in (0, 3)):
                                    continue
                                if k == 6 and cd == 4 and cls != 0:
                                    continue
                                calls.append([k, rej, cd, cls, code])
            # one case per call site and context life: small cases shrink fast and read well
            for k in sorted(set(c[0] for c in calls)):
                for cd in range(5):
                    part = [c for c in calls if c[0] == k and c[2] == cd]
                    if part:
                        cs.append({"w": w, "wcalls": part})
        # sqlx: every breaker-wrapped method x every error class it can meet, admitted; rejected and
        # done-context once per class with a rotating method
        calls = []
        for k in SQL_KINDS:
            for j, (cls, code) in enumerate(sql_classes(k)):
                calls.append([k, 0, 0, cls, code])
                if k != 8 and j % 5 == k % 5:
                    calls += [[k, 1, 0, cls, code], [k, 0, 1, cls, code], [k, 1, 1, cls, code], [k, 0, 4, cls, code]]
        cs.append({"w": "sql", "wcalls": calls[0::2]})
        cs.append({"w": "sql", "wcalls": calls[1::2]})
        # sqlx *Ctx methods: the context ends (cancel / deadline) while the driver executes the statement
        calls = []
        for k in SQL_CTX_KINDS:
            for cls, code in sql_classes(k):
                for cd in (2, 3):
                    if cd in wmodes(k, 0, cls):
                        calls.append([k, 0, cd, cls, code])
        cs.append({"w": "sql", "wcalls": calls})
        B = 10 ** 15 + 777
        big = TWO53 - 1
        # REST: 2xx/4xx accepted, 5xx rejected, a panicking handler, then throttling with forced draws
        reqs = [[0, 0, 0, 0, 0], [0, 404, MS, 0, 0], [0, 499, MS, 0, 0], [0, 500, MS, 0, 0], [1, 0, MS, 0, 0], [2, 503, MS, 0, 0]]
        reqs += [[0, 500, MS, 0, 0] for _ in range(12)] + [[0, 200, MS, 0, big], [0, 200, SEC + 1, 0, 0], [0, 200, 1, 0, 0]]
        cs.append({"w": "rest", "base": B, "reqs": reqs})
        reqs = [[0, 503, 0, 0, 0] for _ in range(30)] + [[0, 200, IV, 3 * MS, big] for _ in range(10)] + [[0, 200, 0, 0, 0] for _ in range(10)]
        cs.append({"w": "rest", "base": B, "reqs": reqs})
        # the engine's chain Breaker(Timeout(Recover(handler))): a streaming handler writes, flushes (implicit 200 on
        # the wire) and stalls past the route's timeout - every request IS a 503 for the breaker: total failure, so
        # the requests drawing 0 afterwards must be shed; the same with a 2xx status set before the flush
        for ops in ([1, 2], [200, 1, 2, 1], [2]):
            reqs = [[3, 3, MS, 0, big, 2] + ops for _ in range(14)] + [[3, 3, MS, 0, 0, 2] + ops for _ in range(6)]
            cs.append({"w": "rest", "base": B + 5, "reqs": reqs})
        # an informational 1xx header, then the final 5xx, no TimeoutHandler: the last status is the outcome
        reqs = [[3, 0, MS, 0, big, 0, 103, 500] for _ in range(14)] + [[3, 1, MS, 0, 0, 0, 103, 503] for _ in range(6)]
        cs.append({"w": "rest", "base": B + 6, "reqs": reqs})
        # the request's context ends in mid-handler (3: the client cancels, 4: the request's deadline passes), the handler
        # goes on and answers 5xx: a failure like any other - total failure, the requests drawing 0 must be shed
        for chain, ops in ((0, [3, 500]), (1, [4, 503]), (0, [4, 1, 500]), (1, [500, 3])):
            reqs = [[3, chain, MS, 0, big, 0] + ops for _ in range(14)] + [[3, chain, MS, 0, 0, 0] + ops for _ in range(6)]
            cs.append({"w": "rest", "base": B + 9, "reqs": reqs})
        # every chain x end x a few scripts on a breaker that admits (3 s apart)
        reqs = []
        for chain in range(4):
            for end in ((0, 1, 2, 3) if chain >= 2 else (0, 1)):
                for ops in ([], [1], [2], [404], [500], [1, 2], [500, 1, 2], [2, 500], [200, 503], [103, 500], [500, 200],
                            [1, 500], [204, 2, 1]) + (([3], [4], [3, 500], [4, 502], [500, 4, 200]) if chain < 2 else ()):
                    reqs.append([3, chain, 3 * SEC, MS, 0, end] + ops)
        cs.append({"w": "rest", "base": B + 7, "reqs": reqs[0::2]})
        cs.append({"w": "rest", "base": B + 8, "reqs": reqs[1::2]})
        return cs

    def gen(self, rng, n, tier):
        cases = []
        for _ in range(n):
            if rng.random() < 0.08:
                cases.append(self._wrapper_case(rng))
                continue
            if rng.random() < 0.15:
                cases.append(self._conc(rng))
                continue
            if rng.random() < 0.12:
                cases.append(self._multi(rng))
                continue
            if rng.random() < (0.3 if tier == "search" else 0.05):
                cases.append(self._stale_success(rng))
                continue
            ncalls = rng.choice([rng.randint(1, 30), rng.randint(30, 150), rng.randint(100, 250), rng.randint(200, 400)])
            if tier == "quick":
                ncalls = min(ncalls, 250)
            tempo = rng.choice(["dense", "dense", "medium", "sparse"])
            mix = rng.choice(["fail", "ok", "alt", "burst", "rand", "rand"])
            pfail = rng.random()
            base = rng.choice([10 ** 12, 10 ** 15 + rng.randrange(IV), 3 * 10 ** 17 + rng.randrange(10 ** 9)])
            ctxw = rng.choice([(1, 0, 0, 0), (6, 3, 1, 1), (6, 3, 2, 2)])
            entries = rng.choice([[0, 1, 2, 3, 4, 5], [0, 1, 2, 3, 4, 5], [2, 3], [4, 5], [0, 1]])
            calls = []
            burst_fail, burst_left = True, 0
            for i in range(ncalls):
                if mix == "fail":
                    bad = rng.random() < 0.97
                elif mix == "ok":
                    bad = rng.random() < 0.03
                elif mix == "alt":
                    bad = i % 2 == 0
                elif mix == "burst":
                    if burst_left == 0:
                        burst_fail = not burst_fail
                        burst_left = rng.randint(1, 60)
                    burst_left -= 1
                    bad = burst_fail
                else:
                    bad = rng.random() < pfail
                e = rng.choice(entries)
                c = rng.choices([0, 1, 2, 3], weights=ctxw)[0]
                if e == 4 and bad:
                    e = 5
                elif e == 5 and not bad:
                    e = 4
                if bad:
                    o = rng.choice(BAD_OUT)
                else:
                    o = rng.choice(GOOD_OUT)
                dur = 0
                r = rng.random()
                if r < 0.15:
                    dur = rng.randrange(0, IV)
                elif r < 0.2:
                    dur = rng.randint(1, 4) * IV + rng.choice([-1, 0, 1])
                elif r < 0.22:
                    dur = SEC + rng.choice([-1, 0, 1])
                calls.append(call(e, c, o, self._gap(rng, tempo), dur, self._draw(rng)))
            cases.append({"base": base, "calls": calls})
        return cases

    # ---- execution
    def execute(self, cases, ctx):
        if ctx is not None:
            self._ctx = ctx
        self._pending = {}
        return self._execute_once(cases)

    def _execute_once(self, cases):
        # the executors key their output by case id: make ids unique within this batch
        saved = [c.get("id") for c in cases]
        for i, c in enumerate(cases):
            c["id"] = i
        try:
            main = [c for c in cases if not c.get("w")]
            wrap = [c for c in cases if c.get("w")]
            byid = {}
            if main:
                rc, out, res = vlib.go_test_overlay("./core/breaker", OVERLAY, "TestVerifC01", main, tag="c01", timeout=900)
                if rc != 0 or len(res) != len(main):
                    raise ExecError("c01 executor rc=%s (%d/%d results): %s" % (rc, len(res), len(main), out[-2000:]))
                for r in res:
                    if r.get("err"):
                        raise ExecError("c01 executor: case %s: %s" % (r.get("id"), r["err"]))
                    byid[r["id"]] = r["obs"]
            if wrap:
                byid.update(self._run_wrappers(wrap))
            return [{"obs": byid[i]} for i in range(len(cases))]
        finally:
            for c, i in zip(cases, saved):
                if i is None:
                    c.pop("id", None)
                else:
                    c["id"] = i

    # ---- Coq rendering
    def _call(self, k):
        return "mkCall %s %s %s %s %s (mkU %d)" % (ENTRY[k[0]], CTX[k[1]], OUT[k[2]], cz(k[3]), cz(k[4]), k[5])

    def _obs(self, o):
        res = RES[o[0]] if 0 <= o[0] < len(RES) else "ROther"
        return "mkI %s %s %s %s %s %s %s %s" % (res, cz(o[1]), cz(o[2]), cbool(o[3] == 1), cz(o[4]), cz(o[5]),
                                             " ".join(cz(x) for x in o[6:16]), cz(o[16] if len(o) > 16 else 0))

    def _derr(self, cls, code):
        if cls == 13:
            return "(DSqlCustom %d %d)" % (code // 10, code % 10)
        if cls == 23:
            return "(DShaped %s %s)" % (SHAPES[code // 10], SENTINELS[code % 10])
        return "(DStatus %s)" % cz(code) if cls == 1 else DERR[cls]

    def _seen(self, kind, code):
        return {0: "SNil", 1: "SSame", 2: "SBreakerUnavailable", 3: "(SStatus %s)" % cz(code), 4: "SCtxErr", 5: "SPanic",
                6: "(SBool %s)" % cbool(code == 1)}.get(kind, "(SStatus (-1))")

    def _hreq(self, q):
        if q[0] == 3:
            ch = ["(ChPlain false)", "(ChPlain true)", "(ChTimeout false)", "(ChTimeout true)"][q[1]]
            ops = clist(["HWrite" if o == 1 else "HFlush" if o == 2 else "HCtxDone false" if o == 3 else "HCtxDone true" if o == 4
                         else "HWriteHeader %d" % o for o in q[6:]])
            end = ["HReturn", "HPanicEnd", "HStallTimeout", "HStallCancel"][q[5]]
            return "mkHReq (HScript %s %s %s) %s %s (mkU %d)" % (ch, ops, end, cz(q[2]), cz(q[3]), q[4])
        out = {0: "(HCode %s)" % cz(q[1] or 200), 1: "(HPanic None)", 2: "(HPanic (Some %s))" % cz(q[1])}[q[0]]
        return "mkHReq %s %s %s (mkU %d)" % (out, cz(q[2]), cz(q[3]), q[4])

    def _ncall(self, n):
        k = n["c"]
        c = "(mkCall %s %s %s %s %s (mkU %d))" % (ENTRY[k[2]], CTX[k[3]], OUT[k[4]], cz(k[5]), cz(k[6]), k[7])
        if n.get("in"):
            return "(NNest %d%%nat %s %s %s)" % (k[0], c, cbool(k[8] == 1), self._ncall(n["in"]))
        return "(NLeaf %d%%nat %s)" % (k[0], c)

    def _mop(self, op):
        if op.get("call"):
            return "MCall %s" % self._ncall(op["call"])
        return "MNoBreaker %d%%nat %s" % (op["nop"][0], cz(op["nop"][1]))

    def coq_case(self, case, obs):
        term = self._render(case, obs)
        if getattr(self, "_pending", None) is not None:
            self._pending[term] = (case, obs)
        return term

    def _render(self, case, obs):
        if case.get("insts"):
            named = clist([cbool(k == 1) for k in case["insts"]])
            ops = clist([self._mop(op) for op in case["mops"]])
            rows = clist(["Some (%s)" % self._obs(r[1:17]) if r[0] == 1 else "None" for r in obs["obs"]])
            return "mkCase %s [] [] [] [] [] [] [] [] [] %s %s %s" % (cz(case["base"]), named, ops, rows)
        if case.get("w") == "rest":
            rs = clist([self._hreq(q) for q in case["reqs"]])
            ro = clist(["mkRO %s (%s %s)" % (cz(o[0]), "RSCode" if o[1] == 0 else "RSPanic" if o[1] == 1 else "RSCode (-1) ; RSPanic", cz(o[2]))
                        if o[1] in (0, 1) else "mkRO %s (RSPanic (-1))" % cz(o[0]) for o in obs["obs"]])
            return "mkCase %s [] [] [] [] [] [] [] %s %s [] [] []" % (cz(case["base"]), rs, ro)
        if case.get("w"):
            wc = clist(["mkWC %s %s %s %s" % (WK[k[0]], cbool(k[1] == 1), XCTX[k[2]], self._derr(k[3], k[4]))
                        for k in case["wcalls"]])
            wo = clist(["mkWO %s %s %s %s %s" % (cz(o[0]), cz(o[1]), cz(o[2]), cz(o[3]), self._seen(o[4], o[5]))
                        for o in obs["obs"]])
            return "mkCase 0 [] [] [] [] [] %s %s [] [] [] [] []" % (wc, wo)
        calls = clist([self._call(k) for k in case["calls"]])
        if case.get("conc"):
            sched = case["conc"]["sched"]
            rows = obs["obs"]
            srows, trows = rows[:len(sched)], rows[len(sched):]
            sc = clist(["(%d%%nat, %s)" % (max(0, a[0]), cz(a[1])) for a in sched])
            so = clist(["mkS " + " ".join(cz(x) for x in r) for r in srows])
            to = clist(["mkT %s %s %s %s %s" % (cz(r[0]), RES[r[1]] if 0 <= r[1] < len(RES) else "ROther",
                                               cz(r[2]), cz(r[3]), cbool(r[4] == 1)) for r in trows])
            return "mkCase %s %s [] %s %s %s [] [] [] [] [] [] []" % (cz(case["base"]), calls, sc, so, to)
        return "mkCase %s %s %s [] [] [] [] [] [] [] [] [] []" % (cz(case["base"]), calls, clist([self._obs(o) for o in obs["obs"]]))

    # ---- statistics
    def _near_ties(self, case, obs):
        """calls whose float64 decision is a near-tie of the exact one (same rule as Check.near_tie)."""
        c = getattr(self, "consts", None) or extract_constants(vlib.REPO)
        k, mink, prot, nb = c["k"], c["minK"], c["protection"], c["buckets"]
        n = 0
        for kk, o in zip(case["calls"], obs["obs"]):
            if kk[1] == 2:
                continue
            acc, tot, failing, working = o[12], o[13], o[14], o[15]
            w = max(k - (k - mink) * failing / nb, mink)
            a, b = tot - prot, w * acc
            if failing != 0 and acc != 0 and (a == b or abs(a - b) * (1 << 30) < max(abs(a), abs(b))):
                n += 1
                continue
            if o[4] == 1:
                ratio = (a - b) / (tot + 1) * (nb - working) / nb
                u = Fraction(kk[5], TWO53)
                if abs(u - ratio) * (1 << 30) < max(abs(u), abs(ratio)):
                    n += 1
        return n

    def _conc_rows(self, case, obs):
        n = len(case["conc"]["sched"])
        return obs["obs"][:n], obs["obs"][n:]

    def _mrows(self, case, obs):
        """(node, row) pairs in pre-order"""
        nodes = []
        for op in case["mops"]:
            if op.get("call"):
                nodes += self._nodes(op["call"])
        return list(zip(nodes, obs["obs"]))

    def nontrivial(self, case, obs):
        if case.get("insts"):
            pr = self._mrows(case, obs)
            used = set(n["c"][0] for n, r in pr if r[0] == 1)
            rej = any(r[0] == 1 and r[1] in (1, 5) and r[2] == 0 and n["c"][2] < 4 for n, r in pr)
            return len(used) >= 2 and rej
        if case.get("w") == "rest":
            return any(o[0] == 0 for o in obs["obs"]) and any((q[0] != 3 and q[1] >= 500) or (q[0] == 3 and (q[5] == 2 or any(x >= 500 for x in q[6:])))
                                                             for q in case["reqs"])
        if case.get("w"):
            return any(o[3] == 1 for o in obs["obs"]) and any(o[2] == 1 for o in obs["obs"]) and any(o[1] == 1 for o in obs["obs"])
        if case.get("conc"):
            _, trows = self._conc_rows(case, obs)
            pos = {}
            for i, a in enumerate(case["conc"]["sched"]):
                pos.setdefault(a[0], []).append(i)
            overlapped = any(len(p) >= 2 and p[1] - p[0] > 1 for p in pos.values())
            return overlapped and any(r[1] in (1, 5) for r in trows)
        rej = any(o[0] in (1, 5) for o in obs["obs"])
        last = -1
        thr = False
        for o in obs["obs"]:
            if o[0] not in (1, 5, 6) and (o[4] == 1 or o[5] != last):
                thr = True
            last = o[5]
        return rej and thr and len(set(k[0] for k in case["calls"])) >= 3

    def features(self, case, obs):
        if case.get("insts"):
            pr = self._mrows(case, obs)
            fs = ["multi", "multi_breakers=%d" % len(case["insts"])]
            if 1 in case["insts"]:
                fs.append("multi_registry_name")
            if any(op.get("nop") for op in case["mops"]):
                fs.append("multi_NoBreakerFor")
            if any(n["c"][1] == 1 and r[0] == 1 for n, r in pr):
                fs.append("multi_package_level_helper")
            for (n, r), (n2, r2) in zip(pr, pr[1:]):
                if n.get("in") is n2 and r[0] == 1 and r2[0] == 1:
                    fs.append("multi_nested_call")
                    if r2[2] == 0 and r2[1] in (1, 5) and r[2] == 1:
                        fs.append("multi_inner_rejected_outer_admitted")
                        if n["c"][2] in (2, 3):
                            fs.append("multi_inner_rejected_outer_has_fallback")
            for n, r in pr:
                if r[0] == 1 and r[2] == 1 and r[1] in (1, 5, 6, 8, 9, 10):
                    fs.append("admitted_request_returned_sentinel")
            return fs
        if case.get("w") == "rest":
            fs = ["wrap_rest"]
            if any(o[0] == 0 for o in obs["obs"]):
                fs.append("wrap_rest_503")
            if any(o[1] == 1 for o in obs["obs"]):
                fs.append("wrap_rest_panic")
            for q, o in zip(case["reqs"], obs["obs"]):
                if q[0] == 3 and o[0] == 1:
                    fs.append("wrap_rest_chain_" + ["handler", "recover", "timeout", "timeout_recover"][q[1]])
                    fs.append("wrap_rest_end_" + ["return", "panic", "timed_out", "client_cancel"][q[5]])
                    if q[5] == 2 and q[1] >= 2 and 2 in q[6:]:
                        fs.append("wrap_rest_timed_out_after_flush")
                    if 3 in q[6:] or 4 in q[6:]:
                        fs.append("wrap_rest_ctx_ended_in_handler")
            return fs
        if case.get("w"):
            fs = ["wrap_" + case["w"]]
            fs += ["wrap_" + WK[k] for k in sorted(set(c[0] for c in case["wcalls"]))]
            fs += ["wrap_call"] * len(case["wcalls"])
            fs += ["wrap_ctx_" + XCTX[m] for m in sorted(set(c[2] for c in case["wcalls"]))]
            return fs
        if case.get("conc"):
            _, trows = self._conc_rows(case, obs)
            fs = ["conc", "conc_threads<=%d" % (10 * (1 + (len(case["calls"]) - 1) // 10))]
            if any(r[1] in (1, 5) for r in trows):
                fs.append("conc_rejection")
            if any(r[0] == 1 for r in trows):
                fs.append("conc_in_flight_at_end")
            if any(r[1] == 4 for r in trows):
                fs.append("conc_panic")
            return fs
        fs = ["calls<=%d" % (50 * (1 + (len(case["calls"]) - 1) // 50))]
        for e in sorted(set(k[0] for k in case["calls"])):
            fs.append("entry_" + ENTRY[e])
        for c in sorted(set(k[1] for k in case["calls"])):
            fs.append("ctx_cancelled_during_request" if c == 3 else "ctx_" + CTX[c])
        for o in sorted(set(k[2] for k in case["calls"])):
            fs.append("out_" + OUT[o])
        for r in sorted(set(o[0] for o in obs["obs"])):
            fs.append("res_" + (RES[r] if r < len(RES) else "other"))
        for k, o in zip(case["calls"], obs["obs"]):
            if k[0] < 4 and o[1] == 1 and o[0] in (1, 5, 6, 8, 9, 10):
                fs.append("admitted_request_returned_sentinel")
        nrej = sum(1 for o in obs["obs"] if o[0] in (1, 5))
        fs.append("rejections=%s" % ("0" if nrej == 0 else "1-9" if nrej < 10 else "10-99" if nrej < 100 else "100+"))
        if any(o[4] == 1 and o[0] not in (1, 5) for o in obs["obs"]):
            fs.append("random_pass")
        last = -1
        for o in obs["obs"]:
            if o[4] == 0 and o[5] != last:
                fs.append("force_pass")
                break
            last = o[5]
        nt = self._near_ties(case, obs)
        if nt:
            fs.append("near_tie_history")
            fs += ["near_tie_call"] * nt
        if any(k[4] > 0 for k in case["calls"]):
            fs.append("request_takes_time")
        if all(o[0] in (0, 2, 3, 4, 6) for o in obs["obs"]) and len(case["calls"]) > 0:
            fs.append("never_throttled")
        return fs

    def shrink_candidates(self, case):
        if case.get("insts"):
            ops = case["mops"]
            res = []
            n = len(ops)
            chunk = max(1, n // 2)
            while chunk >= 1 and n > 1:
                for i in range(0, n, chunk):
                    c = dict(case)
                    c["mops"] = ops[:i] + ops[i + chunk:]
                    if c["mops"]:
                        res.append(c)
                if chunk == 1:
                    break
                chunk //= 2
            return res[:200]
        if case.get("w"):
            key = "reqs" if case["w"] == "rest" else "wcalls"
            items = case[key]
            res = []
            n = len(items)
            chunk = max(1, n // 2)
            while chunk >= 1 and n > 1:
                for i in range(0, n, chunk):
                    c = dict(case)
                    c[key] = items[:i] + items[i + chunk:]
                    if c[key]:
                        res.append(c)
                if chunk == 1:
                    break
                chunk //= 2
            return res[:200]
        if case.get("conc"):
            sched = case["conc"]["sched"]
            res = []
            n = len(sched)
            chunk = max(1, n // 2)
            while chunk >= 1 and n > 1:
                for i in range(0, n, chunk):
                    c = dict(case)
                    c["conc"] = {"sched": sched[:i] + sched[i + chunk:]}
                    if c["conc"]["sched"]:
                        res.append(c)
                if chunk == 1:
                    break
                chunk //= 2
            return res[:200]
        calls = case.get("calls")
        if not isinstance(calls, list) or len(calls) <= 1:
            return []
        res = []
        n = len(calls)
        chunk = max(1, n // 2)
        while chunk >= 1:
            for i in range(0, n, chunk):
                for keep_time in (True, False):
                    rest = [list(k) for k in calls[i + chunk:]]
                    if keep_time and rest:
                        rest[0][3] += sum(k[3] + k[4] for k in calls[i:i + chunk])
                    c = dict(case)
                    c["calls"] = [list(k) for k in calls[:i]] + rest
                    if c["calls"]:
                        res.append(c)
            if chunk == 1:
                break
            chunk //= 2
        return res[:240]

    def describe_failure(self, case, obs):
        if case.get("insts"):
            return ("with several breakers (registry names / nested calls): a call was mis-accounted (request or fallback run "
                    "count, the returned error is not what the request returned, window sums of the call's own breaker), a "
                    "breaker's window was touched by a call on another one, or a rejection without the window being over the limit")
        if case.get("w"):
            return ("a wrapper in front of the breaker (%s) did not resolve the promise exactly once as its acceptability "
                    "table says, ran the downstream of a rejected call, or showed the caller something else than "
                    "503 / Unavailable / ErrServiceUnavailable" % case["w"])
        return ("on this history the implementation rejected a call although non-accepted <= 5 + 10% of accepted in the "
                "window, or mis-accounted a call (request/fallback run count, returned error, window sums), or rejected a "
                "call more than 1 s after the previous throttled admission, or admitted a call under total failure with a "
                "draw below (total-5)/(total+1)")


PROPERTY = C01()
