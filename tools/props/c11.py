"""C11 — periodical / bulk / chunk executors: every added task is executed exactly once;
Wait covers earlier Adds; a panicking callback loses only its own batch."""
import json
import os
import re

import vlib
from runner import Property, ExecError
from vlib import cz, clist, cbool

OVERLAY = {
    "core/executors/verif_c11_test.go": os.path.join(vlib.HARNESS, "overlay", "executors", "verif_c11_test.go"),
    # the shared virtual clock plus a hook at the start of Since (= the executor's shallQuit)
    "core/timex/relativetime.go": os.path.join(vlib.HARNESS, "overlay", "executors", "relativetime_c11.go"),
}
RACE_OVERLAY = dict(OVERLAY)
RACE_OVERLAY["core/executors/verif_c11_free_test.go"] = os.path.join(
    vlib.HARNESS, "overlay", "executors", "verif_c11_free_test.go")

# F6 (Wait skipped a batch handed over by a concurrent Add) is fixed in go-zero; its schedules stay in the
# corpus as regression cases and nothing is suppressed any more.



def drain_ops(case):
    nadds = sum(1 for o in case["ops"] if o[0] == "add")
    k = min(12, nadds + 3)
    unit = [["relall"]] + ([["qgo"]] if case.get("gateq") else []) + ([["sgo"]] if case.get("gates") else [])
    return unit * k + [["wait", 0]] + unit * k


# ----------------------------------------------------------------------------------
# analysis of an observed log (mirror of Check.v's an_step; used for known() and features)

def bmin(b):
    return min(b) if b else -1


def analyse(case, obs):
    """Returns dict: failures (list of dict), stats."""
    n = case["nclients"]
    prev = {"idle": [True] * n, "parked": [], "cont": [], "inflight": 0, "guarded": False,
            "cmd": False, "tick": False, "benter": False, "bexit": False, "qpark": False, "spark": False}
    started, returned, pending, completed, waits = [], [], [], [], []
    fails = []
    hist = [prev]
    nwaits = 0
    for i, st in enumerate(obs["steps"]):
        a, o = st["act"], st["obs"]
        idle_prev = prev["idle"]
        if a[0] == "add" and a[1] < n and idle_prev[a[1]]:
            started.append(a[2])
            pending.append((a[1], a[2]))
        if a[0] == "wait" and a[1] < n and idle_prev[a[1]]:
            waits.append((a[1], list(returned), i))
            nwaits += 1
        if a[0] == "rel" and a[1] >= 0:
            for h in prev["parked"]:
                if bmin(h) == a[1]:
                    completed += h
                    break
        returned += [t for (c, t) in pending if o["idle"][c]]
        pending = [(c, t) for (c, t) in pending if not o["idle"][c]]
        for (c, pre, i0) in [w for w in waits if o["idle"][w[0]]]:
            missing = [t for t in pre if t not in completed]
            if missing:
                fails.append({"kind": "wait", "client": c, "start": i0, "ret": i, "missing": missing})
        waits = [w for w in waits if not o["idle"][w[0]]]
        visible = completed + [t for h in o["parked"] for t in h] + o["cont"]
        if len(set(visible)) != len(visible):
            fails.append({"kind": "duplicate", "step": i})
        elif not set(visible) <= set(started):
            fails.append({"kind": "unknown-task", "step": i})
        elif not pending and sorted(visible) != sorted(started):
            fails.append({"kind": "lost", "step": i, "missing": sorted(set(started) - set(visible))})
        elif o["cont"] and not (o["guarded"] or o["bexit"] or o["spark"]):
            fails.append({"kind": "orphaned-in-container", "step": i, "tasks": o["cont"]})
        prev = o
        hist.append(o)
    if case.get("drain", True):
        if not all(prev["idle"]) or prev["parked"]:
            fails.append({"kind": "stuck"})
        elif sorted(completed) != sorted(started):
            fails.append({"kind": "not-executed", "missing": sorted(set(started) - set(completed))})
    return {"fails": fails, "hist": hist, "started": started, "completed": completed, "nwaits": nwaits}


class C11(Property):
    id = "C11"
    title = "Periodic/bulk/chunk executors run every added task exactly once"
    quick_cases = 1000
    thorough_cases = 4000
    design_ref = "DESIGN.md §6/C11, §5/F6"
    level_text = ("Unbounded Rocq theorems over an interleaving model (LTS) of PeriodicalExecutor with the bulk/chunk "
                  "containers: for every number of clients, threshold, interval and every schedule of atomic actions "
                  "(Add/Flush/Wait calls, flusher actions, ticks, clock advances, flusher idle-quit and restart, panicking "
                  "callbacks) accepted tasks = executed + lost-by-own-panic + still pending (conservation, no duplication); "
                  "a returned Wait covers every task accepted before it (no hypothesis; refuted for the pre-fix protocol, F6, "
                  "in Pinned.v); runs with and without panics have the same core state and differ only in executed/lost. The "
                  "model is tied to core/executors by forced schedules: the observed log must be a trace of the LTS.")
    level_note = ("Trusted: Coq kernel + vm_compute; hand-written LTS (each mutex section / channel operation / callback is one "
                  "atomic action); correspondence on generated forced schedules only; "
                  "quiescence detection via runtime.Stack; core/timex/relativetime.go is replaced by a virtual clock.")
    rule = ("forced schedules: kind bulk/chunk/periodical, threshold 1..4 (bulk) or 1..8 with weights 0..4, 2..4 clients, "
            "6..28 controller actions (add/flush/wait/release/tick/clock, idle-quit patterns, in 35% of the cases the flusher is parked before "
            "shallQuit, in 40% the quitting flusher is parked inside ticker.Stop() with Adds/Flush/Wait in that window, "
            "and released explicitly), optional panicking tasks, then a "
            "drain; non-trivial = at least two callbacks, at least one threshold hand-over and one of {Wait, tick flush, "
            "flusher quit+restart}; distinct = canonical JSON hash of the case")
    trusted_base = [
        "model theories/C11/Model.v is hand-written; tie = forced-schedule correspondence (harness/overlay/executors/verif_c11_test.go): "
        "the observed log must be a trace of the LTS under all interleavings of uncontrolled actions",
        "atomicity assumption: each mutex section / channel operation / atomic update is one action (thorough tier: free-running -race monitor)",
        "quiescence detection via runtime.Stack; virtual clock overlay replaces core/timex/relativetime.go; fake ticker injected through newTicker",
        "Go runtime (channels, mutexes, WaitGroup), proc shutdown listener and logging are not modelled",
    ]
    assumptions = ["task identities are distinct (the harness adds each id once)",
                   "callbacks terminate or panic; they do not call back into the executor"]

    # ---- cases -------------------------------------------------------------------
    def corpus(self):
        cs = []
        # F6 (fixed; regression): Add a,b -> flusher parked in callback; Add t1 returns; Add t2 blocks holding [t1,t2]; Wait; release
        for kind in ("bulk", "chunk", "periodical"):
            cs.append({"kind": kind, "maxw": 2, "interval": 1000, "bad": [], "nclients": 3,
                       "ops": [["add", 0, 1, 1], ["add", 0, 2, 1], ["add", 0, 3, 1], ["add", 1, 4, 1],
                               ["wait", 2], ["rel", 0]]})
        # F6 variant: the batch is in the flusher's hand, blocked on the barrier held by an earlier Wait
        cs.append({"kind": "bulk", "maxw": 1, "interval": 1000, "bad": [], "nclients": 4,
                   "ops": [["add", 0, 1, 1], ["wait", 1], ["add", 0, 2, 1], ["wait", 2], ["rel", 0], ["rel", 0]]})
        # F6 variant (Pinned.wait_start_hypothesis_insufficient): nothing handed over when the Wait starts
        cs.append({"kind": "bulk", "maxw": 2, "interval": 1000, "bad": [], "nclients": 4,
                   "ops": [["add", 0, 1, 1], ["flush", 3], ["wait", 1], ["add", 0, 2, 1], ["wait", 2],
                           ["add", 0, 3, 1], ["rel", 0]]})
        # F6 variant with three producers
        cs.append({"kind": "bulk", "maxw": 2, "interval": 1000, "bad": [], "nclients": 4,
                   "ops": [["add", 0, 1, 1], ["add", 0, 2, 1], ["add", 0, 3, 1], ["add", 1, 4, 1], ["add", 0, 5, 1],
                           ["add", 2, 6, 1], ["wait", 3], ["rel", 0], ["rel", 0]]})
        # idle quit and restart, tick flush, panic
        cs.append({"kind": "bulk", "maxw": 3, "interval": 1000, "bad": [], "nclients": 2,
                   "ops": [["add", 0, 1, 1], ["tick"], ["rel", 0], ["clock", 10001], ["tick"], ["add", 0, 2, 1],
                           ["clock", 20000], ["tick"], ["rel", 0], ["tick"], ["add", 1, 3, 1], ["add", 1, 4, 1]]})
        cs.append({"kind": "chunk", "maxw": 5, "interval": 1000, "bad": [2], "nclients": 2,
                   "ops": [["add", 0, 1, 2], ["add", 0, 2, 3], ["rel", 0], ["add", 1, 3, 4], ["flush", 0], ["rel", 0],
                           ["add", 1, 4, 1], ["tick"], ["rel", 0], ["tick"]]})
        cs.append({"kind": "periodical", "maxw": 4, "interval": 1000, "bad": [], "nclients": 3,
                   "ops": [["add", 0, 1, 0], ["add", 1, 2, 4], ["tick"], ["add", 2, 3, 1], ["rel", 0], ["tick"],
                           ["tick"], ["rel", 0], ["clock", 10001], ["tick"], ["tick"], ["add", 0, 4, 5]]})
        # an Add between the flusher's last (empty) tick Flush and its quit decision: the deferred Flush takes it
        cs.append({"kind": "bulk", "maxw": 3, "interval": 1000, "bad": [], "nclients": 2, "gateq": True,
                   "ops": [["add", 0, 1, 1], ["tick"], ["rel", 0], ["clock", 10001], ["tick"], ["add", 1, 2, 1],
                           ["qgo"], ["rel", 0], ["add", 0, 3, 1]]})
        # a threshold hand-over in the same window: the flusher must not quit (inflight > 0)
        cs.append({"kind": "bulk", "maxw": 2, "interval": 1000, "bad": [], "nclients": 2, "gateq": True,
                   "ops": [["add", 0, 1, 1], ["tick"], ["rel", 0], ["clock", 10001], ["tick"], ["add", 1, 2, 1],
                           ["add", 1, 3, 1], ["qgo"], ["rel", 0]]})
        # the quitting flusher is parked inside ticker.Stop() (after it cleared guarded, before its deferred
        # Flush): Adds up to / at the threshold, Flush and Wait in that window, then release and drain
        quit_ = [["add", 0, 1, 1], ["tick"], ["rel", 0], ["clock", 10001], ["tick"]]
        for maxw, mid in [
            (2, [["add", 1, 2, 1], ["add", 1, 3, 1]]),                      # threshold reached in the window
            (1, [["add", 1, 2, 1]]),                                         # threshold 1
            (3, [["add", 1, 2, 1]]),                                         # below the threshold
            (2, [["add", 1, 2, 1], ["flush", 0], ["add", 1, 3, 1], ["add", 0, 4, 1]]),
            (2, [["add", 1, 2, 1], ["wait", 0], ["add", 1, 3, 1], ["add", 1, 4, 1], ["wait", 0]]),
            (2, [["add", 1, 2, 1], ["add", 1, 3, 1], ["rel", 0], ["clock", 20000], ["tick"], ["tick"],
                 ["add", 0, 4, 1], ["sgo"]]),                                # two flushers parked in Stop
        ]:
            cs.append({"kind": "bulk", "maxw": maxw, "interval": 1000, "bad": [], "nclients": 2, "gates": True,
                       "ops": quit_ + mid + [["sgo"], ["relall"]]})
        cs.append({"kind": "chunk", "maxw": 4, "interval": 1000, "bad": [], "nclients": 3, "gates": True, "gateq": True,
                   "ops": [["add", 0, 1, 1], ["tick"], ["rel", 0], ["clock", 10001], ["tick"], ["add", 2, 2, 1], ["qgo"],
                           ["add", 1, 3, 4], ["wait", 0], ["sgo"], ["relall"]]})
        for c in cs:
            c["drain"] = True
            c.setdefault("gateq", False)
            c.setdefault("gates", False)
        return cs

    def gen(self, rng, n, tier):
        cases = []
        for _ in range(n):
            kind = rng.choice(["bulk", "bulk", "chunk", "periodical"])
            if kind == "bulk":
                maxw = rng.choice([1, 2, 2, 3, 4])
            else:
                maxw = rng.choice([1, 2, 3, 4, 5, 8])
            ncl = rng.choice([2, 3, 3, 4])
            nops = rng.randint(6, 28)
            nid = 1
            ops = []
            hold = rng.random() < 0.2   # keep callbacks parked for long: hand-overs pile up
            gateq = rng.random() < 0.35  # park the flusher before shallQuit until "qgo"
            gates = rng.random() < 0.4   # park the quitting flusher inside ticker.Stop() until "sgo"
            while len(ops) < nops:
                r = rng.random()
                c = rng.randrange(ncl)
                if hold and 0.62 <= r < 0.78 and rng.random() < 0.75:
                    r = 0.1
                if r < 0.45:
                    w = 1 if kind == "bulk" else rng.choice([0, 1, 1, 2, 3, 4])
                    ops.append(["add", c, nid, w])
                    nid += 1
                elif r < 0.52:
                    ops.append(["flush", c])
                elif r < 0.62:
                    ops.append(["wait", c])
                elif r < 0.78:
                    ops.append(["rel", rng.randrange(3)])
                elif r < 0.90:
                    ops.append(["tick"])
                elif r < 0.93:
                    ops.append(["clock", rng.choice([0, 1000, 9999, 10000, 10001, 30000])])
                elif r < 0.96:
                    ops.append(["relall"])
                else:
                    # idle-quit pattern
                    ops += [["relall"], ["clock", rng.choice([10001, 20000])], ["tick"], ["tick"]]
                    if gateq:
                        # something happens between the flusher's tick Flush and its quit decision
                        for _ in range(rng.randint(0, 2)):
                            w = 1 if kind == "bulk" else rng.choice([0, 1, 2, 4])
                            ops.append(["add", rng.randrange(ncl), nid, w])
                            nid += 1
                        ops.append(["qgo"])
                    if gates:
                        # the flusher has decided to quit and sits in ticker.Stop(): Adds below and at the
                        # threshold, Flush and Wait happen in that window, then it is released
                        acc = 0
                        for _ in range(rng.randint(0, 4)):
                            r2 = rng.random()
                            c2 = rng.randrange(ncl)
                            if r2 < 0.65:
                                w = 1 if kind == "bulk" else rng.choice([0, 1, 2, 4])
                                if rng.random() < 0.4:      # make this Add reach the threshold
                                    w = 1 if kind == "bulk" else max(1, maxw - acc)
                                acc += w
                                ops.append(["add", c2, nid, w])
                                nid += 1
                            elif r2 < 0.8:
                                ops.append(["flush", c2])
                            elif r2 < 0.92:
                                ops.append(["wait", c2])
                            else:
                                ops.append(["tick"])
                        ops.append(["sgo"])
                if gateq and rng.random() < 0.08:
                    ops.append(["qgo"])
                if gates and rng.random() < 0.08:
                    ops.append(["sgo"])
            bad = []
            if rng.random() < 0.2 and nid > 1:
                bad = sorted(set(rng.randrange(1, nid) for _ in range(rng.randint(1, 2))))
            cases.append({"kind": kind, "maxw": maxw, "interval": 1000, "bad": bad, "nclients": ncl,
                          "ops": ops, "drain": True, "gateq": gateq, "gates": gates})
        return cases

    # ---- execution ---------------------------------------------------------------
    def execute(self, cases, ctx):
        send = []
        for c in cases:
            d = dict(c)
            d["ops"] = list(c["ops"]) + (drain_ops(c) if c.get("drain", True) else [])
            d.setdefault("id", 0)
            send.append(d)
        rc, out, res = vlib.go_test_overlay("./core/executors", OVERLAY, run="TestVerifC11$", cases=send,
                                            tag="c11", timeout=900)
        if rc != 0 or len(res) != len(cases):
            raise ExecError("c11 executor rc=%s (%d/%d results): %s" % (rc, len(res), len(cases), out[-3000:]))
        return [{"steps": r.get("steps") or [], "err": r.get("err", "")} for r in res]

    # ---- Coq rendering -----------------------------------------------------------
    def _act(self, a):
        k = a[0]
        if k == "add":
            return "AAdd %d %s %s" % (a[1], cz(a[2]), cz(a[3]))
        if k == "flush":
            return "AFlush %d" % a[1]
        if k == "wait":
            return "AWait %d" % a[1]
        if k == "rel":
            return "ARel %s" % cz(a[1])
        if k == "tick":
            return "ATick"
        if k == "qgo":
            return "AQuitGo"
        if k == "sgo":
            return "AStopGo"
        return "AClock %s" % cz(a[1])

    def _obs(self, o):
        return "mkObs %s %s %s %s %s %s %s %s %s %s %s" % (
            clist([cbool(b) for b in o["idle"]]),
            clist([clist([cz(t) for t in h]) for h in o["parked"]]),
            clist([cz(t) for t in o["cont"]]), cz(o["inflight"]), cbool(o["guarded"]), cbool(o["cmd"]),
            cbool(o["tick"]), cbool(o["benter"]), cbool(o["bexit"]), cbool(o["qpark"]), cbool(o["spark"]))

    def coq_case(self, case, obs):
        steps = clist(["(%s, %s)" % (self._act(s["act"]), self._obs(s["obs"])) for s in obs["steps"]])
        # an executor error (no quiescence) is a failing history: the drain flag makes final_ok fail
        return "mkCase %s %s %s %s %s %s %d%%nat %s" % (
            cz(case["maxw"]), cz(case["interval"]), clist([cz(b) for b in case["bad"]]),
            cbool(bool(case.get("drain", True)) or bool(obs.get("err"))), cbool(bool(case.get("gateq"))),
            cbool(bool(case.get("gates"))), case["nclients"], steps)

    # ---- classification ----------------------------------------------------------
    def nontrivial(self, case, obs):
        steps = obs["steps"]
        ncb = sum(1 for s in steps if s["act"][0] == "rel" and s["act"][1] >= 0)
        hand = any(s["obs"]["inflight"] > 0 or s["obs"]["cmd"] for s in steps) or \
            any(s["act"][0] == "add" and len(s["obs"]["parked"]) > 0 for s in steps)
        other = any(s["act"][0] in ("wait", "tick") for s in steps[:len(case["ops"])])
        return ncb >= 2 and hand and other

    def features(self, case, obs):
        fs = ["kind=" + case["kind"], "maxw=%d" % case["maxw"], "clients=%d" % case["nclients"]]
        fs += ["has_" + k for k in sorted(set(o[0] for o in case["ops"]))]
        if case["bad"]:
            fs.append("panicking_tasks")
        steps = obs["steps"]
        g = [s["obs"]["guarded"] for s in steps]
        if any(g[i] and not g[i + 1] for i in range(len(g) - 1)):
            fs.append("flusher_quit")
            j = [i for i in range(len(g) - 1) if g[i] and not g[i + 1]][0]
            if any(g[j + 1:]):
                fs.append("flusher_restart")
        if any(s["obs"]["inflight"] > 0 for s in steps):
            fs.append("handover_pending")
        if any(s["obs"].get("spark") for s in steps):
            fs.append("flusher_parked_in_stop")
            if any(s["obs"].get("spark") and s["act"][0] == "add" and (s["obs"]["inflight"] > 0 or s["obs"]["parked"])
                   for s in steps):
                fs.append("threshold_add_while_in_stop")
        if any(s["obs"]["benter"] for s in steps):
            fs.append("flusher_blocked_on_barrier")
        an = analyse(case, obs)
        if any(f["kind"] == "wait" for f in an["fails"]):
            fs.append("wait_returned_early")
        fs.append("steps<=%d" % (10 * (1 + len(steps) // 10)))
        return fs

    # ---- thorough tier: free-running -race monitor (atomicity assumption, DESIGN §3.3) ----
    def extra(self, ctx):
        if ctx.tier != "thorough":
            return []
        rc, out, res = vlib.go_test_overlay("./core/executors", RACE_OVERLAY, run="TestVerifC11Free$", cases=[],
                                            tag="c11free", timeout=900, race=True,
                                            env={"VERIF_SEED": str(ctx.seed)})
        fails = []
        if "DATA RACE" in out:
            fails.append({"what": "data race in core/executors under the free-running monitor",
                          "replay": {"output": out[-3000:]}})
        rounds = res[0] if res and isinstance(res[0], list) else []
        if rc != 0 and not fails:
            raise ExecError("c11 free-running monitor rc=%s: %s" % (rc, out[-2000:]))
        if not rounds and not fails:
            raise ExecError("c11 free-running monitor produced no result: %s" % out[-1000:])
        for r in rounds:
            if r.get("dup") or r.get("missing") or r.get("unknown"):
                fails.append({"what": "free run: tasks executed twice %s / never %s / unknown %s"
                                      % (r.get("dup"), r.get("missing"), r.get("unknown")), "replay": r})
        ctx.notes.append("free-running -race monitor: %d rounds x 450 tasks, %d failing" % (len(rounds), len(fails)))
        return fails[:3]

    def describe_failure(self, case, obs):
        if obs.get("err"):
            return "executor got stuck: " + obs["err"]
        an = analyse(case, obs)
        return "on the observed log: %s" % json.dumps(an["fails"][:3])


PROPERTY = C11()
