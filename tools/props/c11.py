"""C11 — periodical / bulk / chunk executors: every added task is executed exactly once;
Wait covers earlier Adds; a panicking callback loses only its own batch.

A case runs several executor instances at once (kinds bulk / chunk / periodical (custom container) /
bag (custom container whose batches are not slices) / sqlx (core/stores/sqlx.BulkInserter over a stub
connection)) under one forced schedule; the log is split per instance for Coq."""
import json
import os
import re
import threading

import vlib
from runner import Property, ExecError
from vlib import cz, clist, cbool

OV = os.path.join(vlib.HARNESS, "overlay")
OVERLAY = {
    "core/executors/verif_c11_test.go": os.path.join(OV, "executors", "verif_c11_test.go"),
    # the forced-schedule controller: a file ADDED to package executors (shared with the sqlx executor)
    "core/executors/verif_c11_ctl.go": os.path.join(OV, "executors", "verif_c11_ctl.go"),
    "core/executors/verif_c11_free_test.go": os.path.join(OV, "executors", "verif_c11_free_test.go"),
    # custom TaskContainers whose batches are of every reflect kind hasTasks distinguishes (kind "agg")
    "core/executors/verif_c11_agg.go": os.path.join(OV, "executors", "verif_c11_agg.go"),
    # the shared virtual clock plus a hook at the start of Since (= the executor's shallQuit)
    "core/timex/relativetime.go": os.path.join(OV, "executors", "relativetime_c11.go"),
}
SQLX_OVERLAY = {
    "core/executors/verif_c11_ctl.go": OVERLAY["core/executors/verif_c11_ctl.go"],
    "core/executors/verif_c11_agg.go": OVERLAY["core/executors/verif_c11_agg.go"],
    "core/timex/relativetime.go": OVERLAY["core/timex/relativetime.go"],
    "core/stores/sqlx/verif_c11_sqlx_test.go": os.path.join(OV, "sqlx", "verif_c11_sqlx_test.go"),
}

# F6 (Wait skipped a batch handed over by a concurrent Add) is fixed in go-zero; its schedules stay in the
# corpus as regression cases and nothing is suppressed any more.

# constants of the source the model / the generator rely on: (package directory, name).  They are looked up in every
# non-test file of the package, as `const NAME = n`, inside a const ( ... ) block, with or without a type, with a
# trailing comment (harmless rewrites: moving a constant to another file of the package, grouping, typing it).
CONSTS = {"idleRound": "core/executors", "maxBulkRows": "core/stores/sqlx"}

DUR = {"time.Nanosecond": 1, "time.Microsecond": 10**3, "time.Millisecond": 10**6, "time.Second": 10**9, "time.Minute": 60 * 10**9}


def _pkg_sources(rel):
    d = os.path.join(vlib.REPO, rel)
    out = []
    for fn in sorted(os.listdir(d)):
        if fn.endswith(".go") and not fn.endswith("_test.go"):
            try:
                out.append(open(os.path.join(d, fn)).read())
            except OSError:
                pass
    return out


def _const_rhs(rel, name):
    """right-hand sides of the declarations of constant `name` in package directory rel"""
    pat = re.compile(r"^[ \t]*(?:const[ \t]+)?%s(?:[ \t]+[\w.]+)?[ \t]*=[ \t]*([^\n]*?)[ \t]*(?://[^\n]*)?$" % re.escape(name), re.M)
    return [m.group(1) for src in _pkg_sources(rel) for m in pat.finditer(src)]


def read_consts():
    vals = {}
    rhs = _const_rhs("core/stores/sqlx", "flushInterval")
    val = None
    for r in rhs:
        m = re.fullmatch(r"(?:([0-9_]+)\s*\*\s*)?(time\.[A-Za-z]+)(?:\s*\*\s*([0-9_]+))?", r)
        if m and m.group(2) in DUR:
            val = int((m.group(1) or "1").replace("_", "")) * int((m.group(3) or "1").replace("_", "")) * DUR[m.group(2)]
    if val is None:
        raise RuntimeError("c11: flushInterval of core/stores/sqlx is no longer <n> * time.<Unit> (found %r)" % rhs)
    vals["flushInterval"] = val
    for name, rel in CONSTS.items():
        got = [r for r in _const_rhs(rel, name) if re.fullmatch(r"[0-9_]+", r)]
        if len(got) != 1:
            raise RuntimeError("c11: constant %s of %s is no longer one integer literal (found %r)" % (name, rel, _const_rhs(rel, name)))
        vals[name] = int(got[0].replace("_", ""))
    return vals


# kind "agg": a bare PeriodicalExecutor over a custom container (harness/overlay/executors/verif_c11_agg.go,
# coq/theories/C11/Containers.v): the Go type of a batch x what RemoveAll returns when nothing was added
SHAPES = {"slice": "SSlice", "map": "SMap", "chan": "SChan", "array": "SArray", "struct": "SStruct", "int": "SInt",
          "string": "SString", "bool": "SBool", "ptr": "SPtr", "iface": "SIface"}
EMPTIES = {"nil": "ENil", "zero": "EZero", "mark": "EMark"}
# shapes whose batch [0] is the zero value of an unknown kind (what hasTasks must still execute)
ZERO_SHAPES = ("struct", "iface", "int", "string", "bool", "ptr")
ONE_TASK_SHAPES = ("int", "bool")
RKINDS = {"nil": "KNil", "array": "KArray", "chan": "KChan", "map": "KMap", "slice": "KSlice", "struct": "KStruct",
          "int": "KInt", "string": "KString", "bool": "KBool", "ptr": "KPtr", "other": "KOther"}


def container_of(inst):
    """(ckind, cempty) of an instance: Containers.shape_of"""
    k = inst["kind"]
    if k == "agg":
        return SHAPES[inst["shape"]], EMPTIES[inst["empty"]]
    if k == "bag":
        return "SBag", "ENil"
    return "SSlice", "EZero"       # bulk, chunk, periodical, sqlx: a slice, nil when nothing was added


def agg(shape, empty, maxw, ncl, ops, **kw):
    c = single("agg", maxw, ncl, ops, **kw)
    c["insts"][0]["shape"] = shape
    c["insts"][0]["empty"] = empty
    return c


def accepts_zero_task(inst):
    return inst["kind"] == "agg" and not (inst["empty"] == "zero" and inst["shape"] in ZERO_SHAPES)


def single(kind, maxw, ncl, ops, **kw):
    """one instance; ops in the short single-instance form (no instance index, no variants)"""
    new = []
    for o in ops:
        k = o[0]
        if k in ("add", "addn", "adds", "sendgo"):
            new.append([k, 0] + list(o[1:]))
        elif k in ("flush", "wait"):
            new.append([k, 0, o[1], o[2] if len(o) > 2 else 0])
        elif k in ("sync", "rel", "tick"):
            new.append([k, 0] + list(o[1:]))
        else:
            new.append(list(o))
    c = {"insts": [{"kind": kind, "maxw": maxw, "interval": 1000, "nclients": ncl}], "bad": [], "gateq": False,
         "gates": False, "scribble": False, "ops": new, "drain": True}
    c.update(kw)
    return c


def drain_ops(case):
    nadds = sum(1 for o in case["ops"] if o[0] in ("add", "addn", "adds"))
    k = min(12, nadds + 3)
    unit = [["relall"]] + ([["qgo"]] if case.get("gateq") else []) + ([["sgo"]] if case.get("gates") else [])
    # producers parked before the send on commander are let go whenever the channel is empty
    unit += [["sendgo", i, c] for (i, c) in sorted(set((o[1], o[2]) for o in case["ops"] if o[0] == "adds"))]
    waits = [["wait", i, 0, 1] for i in range(len(case["insts"]))]
    return unit * k + waits + unit * k


# ----------------------------------------------------------------------------------
# per-instance logs and their analysis (mirror of Check.v's an_step; used for the re-run decision,
# describe_failure and features)

def bmin(b):
    return min(b) if b else -1


def inst_logs(case, obs):
    """[(inst, [(act, obs)])]: the log as each instance saw it; acts in per-instance form"""
    res = []
    for i, inst in enumerate(case["insts"]):
        steps = []
        for st in obs["steps"]:
            a = st["act"]
            k = a[0]
            if k == "clock":
                act = ("clock", a[1])
            elif k == "shutdown":
                act = ("shutdown",)
            elif a[1] != i:
                act = ("nop",)
            elif k == "reject":
                act = ("nop",)      # a refused call: no effect on the executor
            elif k in ("flush", "wait"):
                act = (k, a[2])
            else:
                act = tuple([k] + list(a[2:]))
            steps.append((act, st["obs"][i]))
        res.append((inst, steps))
    return res


def analyse_inst(inst, steps, drained):
    n = inst["nclients"]
    prev = {"idle": [True] * n, "parked": [], "cont": []}
    started, returned, pending, completed, waits = [], [], [], [], []
    flushes = []
    tick1 = None
    fails = []
    nwaits = 0
    for i, (a, o) in enumerate(steps):
        idle_prev = prev["idle"]
        k = a[0]
        if k in ("add", "adds") and a[1] < n and idle_prev[a[1]]:
            started.append(a[2])
            pending.append((a[1], a[2]))
        if k == "addn" and a[1] < n and idle_prev[a[1]]:
            for t in range(a[2], a[2] + a[3]):
                started.append(t)
                pending.append((a[1], t))
        if k == "wait" and a[1] < n and idle_prev[a[1]]:
            waits.append((a[1], list(returned), i))
            nwaits += 1
        calm = all(idle_prev) and not prev["parked"] and prev.get("guarded") and not prev.get("qpark") and \
            not prev.get("spark") and not prev.get("benter")
        if k == "tick" and tick1:
            left = [t for t in tick1 if t in set(o["cont"])]
            if left:
                fails.append({"kind": "periodic-flush", "step": i, "still_in_container_after_two_ticks": left[:20]})
        tick1 = list(prev["cont"]) if (k == "tick" and calm and prev["cont"]) else None
        if k == "flush" and a[1] < n and idle_prev[a[1]]:
            flushes.append((a[1], list(returned), i))
        if k == "rel":
            rel = []
            if a[1] >= 0:
                for h in prev["parked"]:
                    if bmin(h) == a[1]:
                        rel = h
                        break
            if list(a[2]) != list(rel):
                fails.append({"kind": "batch-changed-during-callback", "step": i, "at_start": rel, "at_return": a[2]})
            completed += rel
        if k == "sync" and a[2] and a[1] < n and idle_prev[a[1]] and list(a[3]) != list(prev["cont"]):
            fails.append({"kind": "sync-saw-another-container", "step": i, "saw": a[3], "container": prev["cont"]})
        returned += [t for (c, t) in pending if o["idle"][c]]
        pending = [(c, t) for (c, t) in pending if not o["idle"][c]]
        for (c, pre, i0) in [w for w in waits if o["idle"][w[0]]]:
            cs = set(completed)
            missing = [t for t in pre if t not in cs]
            if missing:
                fails.append({"kind": "wait", "client": c, "start": i0, "ret": i, "missing": missing[:20]})
        waits = [w for w in waits if not o["idle"][w[0]]]
        for (c, pre, i0) in [f for f in flushes if o["idle"][f[0]]]:
            left = [t for t in pre if t in set(o["cont"])]
            if left:
                fails.append({"kind": "flush", "client": c, "start": i0, "ret": i, "still_in_container": left[:20]})
        flushes = [f for f in flushes if not o["idle"][f[0]]]
        visible = completed + [t for h in o["parked"] for t in h] + o["cont"]
        if len(set(visible)) != len(visible):
            fails.append({"kind": "duplicate", "step": i})
        elif not set(visible) <= set(started):
            fails.append({"kind": "unknown-task", "step": i, "tasks": sorted(set(visible) - set(started))[:20]})
        elif not pending and sorted(visible) != sorted(started):
            fails.append({"kind": "lost", "step": i, "missing": sorted(set(started) - set(visible))[:20]})
        elif o["cont"] and not (o["guarded"] or o["bexit"] or o["spark"]):
            fails.append({"kind": "orphaned-in-container", "step": i, "tasks": o["cont"][:20]})
        prev = o
    if drained:
        if not all(prev["idle"]) or prev["parked"]:
            fails.append({"kind": "stuck"})
        elif sorted(completed) != sorted(started):
            fails.append({"kind": "not-executed", "missing": sorted(set(started) - set(completed))[:20]})
    return {"fails": fails, "started": started, "completed": completed, "nwaits": nwaits}


def case_err(obs):
    if obs.get("err"):
        return obs["err"]
    if obs.get("shut_started") and not obs.get("shut_done"):
        return "proc.Shutdown() had not returned at the end of the drain"
    return ""


def analyse(case, obs):
    fails = []
    for idx, (inst, steps) in enumerate(inst_logs(case, obs)):
        r = analyse_inst(inst, steps, case.get("drain", True) or bool(case_err(obs)))
        for f in r["fails"]:
            f["instance"] = idx
            fails.append(f)
    if case_err(obs):
        fails.append({"kind": "executor", "err": case_err(obs)})
    return fails


def zl(l):
    """Gallina list of Z; long lists as runs of consecutive numbers (parsing long literals dominates otherwise)"""
    l = list(l)
    if len(l) < 12:
        return clist([cz(t) for t in l])
    rs = []
    for t in l:
        if rs and rs[-1][0] + rs[-1][1] == t:
            rs[-1][1] += 1
        else:
            rs.append([t, 1])
    if 2 * len(rs) > len(l):
        return clist([cz(t) for t in l])
    return "(zruns %s)" % clist(["(%s, %d%%nat)" % (cz(a), n) for a, n in rs])


def has_sqlx(case):
    return any(i["kind"] == "sqlx" for i in case["insts"])


class C11(Property):
    id = "C11"
    title = "Periodic/bulk/chunk executors run every added task exactly once"
    quick_cases = 400
    thorough_cases = 4000
    design_ref = "DESIGN.md §6/C11, §5/F6"
    level_text = ("Unbounded Rocq theorems over an interleaving model (LTS) of PeriodicalExecutor with the bulk/chunk "
                  "containers: for every number of clients, threshold, interval and every schedule of atomic actions "
                  "(Add/Flush/Wait/Sync calls, flusher actions, ticks, clock advances, flusher idle-quit and restart, panicking "
                  "callbacks) accepted tasks = executed + lost-by-own-panic + still pending (conservation, no duplication); "
                  "a returned Wait covers every task accepted before it (no hypothesis; refuted for the pre-fix protocol, F6, "
                  "in Pinned.v); a returned Flush leaves no earlier task in the container; runs with and without panics have the "
                  "same core state and differ only in executed/lost; a batch handed out by RemoveAll is never written again "
                  "(buffer model; the buffer-swapping variant and the two 'guarded cleared later' variants are refuted in Pinned.v). "
                  "The container enters as runs cfg h = hasTasks(the value RemoveAll renders h as) with reflect kinds as an inductive: "
                  "the theorems hold for exactly the containers that keep hasTasks' contract (faithful_iff_honest, "
                  "contract_is_necessary), whatever the kind of their batches and although batches may be zero values - because "
                  "unknown kinds are always executed (the !IsZero variant of seeded change C11-9 is refuted in Pinned.v). "
                  "The model is tied to core/executors and core/stores/sqlx.BulkInserter by forced schedules on several "
                  "instances at once: the observed log of every instance must be a trace of the LTS.")
    level_note = ("Trusted: Coq kernel + vm_compute; hand-written LTS (each mutex section / channel operation / callback is one "
                  "atomic action); correspondence on generated forced schedules only; "
                  "quiescence detection via runtime.Stack; core/timex/relativetime.go is replaced by a virtual clock.")
    rule = ("forced schedules on 1..3 executor instances at once (kinds bulk/chunk/periodical/bag/agg, threshold 1..4 (bulk) or 1..8 with "
            "weights 0..4, 2..4 clients each; agg = a bare PeriodicalExecutor over a custom container whose batches are "
            "slice/map/chan/array/struct/int/string/bool/pointer values or a struct behind a named interface, 'nothing added' rendered "
            "as nil / the zero value / a non-zero idle value, with task 0 = the batch that is the ZERO VALUE of its type although a task "
            "was added; 60 fixed corpus cases put that batch on every path: Wait, Flush, threshold hand-over, periodic flush; "
            "a few cases per run on sqlx.BulkInserter with threshold maxBulkRows), "
            "6..28 controller actions (12% of the single-instance cases: 40..70 on one long-lived instance): "
            "add/flush/wait through the wrapper or the inner executor/sync/release/tick/clock/proc.Shutdown, idle-quit patterns, "
            "in 35% of the cases the flusher is parked before shallQuit, in 40% the quitting flusher is parked inside "
            "ticker.Stop() with Adds/Flush/Wait in that window, and released explicitly), optional panicking tasks, "
            "in 30% callbacks overwrite their batch before returning, then a drain; every batch is read at the start and "
            "at the return of its callback; non-trivial = at least two callbacks, at least one threshold hand-over and one "
            "of {Wait, tick flush, flusher quit+restart}; distinct = canonical JSON hash of the case")
    trusted_base = [
        "model theories/C11/Model.v is hand-written; tie = forced-schedule correspondence (harness/overlay/executors/verif_c11_ctl.go, "
        "verif_c11_test.go, harness/overlay/sqlx/verif_c11_sqlx_test.go): the observed log of every instance must be a trace of the "
        "LTS under all interleavings of uncontrolled actions",
        "atomicity assumption: each mutex section / channel operation / atomic update is one action (free-running monitor with the real "
        "ticker in every run; under -race in the thorough tier)",
        "quiescence detection via runtime.Stack (census and observation taken twice; hang/stuck/leak observations are kept only if a "
        "re-run in a fresh process reproduces them); virtual clock overlay replaces core/timex/relativetime.go; fake ticker injected "
        "through newTicker",
        "Go runtime (channels, mutexes, WaitGroup, append/slices) and logging are not modelled; proc.Shutdown() is modelled as a Flush "
        "call from one more client",
        "sqlx: the BulkInserter's container is wrapped (content of a batch at the start of Execute vs rows of the statement given to "
        "the stub SqlConn.Exec); bi.lock is outside the model (calls that would block on it are not started)",
    ]
    assumptions = ["task identities are distinct (the harness adds each id once)",
                   "callbacks terminate or panic; they do not call back into the executor"]

    def __init__(self):
        self.consts = {"idleRound": 10, "maxBulkRows": 1000, "flushInterval": 10**9}

    # ---- constants of the source the model / the generator rely on -----------------
    def regen(self, ctx):
        vals = read_consts()
        self.consts = vals
        text = ("(* GENERATED by tools/props/c11.py from core/executors/periodicalexecutor.go and "
                "core/stores/sqlx/bulkinserter.go - do not edit *)\nFrom Coq Require Import ZArith.\nOpen Scope Z_scope.\n\n"
                "Definition idle_round : Z := %d.\nDefinition max_bulk_rows : Z := %d.\n"
                "(* flush interval of the BulkInserter's executor, in ns *)\nDefinition sqlx_flush_interval : Z := %d.\n"
                % (vals["idleRound"], vals["maxBulkRows"], vals["flushInterval"]))
        path = os.path.join(vlib.COQ, "gen", "C11Consts.v")
        old = open(path).read() if os.path.exists(path) else None
        if old != text:
            with open(path, "w") as f:
                f.write(text)
        return ["C11Consts: idleRound=%d maxBulkRows=%d flushInterval=%dns" % (vals["idleRound"], vals["maxBulkRows"], vals["flushInterval"])]

    # ---- cases -------------------------------------------------------------------
    def agg_corpus(self):
        """custom containers (kind agg), deterministic: every batch type x every path (Wait, Flush, threshold
        hand-over, periodic flush) with the batch that holds only task 0 - the ZERO VALUE of the struct / string /
        pointer / number / flag types (seeded change C11-9: hasTasks' default branch answers !IsZero)"""
        cs = []
        for sh in ("struct", "iface", "string", "ptr"):
            for em in ("mark", "nil"):
                cs.append(agg(sh, em, 100, 2, [["add", 0, 0, 0], ["wait", 1], ["rel", 0]]))
                cs.append(agg(sh, em, 100, 2, [["add", 0, 0, 0], ["flush", 1], ["rel", 0], ["add", 0, 1, 0], ["flush", 1], ["rel", 0]]))
                cs.append(agg(sh, em, 1, 2, [["add", 0, 0, 1], ["rel", 0], ["add", 1, 1, 1], ["rel", 0]]))
                cs.append(agg(sh, em, 100, 2, [["add", 0, 0, 0], ["tick"], ["rel", 0], ["tick"], ["add", 0, 1, 0], ["tick"], ["rel", 0]]))
            # "nothing added" is the zero value itself: idle ticks execute the idle aggregate (Flush answers true)
            cs.append(agg(sh, "zero", 3, 2, [["add", 0, 1, 1], ["tick"], ["rel", 0], ["tick"], ["tick"], ["add", 1, 2, 1], ["add", 0, 3, 2],
                                             ["rel", 0], ["flush", 1], ["wait", 0]]))
            # task 0 together with others: not a zero value
            cs.append(agg(sh, "mark", 3, 3, [["add", 0, 2, 1], ["add", 1, 0, 1], ["flush", 2], ["add", 0, 3, 1], ["rel", 0], ["add", 1, 4, 1],
                                             ["add", 1, 5, 1], ["wait", 2], ["rel", 0], ["rel", 0]]))
        for sh in ONE_TASK_SHAPES:
            for em in (("nil", "mark") if sh == "int" else ("nil",)):
                for mw in (1, 0):
                    cs.append(agg(sh, em, mw, 2, [["add", 0, 0, 1], ["rel", 0], ["add", 1, 1, 1], ["flush", 0], ["rel", 0], ["tick"], ["wait", 1]]))
            cs.append(agg(sh, "zero", 1, 2, [["add", 0, 1, 1], ["tick"], ["rel", 0], ["tick"], ["wait", 1]]))
        for sh in ("slice", "map", "chan", "array"):
            for em in ("nil", "zero", "mark"):
                cs.append(agg(sh, em, 3, 3, [["add", 0, 0, 0], ["flush", 1], ["rel", 0], ["tick"], ["add", 0, 2, 1], ["add", 1, 3, 1], ["tick"],
                                             ["add", 2, 4, 1], ["rel", 0], ["add", 0, 5, 3], ["wait", 1], ["rel", 0], ["rel", 0]]))
        return cs

    def corpus(self):
        cs = self.agg_corpus()
        # F6 (fixed; regression): Add a,b -> flusher parked in callback; Add t1 returns; Add t2 blocks holding [t1,t2]; Wait; release
        for kind in ("bulk", "chunk", "periodical", "bag"):
            cs.append(single(kind, 2, 3, [["add", 0, 1, 1], ["add", 0, 2, 1], ["add", 0, 3, 1], ["add", 1, 4, 1],
                                          ["wait", 2], ["rel", 0]]))
        # F6 variant: the batch is in the flusher's hand, blocked on the barrier held by an earlier Wait
        cs.append(single("bulk", 1, 4, [["add", 0, 1, 1], ["wait", 1], ["add", 0, 2, 1], ["wait", 2, 1], ["rel", 0], ["rel", 0]]))
        # F6 variant (Pinned.wait_start_hypothesis_insufficient): nothing handed over when the Wait starts
        cs.append(single("bulk", 2, 4, [["add", 0, 1, 1], ["flush", 3], ["wait", 1], ["add", 0, 2, 1], ["wait", 2],
                                        ["add", 0, 3, 1], ["rel", 0]]))
        # F6 variant with three producers
        cs.append(single("bulk", 2, 4, [["add", 0, 1, 1], ["add", 0, 2, 1], ["add", 0, 3, 1], ["add", 1, 4, 1], ["add", 0, 5, 1],
                                        ["add", 2, 6, 1], ["wait", 3], ["rel", 0], ["rel", 0]]))
        # idle quit and restart, tick flush, panic
        cs.append(single("bulk", 3, 2, [["add", 0, 1, 1], ["tick"], ["rel", 0], ["clock", 10001], ["tick"], ["add", 0, 2, 1],
                                        ["clock", 20000], ["tick"], ["rel", 0], ["tick"], ["add", 1, 3, 1], ["add", 1, 4, 1]]))
        cs.append(single("chunk", 5, 2, [["add", 0, 1, 2], ["add", 0, 2, 3], ["rel", 0], ["add", 1, 3, 4], ["flush", 0], ["rel", 0],
                                         ["add", 1, 4, 1], ["tick"], ["rel", 0], ["tick"]], bad=[2]))
        cs.append(single("periodical", 4, 3, [["add", 0, 1, 0], ["add", 1, 2, 4], ["tick"], ["add", 2, 3, 1], ["rel", 0], ["tick"],
                                              ["tick"], ["rel", 0], ["clock", 10001], ["tick"], ["tick"], ["add", 0, 4, 5]]))
        # an Add between the flusher's last (empty) tick Flush and its quit decision: the deferred Flush takes it
        cs.append(single("bulk", 3, 2, [["add", 0, 1, 1], ["tick"], ["rel", 0], ["clock", 10001], ["tick"], ["add", 1, 2, 1],
                                        ["qgo"], ["rel", 0], ["add", 0, 3, 1]], gateq=True))
        # a threshold hand-over in the same window: the flusher must not quit (inflight > 0)
        cs.append(single("bulk", 2, 2, [["add", 0, 1, 1], ["tick"], ["rel", 0], ["clock", 10001], ["tick"], ["add", 1, 2, 1],
                                        ["add", 1, 3, 1], ["qgo"], ["rel", 0]], gateq=True))
        # the quitting flusher is parked inside ticker.Stop() (after it cleared guarded, before its deferred
        # Flush): Adds up to / at the threshold, Flush and Wait in that window, then release and drain
        quit_ = [["add", 0, 1, 1], ["tick"], ["rel", 0], ["clock", 10001], ["tick"]]
        for maxw, mid in [
            (2, [["add", 1, 2, 1], ["add", 1, 3, 1]]),                      # threshold reached in the window
            (1, [["add", 1, 2, 1]]),                                         # threshold 1
            (3, [["add", 1, 2, 1]]),                                         # below the threshold
            (2, [["add", 1, 2, 1], ["flush", 0], ["add", 1, 3, 1], ["add", 0, 4, 1]]),
            (2, [["add", 1, 2, 1], ["wait", 0], ["add", 1, 3, 1], ["add", 1, 4, 1], ["wait", 0]]),
            (2, [["add", 1, 2, 1], ["add", 1, 3, 1], ["rel", 0], ["clock", 20000], ["tick"], ["tick"],
                 ["add", 0, 4, 1], ["sgo"]]),                                # two flushers parked in Stop
        ]:
            cs.append(single("bulk", maxw, 2, quit_ + mid + [["sgo"], ["relall"]], gates=True))
        cs.append(single("chunk", 4, 3, [["add", 0, 1, 1], ["tick"], ["rel", 0], ["clock", 10001], ["tick"], ["add", 2, 2, 1], ["qgo"],
                                         ["add", 1, 3, 4], ["wait", 0], ["sgo"], ["relall"]], gates=True, gateq=True))
        # a slow callback holds its batch across two later removals and further Adds (seeded change C11-3: RemoveAll
        # ping-pongs between two reused buffers): the batch must read the same when the callback returns
        for kind in ("bulk", "chunk", "periodical", "bag"):
            cs.append(single(kind, 3, 3, [["add", 0, 1, 1], ["flush", 1], ["add", 0, 2, 1], ["flush", 2], ["add", 0, 3, 1],
                                          ["flush", 0, 1], ["add", 0, 4, 1], ["rel", 0], ["rel", 0], ["rel", 0]]))
            cs.append(single(kind, 2, 3, [["add", 0, 1, 1], ["add", 0, 2, 1], ["add", 0, 3, 1], ["add", 0, 4, 1], ["add", 1, 5, 1],
                                          ["add", 1, 6, 1], ["add", 2, 7, 1], ["rel", 0], ["rel", 0], ["rel", 0]], scribble=True))
        # Sync, the wrapper's Flush/Wait vs the inner executor's, Wait with nothing pending, the shutdown listener
        cs.append(single("bulk", 3, 3, [["wait", 0], ["wait", 1, 1], ["flush", 0], ["sync", 2], ["add", 0, 1, 1], ["sync", 1],
                                        ["add", 0, 2, 1], ["shutdown"], ["sync", 2], ["add", 1, 3, 1], ["rel", 0], ["wait", 0],
                                        ["wait", 1, 1], ["rel", 0]]))
        cs.append(single("chunk", 6, 3, [["add", 0, 1, 2], ["sync", 1], ["add", 1, 2, 3], ["wait", 2], ["add", 0, 3, 1],
                                         ["shutdown"], ["add", 1, 4, 5], ["rel", 0], ["rel", 0]]))
        # the listener's Flush while the flusher has decided to quit and sits in ticker.Stop()
        cs.append(single("bag", 3, 2, quit_ + [["add", 1, 2, 1], ["shutdown"], ["add", 0, 3, 1], ["sgo"], ["relall"]], gates=True))
        # thresholds 0 and negative (every Add reaches the threshold, also a weight-0 chunk task), threshold 1
        for kind in ("bulk", "chunk", "bag"):
            for maxw in (0, -1):
                cs.append(single(kind, maxw, 2, [["add", 0, 1, 1], ["add", 1, 2, 0], ["rel", 0], ["flush", 0], ["add", 0, 3, 2],
                                                 ["rel", 0], ["rel", 0], ["wait", 1]]))
        # several instances at once: the same ids never cross, one shutdown reaches all of them, shared clock
        two = {"insts": [{"kind": "bulk", "maxw": 2, "interval": 1000, "nclients": 2},
                         {"kind": "chunk", "maxw": 4, "interval": 500, "nclients": 2},
                         {"kind": "bag", "maxw": 2, "interval": 1000, "nclients": 2}],
               "bad": [5], "gateq": False, "gates": True, "scribble": True, "drain": True,
               "ops": [["add", 0, 0, 1, 1], ["add", 1, 0, 2, 3], ["add", 2, 1, 3, 1], ["add", 0, 1, 4, 1], ["add", 1, 1, 5, 1],
                       ["add", 2, 0, 6, 1], ["shutdown"], ["add", 0, 0, 7, 1], ["rel", 0, 0], ["rel", 1, 0], ["rel", 2, 0],
                       ["relall"], ["clock", 5001], ["tick", 1], ["tick", 1], ["add", 1, 0, 8, 1], ["tick", 0], ["sgo"],
                       ["clock", 5000], ["tick", 0], ["tick", 0], ["tick", 2], ["tick", 2], ["add", 2, 0, 9, 1], ["sgo"]]}
        cs.append(two)
        # sqlx.BulkInserter: the threshold (maxBulkRows) reached twice while the first statement is still executing
        n = self.consts["maxBulkRows"]
        iv = self.consts["flushInterval"]
        idle = self.consts["idleRound"] * iv + 1
        cs.append({"insts": [{"kind": "sqlx", "maxw": n, "interval": iv, "nclients": 3}], "bad": [], "gateq": False,
                   "gates": False, "scribble": False, "drain": True,
                   "ops": [["addn", 0, 0, 1, n - 1], ["add", 0, 0, n, 1], ["addn", 0, 0, n + 1, n - 1], ["sync", 0, 1],
                           ["add", 0, 1, 2 * n, 1], ["add", 0, 0, 2 * n + 1, 1], ["flush", 0, 2, 0], ["add", 0, 0, 2 * n + 2, 1],
                           ["rel", 0, 0], ["rel", 0, 0], ["flush", 0, 0, 1], ["rel", 0, 0], ["add", 0, 0, 2 * n + 3, 1],
                           ["flush", 0, 2, 2], ["relall"], ["tick", 0], ["clock", idle], ["tick", 0], ["tick", 0],
                           ["add", 0, 1, 2 * n + 4, 1]]})
        # rows whose Exec fails while no result handler is set (logged), refused calls (Insert with a wrong number
        # of arguments, UpdateStmt with malformed statements), then a handler, a failing row again
        cs.append({"insts": [{"kind": "sqlx", "maxw": n, "interval": iv, "nclients": 2}], "bad": [3, 7], "gateq": False,
                   "gates": False, "scribble": True, "drain": True,
                   "ops": [["add", 0, 0, 1, 1], ["reject", 0, 1, 0, 900001], ["add", 0, 0, 2, 1], ["add", 0, 1, 3, 1],
                           ["reject", 0, 1, 1, 0], ["flush", 0, 0, 0], ["reject", 0, 1, 2, 0], ["rel", 0, 0], ["sync", 0, 1],
                           ["reject", 0, 1, 3, 0], ["add", 0, 0, 6, 1], ["add", 0, 0, 7, 1], ["flush", 0, 1, 1], ["rel", 0, 0],
                           # rows flushed while the second statement (with a suffix) is the current one
                           ["add", 0, 0, 8, 1], ["add", 0, 1, 9, 1], ["flush", 0, 0, 2], ["rel", 0, 0]]})
        # a BulkInserter and a BulkExecutor side by side: one proc.Shutdown() flushes both, shared clock
        cs.append({"insts": [{"kind": "sqlx", "maxw": n, "interval": iv, "nclients": 2},
                             {"kind": "bulk", "maxw": 2, "interval": 1000, "nclients": 2}],
                   "bad": [], "gateq": False, "gates": False, "scribble": True, "drain": True,
                   "ops": [["addn", 0, 0, 1, 20], ["add", 1, 0, 5001, 1], ["shutdown"], ["add", 0, 1, 21, 1], ["add", 1, 1, 5002, 1],
                           ["rel", 0, 0], ["add", 1, 0, 5003, 1], ["rel", 1, 0], ["relall"], ["clock", 10001], ["tick", 1], ["tick", 1],
                           ["tick", 0], ["add", 1, 0, 5004, 1], ["clock", idle], ["tick", 0], ["tick", 0], ["add", 0, 0, 22, 1]]})
        # lifecycle of the background goroutine x a foreign Flush held inside its callback x Wait (seeded change C11-10: Wait
        # returns without waitGroup.Wait when guarded is false): the flusher has idle-quit and is gone while (a) another
        # client's explicit Flush, (b) the shutdown listener's Flush, (c) the quitting flusher's own deferred Flush is still
        # executing a batch added before the Wait; (d) the same while the flusher is alive, (e) after a later Add restarted it
        for kind in ("bulk", "chunk", "periodical"):
            cs.append(single(kind, 3, 3, [["add", 0, 1, 1], ["flush", 1], ["clock", 10001], ["tick"], ["wait", 2], ["wait", 0, 1], ["rel", 0]]))
        cs.append(agg("struct", "nil", 3, 3, [["add", 0, 0, 1], ["flush", 1], ["clock", 10001], ["tick"], ["wait", 2], ["rel", 0]]))
        cs.append(single("bulk", 3, 3, [["add", 0, 1, 1], ["shutdown"], ["clock", 10001], ["tick"], ["wait", 2], ["rel", 0]]))
        cs.append(single("bulk", 3, 3, [["add", 0, 1, 1], ["tick"], ["rel", 0], ["clock", 10001], ["tick"], ["add", 1, 2, 1], ["qgo"],
                                        ["wait", 0], ["wait", 2, 1], ["rel", 0]], gateq=True))
        cs.append(single("bulk", 3, 3, [["add", 0, 1, 1], ["flush", 1], ["tick"], ["wait", 2], ["rel", 0]]))
        cs.append(single("bulk", 3, 4, [["add", 0, 1, 1], ["flush", 1], ["clock", 10001], ["tick"], ["add", 0, 2, 1], ["wait", 2], ["rel", 0],
                                        ["flush", 3], ["clock", 20000], ["tick"], ["tick"], ["wait", 0], ["rel", 0], ["rel", 0]]))
        # the periodic flush after a restart (seeded change C11-11: one ticker per executor, reused by restarted flushers
        # although the quitting flusher stopped it): use, idle-quit, add below the threshold, two ticks -> executed
        for kind in ("bulk", "chunk", "periodical"):
            cs.append(single(kind, 3, 2, [["add", 0, 1, 1], ["tick"], ["tick"], ["rel", 0], ["clock", 10001], ["tick"], ["add", 1, 2, 1],
                                          ["tick"], ["tick"], ["rel", 0], ["clock", 30000], ["tick"], ["tick"], ["add", 0, 3, 1], ["add", 1, 4, 1],
                                          ["tick"], ["tick"], ["rel", 0]]))
        cs.append(agg("struct", "nil", 3, 2, [["add", 0, 1, 1], ["tick"], ["tick"], ["rel", 0], ["clock", 10001], ["tick"], ["add", 1, 0, 0],
                                              ["tick"], ["tick"], ["rel", 0]]))
        # the idle limit is interval * idleRound: idle ticks below it (clock 5000, 10000) keep the flusher, 10001 makes it quit
        cs.append(single("bulk", 3, 2, [["add", 0, 1, 1], ["tick"], ["rel", 0], ["clock", 5000], ["tick"], ["clock", 5000], ["tick"],
                                        ["add", 1, 2, 1], ["clock", 1], ["tick"], ["rel", 0], ["clock", 10001], ["tick"], ["add", 0, 3, 1]]))
        # chunk tasks of declared size 0 only (seeded change C11-5: RemoveAll answers nil while size == 0): Flush, tick, Wait
        cs.append(single("chunk", 4, 2, [["add", 0, 1, 0], ["add", 1, 2, 0], ["flush", 0], ["rel", 0], ["add", 0, 3, 0], ["tick"], ["rel", 0],
                                         ["add", 0, 4, 0], ["wait", 1], ["rel", 0], ["add", 1, 5, 0], ["wait", 0, 1], ["rel", 0]]))
        # a Flush / Wait that starts while an earlier flush is inside its callback must run what was added in between
        # (seeded change C11-6: concurrent flushes share one flight); two overlapping Waits: the second one waits for the
        # callback of the first one's Flush (seeded change C11-8: Wait flushes outside the waitGroup)
        for kind in ("bulk", "chunk"):
            cs.append(single(kind, 3, 3, [["add", 0, 1, 1], ["flush", 1], ["add", 0, 2, 1], ["wait", 2], ["rel", 0], ["rel", 0]]))
            cs.append(single(kind, 3, 3, [["add", 0, 1, 1], ["flush", 1, 1], ["add", 0, 2, 1], ["flush", 2], ["rel", 0], ["rel", 0],
                                          ["tick"], ["add", 0, 3, 1], ["tick"], ["add", 1, 4, 1], ["flush", 2, 1], ["rel", 0], ["rel", 0]]))
            cs.append(single(kind, 3, 3, [["add", 0, 1, 1], ["wait", 1], ["wait", 2], ["rel", 0]]))
            cs.append(single(kind, 3, 3, [["add", 0, 1, 1], ["wait", 1, 1], ["add", 0, 2, 1], ["wait", 2, 1], ["wait", 0], ["rel", 0], ["rel", 0]]))
        # a producer descheduled between addAndCheck (threshold batch removed, inflight++) and the send on commander
        # ("adds": parked there until "sendgo"), overtaken by a later batch of another producer while a Wait is waiting
        # (seeded change C11-7: Wait counts take-overs instead of waiting for inflight = 0)
        for kind in ("bulk", "chunk", "periodical"):
            cs.append(single(kind, 2, 4, [["adds", 0, 1, 1], ["adds", 0, 2, 1], ["wait", 3], ["add", 1, 3, 1], ["add", 1, 4, 1],
                                          ["rel", 0], ["sendgo", 0], ["rel", 0]]))
        cs.append(agg("struct", "mark", 2, 4, [["adds", 0, 0, 1], ["adds", 0, 2, 1], ["wait", 3], ["add", 1, 3, 1], ["add", 1, 4, 1],
                                               ["rel", 0], ["sendgo", 0], ["rel", 0]]))
        # ... two parked producers released in the other order; a Flush and the idle flusher (it must not quit:
        # inflight > 0) in that window
        cs.append(single("bulk", 2, 4, [["adds", 0, 1, 1], ["adds", 0, 2, 1], ["adds", 1, 3, 1], ["adds", 1, 4, 1], ["flush", 2], ["wait", 3],
                                        ["clock", 10001], ["tick"], ["tick"], ["sendgo", 1], ["rel", 0], ["add", 2, 5, 1], ["sendgo", 0],
                                        ["rel", 0], ["wait", 2]], gateq=True))
        for c in cs:
            c["drain"] = True
        return cs

    def _ops(self, rng, insts, nops, gateq, gates, hold, nid0=1, shutdown=False):
        nid = nid0
        ops = []
        n_inst = len(insts)

        def weight(inst, lo=False):
            if inst["kind"] == "bulk" or inst.get("shape") in ONE_TASK_SHAPES:
                return 1
            return rng.choice([0, 1, 2, 4] if lo else [0, 1, 1, 2, 3, 4])

        while len(ops) < nops:
            r = rng.random()
            i = rng.randrange(n_inst)
            inst = insts[i]
            c = rng.randrange(inst["nclients"])
            if hold and 0.62 <= r < 0.78 and rng.random() < 0.75:
                r = 0.1
            if r < 0.43:
                ops.append(["add", i, c, nid, weight(inst)])
                nid += 1
            elif r < 0.50:
                ops.append(["flush", i, c, rng.choice([0, 0, 1])])
            elif r < 0.59:
                ops.append(["wait", i, c, rng.choice([0, 0, 1])])
            elif r < 0.62:
                ops.append(["sync", i, c])
            elif r < 0.78:
                ops.append(["rel", i, rng.randrange(3)])
            elif r < 0.90:
                ops.append(["tick", i])
            elif r < 0.93:
                ops.append(["clock", rng.choice([0, 1000, 9999, 10000, 10001, 30000])])
            elif r < 0.96:
                ops.append(["relall"])
            else:
                # idle-quit pattern on instance i
                if rng.random() < 0.3:
                    # the flusher idle-quits while a foreign Flush is held inside its callback; then a Wait
                    ops += [["relall"], ["flush", i, rng.randrange(inst["nclients"]), rng.choice([0, 1])]]
                else:
                    ops += [["relall"]]
                ops += [["clock", rng.choice([10001, 20000])], ["tick", i], ["tick", i]]
                if rng.random() < 0.3:
                    ops.append(["wait", i, rng.randrange(inst["nclients"]), rng.choice([0, 1])])
                if gateq:
                    # something happens between the flusher's tick Flush and its quit decision
                    for _ in range(rng.randint(0, 2)):
                        ops.append(["add", i, rng.randrange(inst["nclients"]), nid, weight(inst, True)])
                        nid += 1
                    ops.append(["qgo"])
                if gates:
                    # the flusher has decided to quit and sits in ticker.Stop(): Adds below and at the
                    # threshold, Flush and Wait happen in that window, then it is released
                    acc = 0
                    for _ in range(rng.randint(0, 4)):
                        r2 = rng.random()
                        c2 = rng.randrange(inst["nclients"])
                        if r2 < 0.62:
                            w = weight(inst, True)
                            if rng.random() < 0.4:      # make this Add reach the threshold
                                one = inst["kind"] == "bulk" or inst.get("shape") in ONE_TASK_SHAPES
                                w = 1 if one else max(1, inst["maxw"] - acc)
                            acc += w
                            ops.append(["add", i, c2, nid, w])
                            nid += 1
                        elif r2 < 0.76:
                            ops.append(["flush", i, c2, rng.choice([0, 1])])
                        elif r2 < 0.88:
                            ops.append(["wait", i, c2, rng.choice([0, 1])])
                        elif r2 < 0.93 and shutdown:
                            ops.append(["shutdown"])
                        else:
                            ops.append(["tick", i])
                    ops.append(["sgo"])
            if gateq and rng.random() < 0.08:
                ops.append(["qgo"])
            if gates and rng.random() < 0.08:
                ops.append(["sgo"])
        if shutdown and not any(o[0] == "shutdown" for o in ops):
            ops.insert(rng.randrange(len(ops) + 1), ["shutdown"])
        # task 0 (payload 0): the batch that holds nothing else is the zero value of the aggregating batch types
        zs = [i for i, inst in enumerate(insts) if accepts_zero_task(inst)]
        if zs and rng.random() < 0.75:
            i = rng.choice(zs)
            w = 1 if insts[i].get("shape") in ONE_TASK_SHAPES else rng.choice([0, 0, 1, insts[i]["maxw"]])
            ops.insert(rng.randrange(min(len(ops), 12) + 1), ["add", i, rng.randrange(insts[i]["nclients"]), 0, max(0, w)])
        # one producer whose Adds are parked between addAndCheck and the send on commander (released by "sendgo")
        if rng.random() < 0.15:
            i = rng.randrange(n_inst)
            if insts[i]["kind"] != "sqlx":
                c = rng.randrange(insts[i]["nclients"])
                new = []
                for o in ops:
                    if o[0] == "add" and o[1] == i and o[2] == c:
                        o = ["adds"] + o[1:]
                    new.append(o)
                    if new[-1][0] == "adds" or (rng.random() < 0.1 and any(x[0] == "adds" for x in new)):
                        if rng.random() < 0.6:
                            new.append(["sendgo", i, c])
                ops = new
        return ops, nid

    def _gen_sqlx(self, rng):
        n = self.consts["maxBulkRows"]
        iv = self.consts["flushInterval"]
        idle = self.consts["idleRound"] * iv
        ops, nid = [], 1
        for _ in range(rng.randint(1, 3)):
            k = rng.choice([n - 1, n - 1, n - 2, n // 2])
            ops.append(["addn", 0, rng.randrange(3), nid, k])
            nid += k
            for _ in range(rng.randint(2, 7)):
                r = rng.random()
                c = rng.randrange(3)
                if r < 0.4:
                    ops.append(["add", 0, c, nid, 1])
                    nid += 1
                elif r < 0.55:
                    ops.append(["flush", 0, c, rng.choice([0, 1, 2])])
                elif r < 0.62:
                    ops.append(["sync", 0, c])
                elif r < 0.66:
                    ops.append(["reject", 0, c, rng.randrange(4), 900000 + len(ops)])
                elif r < 0.7:
                    ops.append(["wait", 0, c, 0])
                elif r < 0.85:
                    ops.append(["rel", 0, rng.randrange(2)])
                elif r < 0.95:
                    ops.append(["tick", 0])
                else:
                    ops += [["relall"], ["clock", rng.choice([idle, idle + 1, 2 * idle])], ["tick", 0], ["tick", 0]]
        bad = [rng.randrange(1, nid)] if rng.random() < 0.2 else []
        return {"insts": [{"kind": "sqlx", "maxw": n, "interval": iv, "nclients": 3}], "bad": bad, "gateq": False,
                "gates": rng.random() < 0.3, "scribble": rng.random() < 0.3, "ops": ops, "drain": True}

    def gen(self, rng, n, tier):
        cases = []
        n_sqlx = max(2, n // 120)
        for _ in range(n - n_sqlx):
            r = rng.random()
            ninst = 1 if r < 0.62 else (2 if r < 0.9 else 3)
            insts = []
            for _i in range(ninst):
                kind = rng.choice(["bulk", "bulk", "bulk", "chunk", "chunk", "periodical", "bag", "agg", "agg"])
                maxw = rng.choice([1, 2, 2, 3, 4]) if kind == "bulk" else rng.choice([1, 2, 3, 4, 5, 8])
                if rng.random() < 0.04:
                    maxw = rng.choice([0, -1])      # threshold 0 / negative: every Add reaches it
                ncl = rng.choice([2, 3, 3, 4]) if ninst == 1 else rng.choice([2, 2, 3])
                inst = {"kind": kind, "maxw": maxw, "interval": rng.choice([1000, 1000, 500]), "nclients": ncl}
                if kind == "agg":
                    inst["shape"] = rng.choice(sorted(SHAPES))
                    inst["empty"] = rng.choice(["nil", "zero", "mark"] if inst["shape"] != "bool" else ["nil", "zero"])
                    if inst["shape"] in ONE_TASK_SHAPES:
                        inst["maxw"] = rng.choice([1, 1, 0])
                insts.append(inst)
            long_lived = ninst == 1 and rng.random() < 0.12
            nops = rng.randint(40, 70) if long_lived else (rng.randint(6, 28) if ninst == 1 else rng.randint(10, 30))
            hold = rng.random() < 0.2   # keep callbacks parked for long: hand-overs pile up
            gateq = rng.random() < 0.35  # park the flusher before shallQuit until "qgo"
            gates = rng.random() < 0.4   # park the quitting flusher inside ticker.Stop() until "sgo"
            shutdown = rng.random() < 0.12
            if shutdown:    # the listener's goroutine is one more thread: keep the interleavings of a release explorable
                for inst in insts:
                    inst["nclients"] = min(inst["nclients"], 3)
            ops, nid = self._ops(rng, insts, nops, gateq, gates, hold, shutdown=shutdown)
            bad = []
            if rng.random() < 0.2 and nid > 1:
                bad = sorted(set(rng.randrange(1, nid) for _ in range(rng.randint(1, 2))))
            cases.append({"insts": insts, "bad": bad, "gateq": gateq, "gates": gates, "scribble": rng.random() < 0.3,
                          "ops": ops, "drain": True})
        for _ in range(n_sqlx):
            cases.append(self._gen_sqlx(rng))
        return cases

    # ---- execution ---------------------------------------------------------------
    def _run(self, cases, tag, sqlx, box, key, free_env=None):
        try:
            if sqlx:
                box[key] = vlib.go_test_overlay("./core/stores/sqlx", SQLX_OVERLAY, run="TestVerifC11Sqlx$", cases=cases,
                                                tag=tag, timeout=900)
            else:
                box[key] = vlib.go_test_overlay("./core/executors", OVERLAY,
                                                run="TestVerifC11$" if not free_env else "TestVerifC11$|TestVerifC11Free$",
                                                cases=cases, tag=tag, timeout=900, env=free_env)
        except Exception as e:       # noqa: BLE001
            box[key] = (99, "exception: %s" % e, [])

    def _exec_once(self, send, tag, free_env=None):
        """runs the cases (executors binary / sqlx binary in parallel); returns {id: raw result}"""
        a = [d for d in send if not has_sqlx(d)]
        b = [d for d in send if has_sqlx(d)]
        box = {}
        ths = []
        if a or free_env:
            ths.append(threading.Thread(target=self._run, args=(a, tag, False, box, "a", free_env)))
        if b:
            ths.append(threading.Thread(target=self._run, args=(b, tag + "x", True, box, "b")))
        for t in ths:
            t.start()
        for t in ths:
            t.join()
        res = {}
        for key, part in (("a", a), ("b", b)):
            if key not in box:
                continue
            rc, out, rs = box[key]
            if rc != 0 or len(rs) != len(part):
                raise ExecError("c11 executor (%s) rc=%s (%d/%d results): %s" % (key, rc, len(rs), len(part), out[-3000:]))
            for d, r in zip(part, rs):
                res[d["id"]] = r
        return res

    def execute(self, cases, ctx):
        send = []
        for k, c in enumerate(cases):
            d = dict(c)
            d["ops"] = list(c["ops"]) + (drain_ops(c) if c.get("drain", True) else [])
            d["id"] = k
            send.append(d)
        free_env = None
        if len(cases) > 50 and ctx.tier != "thorough" and not getattr(self, "_free_out", None):
            # the free-running monitor (real ticker) rides along with the main run, see extra()
            self._free_out = os.path.join(vlib.ROOT, ".run", "c11free_%d.json" % os.getpid())
            free_env = {"VERIF_FREE_OUT": self._free_out, "VERIF_FREE_ROUNDS": "6", "VERIF_SEED": str(ctx.seed)}
        res = self._exec_once(send, "c11", free_env)

        def to_obs(r):
            return {"steps": r.get("steps") or [], "err": r.get("err", ""), "removed": r.get("removed") or [],
                    "shut_started": bool(r.get("shut_started")), "shut_done": bool(r.get("shut_done"))}

        obs = [to_obs(res[k]) for k in range(len(cases))]
        # Under a forced schedule a hang / stuck call / lost task is deterministic.  The machine may be heavily
        # loaded (quiescence detection looks at goroutine states): every failing observation is re-run once, alone,
        # in a fresh process and kept only if the re-run fails as well.  Cases skipped because proc.Shutdown() hung
        # in an earlier case of the same process are re-run too.
        for _round in range(3):
            sus = [k for k in range(len(cases)) if analyse(cases[k], obs[k])]
            if not sus or len(sus) > 60:
                break
            skipped = [k for k in sus if obs[k]["err"].startswith("skipped")]
            todo = skipped if (_round > 0 and skipped) else sus
            try:
                res2 = self._exec_once([send[k] for k in todo], "c11r%d" % _round)
            except ExecError:
                break
            changed = False
            for k in todo:
                o2 = to_obs(res2[k])
                if not analyse(cases[k], o2):
                    ctx.notes.append("case %d: failing observation not reproduced on a re-run in a fresh process (discarded)" % k)
                    obs[k] = o2
                    changed = True
                elif obs[k]["err"].startswith("skipped") and not o2["err"].startswith("skipped"):
                    obs[k] = o2
                    changed = True
            if not any(obs[k]["err"].startswith("skipped") for k in range(len(cases))) or not changed:
                break
        return obs

    # ---- Coq rendering -----------------------------------------------------------
    def _act(self, a):
        k = a[0]
        if k == "add":
            return "AAdd %d %s %s" % (a[1], cz(a[2]), cz(a[3]))
        if k == "adds":
            return "AAddS %d %s %s" % (a[1], cz(a[2]), cz(a[3]))
        if k == "sendgo":
            return "ASendGo %d" % a[1]
        if k == "addn":
            return "AAddN %d %s %d%%nat" % (a[1], cz(a[2]), a[3])
        if k == "flush":
            return "AFlush %d" % a[1]
        if k == "wait":
            return "AWait %d" % a[1]
        if k == "sync":
            return "ASync %d %s" % (a[1], ("(Some %s)" % zl(a[3])) if a[2] else "None")
        if k == "rel":
            return "ARel %s %s" % (cz(a[1]), zl(a[2]))
        if k == "tick":
            return "ATick"
        if k == "qgo":
            return "AQuitGo"
        if k == "sgo":
            return "AStopGo"
        if k == "shutdown":
            return "AShutdown"
        if k == "nop":
            return "ANop"
        return "AClock %s" % cz(a[1])

    def _obs(self, o):
        return "mkObs %s %s %s %s %s %s %s %s %s %s %s %s %s" % (
            clist([cbool(b) for b in o["idle"]]),
            clist([zl(h) for h in o["parked"]]),
            zl(o["cont"]), cz(o["size"]), cz(o["inflight"]), cbool(o["guarded"]), cbool(o["cmd"]),
            cbool(o["tick"]), cbool(o["benter"]), cbool(o["bexit"]), cbool(o["qpark"]), cbool(o["spark"]),
            clist([cbool(b) for b in (o.get("split") or [False] * len(o["idle"]))]))

    def coq_case(self, case, obs):
        err = bool(case_err(obs))
        parts = []
        for inst, steps in inst_logs(case, obs):
            st = clist(["(%s, %s)" % (self._act(a), self._obs(o)) for a, o in steps])
            # an executor error (no quiescence, shutdown stuck) is a failing history
            ck, ce = container_of(inst)
            idx = len(parts)
            rem = (obs.get("removed") or [])
            rem = rem[idx] if idx < len(rem) and rem[idx] else []
            rm = clist(["(%s, mkBV %s %s %s)" % (zl(r.get("ids") or []), RKINDS.get(r["kind"], "KOther"), cz(r["len"]),
                                                 cbool(r["zero"])) for r in rem])
            spl = sorted(set(o[2] for o in case["ops"] if o[0] == "adds" and o[1] == idx))
            parts.append("mkCase %s %s %s %s %s %s %s %d%%nat %s %s %s %s %s" % (
                cz(inst["maxw"]), cz(inst["interval"]), clist([cz(b) for b in case["bad"]]),
                cbool(bool(case.get("drain", True))), cbool(err), cbool(bool(case.get("gateq"))),
                cbool(bool(case.get("gates"))), inst["nclients"], clist(["%d%%nat" % c for c in spl]), ck, ce, rm, st))
        return clist(parts)

    # ---- classification ----------------------------------------------------------
    def nontrivial(self, case, obs):
        steps = obs["steps"]
        ncb = sum(1 for s in steps if s["act"][0] == "rel" and s["act"][2] >= 0)
        hand = any(o["inflight"] > 0 or o["cmd"] for s in steps for o in s["obs"]) or \
            any(s["act"][0] == "add" and len(s["obs"][s["act"][1]]["parked"]) > 0 for s in steps)
        other = any(s["act"][0] in ("wait", "tick") for s in steps[:len(case["ops"])])
        return ncb >= 2 and hand and other

    def features(self, case, obs):
        fs = ["instances=%d" % len(case["insts"])]
        fs += sorted(set("kind=" + i["kind"] for i in case["insts"]))
        for idx, inst in enumerate(case["insts"]):
            if inst["kind"] != "agg":
                continue
            fs.append("container=%s/%s" % (inst["shape"], inst["empty"]))
            rem = obs.get("removed") or []
            for r in (rem[idx] if idx < len(rem) and rem[idx] else []):
                if r.get("ids") and r.get("zero"):
                    fs.append("zero_valued_batch_with_tasks_" + r["kind"])
                if not r.get("ids") and r.get("kind") not in ("nil", "slice", "map", "chan", "array"):
                    fs.append("idle_aggregate_executed")
        fs += ["has_" + k for k in sorted(set(o[0] for o in case["ops"]))]
        if case["bad"]:
            fs.append("panicking_tasks")
        if case.get("scribble"):
            fs.append("callbacks_overwrite_their_batch")
        steps = obs["steps"]
        for i in range(len(case["insts"])):
            g = [s["obs"][i]["guarded"] for s in steps]
            quits = [j for j in range(len(g) - 1) if g[j] and not g[j + 1]]
            if quits:
                fs.append("flusher_quit")
                if any(g[quits[0] + 1:]):
                    fs.append("flusher_restart")
                if len(quits) >= 2:
                    fs.append("flusher_quit_twice_on_one_instance")
        if any(o["inflight"] > 0 for s in steps for o in s["obs"]):
            fs.append("handover_pending")
        if any(o.get("spark") for s in steps for o in s["obs"]):
            fs.append("flusher_parked_in_stop")
        if any(o["benter"] for s in steps for o in s["obs"]):
            fs.append("flusher_blocked_on_barrier")
        # a callback that stayed parked while at least two later batches were removed from the same container
        for i in range(len(case["insts"])):
            first, last = {}, {}
            for j, s in enumerate(steps):
                for h in s["obs"][i]["parked"]:
                    first.setdefault(tuple(h), j)
                    last[tuple(h)] = j
            if any(sum(1 for h2 in first if first[h1] < first[h2] <= last[h1]) >= 2 for h1 in first):
                fs.append("callback_outlives_two_later_removals")
                break
        if any(f["kind"] == "wait" for f in analyse(case, obs)):
            fs.append("wait_returned_early")
        fs.append("steps<=%d" % (10 * (1 + len(steps) // 10)))
        return sorted(set(fs))

    # ---- free-running monitor: real ticker, uncontrolled goroutines (atomicity assumption, DESIGN §3.3) ----
    def extra(self, ctx):
        fails = []
        out = ""
        if ctx.tier == "thorough":
            rc, out, res = vlib.go_test_overlay("./core/executors", OVERLAY, run="TestVerifC11Free$", cases=[],
                                                tag="c11free", timeout=900, race=True,
                                                env={"VERIF_SEED": str(ctx.seed)})
            rounds = res[0] if res and isinstance(res[0], list) else []
            if "DATA RACE" in out:
                fails.append({"what": "data race in core/executors under the free-running monitor",
                              "replay": {"output": out[-3000:]}})
            if rc != 0 and not fails:
                raise ExecError("c11 free-running monitor rc=%s: %s" % (rc, out[-2000:]))
        else:
            # quick tier: a few rounds without -race were run together with the forced schedules
            p = getattr(self, "_free_out", None)
            rounds = []
            if p and os.path.exists(p):
                try:
                    rounds = json.load(open(p))
                finally:
                    os.remove(p)
            self._free_out = None
        if not rounds and not fails:
            raise ExecError("c11 free-running monitor produced no result: %s" % out[-1000:])
        for r in rounds:
            if r.get("dup") or r.get("missing") or r.get("unknown") or r.get("changed"):
                fails.append({"what": "free run: tasks executed twice %s / never %s / unknown %s / batches that changed "
                                      "during their callback %s" % (r.get("dup"), r.get("missing"), r.get("unknown"), r.get("changed")),
                              "replay": r})
        ctx.notes.append("free-running monitor (real ticker%s): %d rounds, %d failing"
                         % (", -race" if ctx.tier == "thorough" else "", len(rounds), len(fails)))
        return fails[:3]

    def describe_failure(self, case, obs):
        fails = analyse(case, obs)
        return "on the observed log: %s" % json.dumps(fails[:3])


PROPERTY = C11()
