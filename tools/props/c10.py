"""C10 — MapReduce: exactly-once mapping, complete reduction, clean termination."""
import copy
import json
import os
import re

import vlib
from runner import Property, ExecError
from vlib import cz, clist, cbool

APIS = {"mr": "AMapReduce", "void": "AVoid", "chan": "AChan", "foreach": "AForEach",
        "finish": "AFinish", "finishvoid": "AFinishVoid", "atomic": "AAtomic"}


def nat(n):
    return "%d%%nat" % int(n)


# cancel codes >= 1000 of the executor: 1001 ErrCancelWithNil, 1002 ErrReduceNoOutput, 1003 context.Canceled,
# 1004 context.DeadlineExceeded, 1005 wrapped ErrReduceNoOutput, 1006 wrapped DeadlineExceeded, 1007 io.EOF,
# 1008 an error of a pointer type, 1009 errors.New, 1010 wrapped ErrCancelWithNil, 1011 TYPED NIL (a nil *ptrErr in an error
# interface: a non-nil error value), 1012 a comparable struct error with value receiver, 1013 an error whose Error() panics,
# 1014 wrapped context.Canceled, 1015 a typed nil of channel kind, 1016 the zero value of the struct error, 1017 errors.New(""),
# 1018 a second non-nil *ptrErr.  The same codes are panic values (panic(err)); panic codes 2000 = panic(nil) (a
# *runtime.PanicNilError since go 1.21), 2001 = a string, 0 = the zero userPanic.  Results are recognised by IDENTITY (==).
# 1019 a non-nil map error, 1020 a nil map error (typed nil of map kind), 1021 a slice error, 1022 a func error: NON-COMPARABLE dynamic
# types (== on two of them panics at run time; the harness compares by reflect pointer)
SENTINELS = list(range(1001, 1023))
TYPED_NILS = (1011, 1015, 1020)
PANIC_CODES = SENTINELS + [2000, 2001, 0]
NOOUTPUT_CODES = (1002, 1005)


def atomic_case(aops):
    return {"api": "atomic", "workers": 0, "gen": [], "maps": {}, "red": [], "events": [], "aops": aops, "family": "atomic_error"}


def _func_body(src, header_re, what):
    """text of the top-level func whose header matches header_re (up to the closing brace in column 0)"""
    m = re.search(header_re + r".*?\n}\n", src, re.S)
    if not m:
        raise RuntimeError("C10 translator: %s not found in core/mr" % what)
    return m.group(0)


def _pkg_sources(rel):
    """the non-test Go files of a package directory of the checked tree, concatenated (a declaration may move between files)"""
    d = os.path.join(vlib.REPO, rel)
    return "\n".join(open(os.path.join(d, f)).read() for f in sorted(os.listdir(d))
                     if f.endswith(".go") and not f.endswith("_test.go"))


def regen_constants():
    """core/mr/*.go -> coq/gen/C10Consts.v: the worker constants and the shape of the output
    protocol (does the call close `output` together with `done`? does guardedWriter.Write select on done while
    sending?).  The recognisers do not depend on the names of locals, receivers or of the finish closure, nor on which
    file of the package holds a declaration.  Fails loudly when a shape is not recognised."""
    src = _pkg_sources("core/mr")
    consts = {}
    for name in ("defaultWorkers", "minWorkers"):
        m = re.search(r"^\s*(?:const\s+)?%s(?:\s+\w+)?\s*=\s*(\d+)\s*(?://.*)?$" % name, src, re.M)
        if not m:
            raise RuntimeError("C10 translator: constant %s not found (or not an integer literal)" % name)
        consts[name] = int(m.group(1))
    body = _func_body(src, r"\nfunc mapReduceWithPanicChan\[", "mapReduceWithPanicChan")
    # the output channel (make(chan V)) and the done channel (make(chan struct{})) of the call, whatever their names
    mo = re.search(r"\n\t(\w+) := make\(chan V\)", body)
    md = re.search(r"\n\t(\w+) := make\(chan struct\{\}\)", body)
    if not mo or not md:
        raise RuntimeError("C10 translator: output / done channel of mapReduceWithPanicChan not found")
    out_name, done_name = mo.group(1), md.group(1)
    if "close(%s)" % done_name not in body:
        raise RuntimeError("C10 translator: close(done) not found in mapReduceWithPanicChan")
    closes_output = ("close(%s)" % out_name) in body
    wbody = _func_body(src, r"\nfunc \(\w+ guardedWriter\[\w+\]\) Write\(", "guardedWriter.Write")
    bare = re.search(r"default:\s*\n\s*\w+\.\w+ <- \w+\s*\n", wbody) is not None
    sel = re.search(r"default:\s*\n\s*select \{\s*\n\s*case \w+\.\w+ <- \w+:(.|\n)*?case <-\w+\.\w+:", wbody) is not None
    if bare == sel or len(re.findall(r"case <-\w+\.\w+(?:\.Done\(\))?:", wbody)) < 2:
        raise RuntimeError("C10 translator: shape of guardedWriter.Write not recognised")
    # the caller must take <-done where it took the closed output, iff output is never closed
    main_done = re.search(r"\n\tcase <-%s:" % re.escape(done_name), body) is not None
    # MapReduceVoid maps ErrReduceNoOutput to nil: for every error (errors.Is on the result, finding F29), or only
    # when nobody cancelled (the repair 65e1133, pending/applied/C10-void-cancelled-nooutput.diff)?
    # Only the exact pre-repair shape counts as "swallows": a top-level errors.Is test and nothing that records a
    # cancellation (the repaired code wraps the cancel funcs in closures).  Any other shape is taken as today's
    # behaviour; the correspondence run decides (corpus: cancel(ErrReduceNoOutput) under MapReduceVoid / Finish).
    vbody = _func_body(src, r"\nfunc MapReduceVoid\[", "MapReduceVoid")
    test = r"errors\.Is\(\w+, ErrReduceNoOutput\)"
    swallows = (re.search(r"\n\tif %s \{" % test, vbody) is not None
                and re.search(r"func\(\w+ error\) \{", vbody) is None)
    text = "\n".join([
        "(* GENERATED by tools/props/c10.py from core/mr/*.go of the checked tree at every run - do not edit. *)",
        "Definition gen_defaultWorkers : nat := %d." % consts["defaultWorkers"],
        "Definition gen_minWorkers : nat := %d." % consts["minWorkers"],
        "(* finish() = closeOnce.Do(close(done); close(output)) - false: output is never closed *)",
        "Definition gen_finishClosesOutput : bool := %s." % cbool(closes_output),
        "(* guardedWriter.Write = check; select { channel <- v | <-done } - false: a bare send after the check *)",
        "Definition gen_writeSelectsDone : bool := %s." % cbool(sel),
        "(* the caller's selects have a `case <-done` *)",
        "Definition gen_callerSelectsDone : bool := %s." % cbool(main_done),
        "(* MapReduceVoid returns nil for every result that errors.Is ErrReduceNoOutput, also one passed to cancel *)",
        "Definition gen_voidSwallowsCancelledNoOutput : bool := %s." % cbool(swallows), ""])
    path = os.path.join(vlib.COQ, "gen", "C10Consts.v")
    os.makedirs(os.path.dirname(path), exist_ok=True)
    old = open(path).read() if os.path.exists(path) else None
    if old != text:
        tmp = path + ".tmp%d" % os.getpid()
        with open(tmp, "w") as f:
            f.write(text)
        os.replace(tmp, path)
    return dict(consts, closes_output=closes_output, write_selects=sel, caller_selects=main_done, swallows=swallows), old != text


class C10(Property):
    id = "C10"
    title = "MapReduce: exactly-once mapping, complete reduction, clean termination"
    quick_cases = 700
    thorough_cases = 9000
    design_ref = "DESIGN.md §6/C10, §5/F4"
    level_text = ("Rocq theorems over a process-network LTS of core/mr (caller, generator wrapper, executeMappers, mapper "
                  "wrappers, reducer wrapper, cancel/finish once-guards, source/collector/output/done/panicChan+quit) for ALL "
                  "schedules, item counts, worker counts and user scripts: worker bound, exactly-once hand-over of items and of "
                  "mapper outputs (incl. the fault-free halves), the result in terms of the user scripts alone (reducer's value / "
                  "an error passed to cancel by a script / context error / a panic raised by a script), a value is only returned if "
                  "nothing had been cancelled when the caller received it; terminal_clean (no deadlock, no leaked goroutine), a "
                  "termination measure decreased by every step: every run is finite, no reachable deadlock, every fair infinite "
                  "schedule reaches a clean terminal state. Both output protocols (today's and the candidate F13 repair) are covered; "
                  "the one in force is regenerated from mapreduce.go. errorx.AtomicError over Go interface values (typed nils are non-nil): "
                  "Set of any non-nil interface value is loaded, nil ignored, last / concurrent Sets (every order), what cancel stores for "
                  "every value and its refinement to the LTS; a non-error outcome is committed only if nothing was cancelled. Tie: forced schedules (gated callbacks + goroutine quiescence) "
                  "with a goroutine census, window families for every library sequence a callback can hold open.")
    level_note = ("Trusted: Coq kernel + vm_compute; hand-written model (atomicity: recover+failed+++CAS one step, guard check "
                  "at the start of Write, close(done)+close(output) one step); correspondence only on generated forced "
                  "schedules; quiescence read from runtime.Stack; runs in which Go's select had several ready cases are "
                  "compared on the property only (counted as racy).")
    rule = ("cases: fixed corpus (~200) first; generated: 45 % free shuffles, 28 % window families, 11 % stragglers, 5 % held caller, 4 % AtomicError histories, 7 % early-returning reducers followed by faults (window families = 11 setups: a library-internal sequence of core/mr held open by a stalled "
            "callback, the other callbacks acting inside it); API in {MapReduce, MapReduceVoid, MapReduceChan, ForEach, Finish, FinishVoid}; "
            "WithWorkers absent / negative / 0 / 1..4 / given twice; context passed / absent / already cancelled / already expired; items "
            "0..workers+3, fan-out 0..3; 0..4 faults (cancel(nil) / cancel(err) with plain, sentinel (ErrCancelWithNil, ErrReduceNoOutput, "
            "context errors, io.EOF, bare and wrapped) and differently typed errors / panic in generator, mapper, reducer / context end) at "
            "random positions; error VALUES by identity (typed nil pointer / channel errors, non-nil pointer, struct value and its zero, "
            "errors.New, %w-wrapped, the package's and context's sentinels bare and wrapped, an error whose Error() panics) passed to "
            "cancel, returned by Finish functions and used as panic values (also panic(nil), a string) - fixed corpus for every value x API "
            "x role plus substitution in generated cases; errorx.AtomicError driven directly (Set / Load / concurrent Sets); "
            "random release order with stalled functions; non-trivial = at least two mapper invocations and (a fault "
            "was executed, or more items than workers with fan-out >= 1); distinct = canonical JSON hash")
    trusted_base = [
        "model theories/C10/Model.v is hand-written; tie = forced-schedule correspondence run (harness/cmd/c10) through the public API",
        "quiescence and the goroutine census are read from runtime.Stack (goroutine states and core/mr frames)",
        "atomicity granularity of the model (see Model.v header); Go's select/channel semantics as modelled",
        "free-running -race monitor (thorough tier) is evidence for, not a proof of, the atomicity assumption",
        "the table of error values (which executor code is which dynamic type / payload: AtomicErr.dyn_of_code vs harness/cmd/c10 sentinels) "
        "is hand-written on both sides; the direct AtomicError histories compare them (a wrong type in the table shows as a disagreement)",
    ]
    assumptions = ["items are distinct integers (so that invocations can be identified)",
                   "a source passed to MapReduceChan is eventually closed by its owner",
                   "the reducer calls Write at most twice (a third Write blocks inside the user function's own call)"]

    # ------------------------------------------------------------------ translator
    def regen(self, ctx):
        # defaults, so that the search for a failing input still runs when the translator does not recognise the tree
        # (the runner reports the translator failure as a broken obligation; coq/gen keeps the last recognised values)
        self.consts = {"defaultWorkers": 16, "minWorkers": 1}
        self.void_nooutput = True
        vals, changed = regen_constants()
        self.consts = vals
        # cancel(ErrReduceNoOutput | wrapped) under MapReduceVoid / Finish is always generated (finding F29, fixed in
        # /repo 65e1133: a tree that swallows it again gets a VIOLATION, and GenProofs.void_keeps_cancelled_error breaks)
        self.void_nooutput = True
        return ["C10Consts.v %s: defaultWorkers=%d minWorkers=%d finishClosesOutput=%s writeSelectsDone=%s callerSelectsDone=%s "
                "voidSwallowsCancelledNoOutput=%s"
                % ("rewritten" if changed else "unchanged", vals["defaultWorkers"], vals["minWorkers"],
                   vals["closes_output"], vals["write_selects"], vals["caller_selects"], vals["swallows"])]

    # ------------------------------------------------------------------ build
    def prepare(self, ctx):
        ok, res = vlib.go_build("c10")
        self.bin = res if ok else None
        return ok, ("" if ok else res)

    # ------------------------------------------------------------------ cases
    def corpus(self):
        rw = [["recvall"], ["write", 777]]
        return [
            # F4: mapper 1 cancels, mapper 2 panics afterwards (leak on the pinned code)
            {"api": "mr", "workers": 2, "gen": [["send", 1], ["send", 2]],
             "maps": {"1": [["cancel", 5]], "2": [["panic", 9]]}, "red": rw,
             "events": [["g"], ["g"], ["g"], ["m", 1], ["m", 1], ["m", 2]]},
            # F4-A: the reducer writes early, then a mapper panics (deadlock on the pinned code)
            {"api": "mr", "workers": 2, "gen": [["send", 1]], "maps": {"1": [["panic", 9]]},
             "red": [["write", 42]], "events": [["g"], ["g"], ["r"], ["r"], ["m", 1]]},
            # F4-B: the context ends while the generator is stalled, then the generator panics
            {"api": "mr", "workers": 2, "gen": [["panic", 3]], "maps": {}, "red": [["recvall"]],
             "events": [["r"], ["c"], ["g"]]},
            # F4-C: the reducer writes, then panics
            {"api": "mr", "workers": 2, "gen": [["send", 1]], "maps": {"1": []},
             "red": [["write", 42], ["panic", 8]], "events": [["g"], ["g"], ["m", 1], ["r"], ["r"]]},
            # context ends, reducer writes while Main drains the source: send on closed channel, recovered
            {"api": "mr", "workers": 1, "gen": [["send", 1], ["send", 2]], "maps": {"1": [], "2": []},
             "red": [["write", 42]], "events": [["c"], ["r"], ["g"], ["g"], ["g"]]},
            # late panic after cancel(nil); late panic in the generator after a cancel
            {"api": "mr", "workers": 1, "gen": [["send", 1], ["send", 2], ["panic", 4]],
             "maps": {"1": [["cancelnil"]], "2": [["panic", 9]]}, "red": rw,
             "events": [["g"], ["m", 1], ["g"], ["g"]]},
            # ForEach: mapper panics after ForEach returned through another panic
            {"api": "foreach", "workers": 2, "gen": [["send", 1], ["send", 2]],
             "maps": {"1": [["panic", 1]], "2": [["panic", 2]]}, "red": [],
             "events": [["g"], ["g"], ["g"], ["m", 1], ["m", 2]]},
            # Finish: one function fails, another panics later
            {"api": "finish", "workers": 3, "gen": [["send", 0], ["send", 1], ["send", 2]],
             "maps": {"0": [["cancel", 7]], "1": [["panic", 6]], "2": []}, "red": [], "events": [["m", 0], ["m", 1]]},
            # boundary: no items; more items than workers; reducer writes twice; zero workers (clamped to 1)
            {"api": "mr", "workers": 3, "gen": [], "maps": {}, "red": rw, "events": []},
            {"api": "mr", "workers": 1, "gen": [["send", i] for i in range(1, 5)],
             "maps": {str(i): [["write", 10 * i], ["write", 10 * i + 1]] for i in range(1, 5)}, "red": rw, "events": []},
            {"api": "mr", "workers": 2, "gen": [["send", 1]], "maps": {"1": [["write", 10]]},
             "red": [["recvall"], ["write", 1], ["write", 2]], "events": []},
            {"api": "mr", "workers": 0, "gen": [["send", 1], ["send", 2]], "maps": {"1": [["write", 1]], "2": [["write", 2]]},
             "red": rw, "events": []},
            {"api": "finish", "workers": 0, "gen": [], "maps": {}, "red": [], "events": []},
            {"api": "finishvoid", "workers": 0, "gen": [], "maps": {}, "red": [], "events": []},
            # exactly one function (the boundary next to the empty fast path), with and without a failure
            {"api": "finishvoid", "workers": 1, "gen": [["send", 0]], "maps": {"0": []}, "red": [], "events": []},
            {"api": "finish", "workers": 1, "gen": [["send", 0]], "maps": {"0": []}, "red": [], "events": []},
            {"api": "finish", "workers": 1, "gen": [["send", 0]], "maps": {"0": [["cancel", 7]]}, "red": [], "events": []},
            {"api": "finishvoid", "workers": 1, "gen": [["send", 0]], "maps": {"0": [["panic", 3]]}, "red": [], "events": []},
            {"api": "void", "workers": 2, "gen": [["send", 1], ["send", 2]], "maps": {"1": [["write", 1]], "2": [["cancelnil"]]},
             "red": [["recvall"]], "events": []},
            # two cancels with errors of different concrete types, the second blocked at the once while the first drains
            {"api": "mr", "workers": 2, "gen": [["send", 1], ["send", 2]], "maps": {"1": [["cancel", 1009]], "2": [["cancel", 1008]]},
             "red": rw, "events": [["g"], ["g"], ["m", 1], ["m", 2], ["g"]]},
            # a cancel still draining when the context ends: the caller's cancel(DeadlineExceeded) comes second
            {"api": "void", "workers": 2, "gen": [["send", 1], ["send", 2]], "maps": {"1": [["cancel", 5]], "2": []},
             "red": [["recvall"]], "events": [["g"], ["g"], ["m", 1], ["c"], ["g"]]},
            # the reducer writes inside a cancel that is still draining the source (the C10-4 window)
            {"api": "mr", "workers": 2, "gen": [["send", 1], ["send", 2], ["send", 3]], "maps": {"1": [["cancel", 5]], "2": [["write", 20]], "3": []},
             "red": [["recv"], ["write", 777], ["recvall"]], "events": [["g"], ["g"], ["m", 1], ["m", 2], ["r"], ["r"], ["g"]]},
            # sentinel values passed to cancel under a live context
            {"api": "mr", "workers": 1, "gen": [["send", 1]], "maps": {"1": [["cancel", 1004]]}, "red": rw, "events": []},
            {"api": "mr", "workers": 1, "gen": [["send", 1]], "maps": {"1": [["cancel", 1002]]}, "red": rw, "events": []},
            {"api": "chan", "workers": 1, "gen": [["send", 1]], "maps": {"1": []}, "red": [["cancel", 1001], ["recvall"]], "events": []},
            # the context has ended before the call starts; no WithContext / WithWorkers at all; WithWorkers twice
            {"api": "mr", "workers": 2, "ctx": "pre", "gen": [["send", 1], ["send", 2]], "maps": {"1": [["write", 1]], "2": [["write", 2]]},
             "red": rw, "events": []},
            {"api": "void", "workers": 2, "ctx": "expired", "gen": [["send", 1]], "maps": {"1": []}, "red": [["recvall"]], "events": [["r"]]},
            {"api": "mr", "workers": -1, "ctx": "none", "gen": [["send", i] for i in range(1, 6)],
             "maps": {str(i): [["write", i]] for i in range(1, 6)}, "red": rw, "events": [["g"]] * 5},
            {"api": "mr", "workers": 3, "workers_first": 1, "gen": [["send", i] for i in range(1, 4)],
             "maps": {str(i): [["write", i]] for i in range(1, 4)}, "red": rw, "events": [["g"]] * 3},
            {"api": "mr", "workers": -7, "workers_first": 4, "gen": [["send", i] for i in range(1, 4)],
             "maps": {str(i): [["write", i]] for i in range(1, 4)}, "red": rw, "events": [["g"]] * 3},
            # the caller held before its final select while a mapper panics and everything else runs to its end
            # (seeded change C10-9: wg.Done before panicChan.write lets output close before the panic is delivered)
            {"api": "mr", "workers": 2, "ctx": "gate", "repeat": 20, "gen": [["send", 1]], "maps": {"1": [["panic", 9]]},
             "red": [["recvall"]], "events": [["g"], ["g"], ["m", 1], ["r"], ["r"], ["k"]]},
            {"api": "mr", "workers": 2, "ctx": "gate", "repeat": 20, "gen": [["send", 1], ["send", 2]],
             "maps": {"1": [["write", 10], ["panic", 9]], "2": [["write", 20]]}, "red": [["recvall"], ["write", 777]],
             "events": [["g"], ["g"], ["g"], ["m", 2], ["m", 2], ["m", 1], ["m", 1], ["r"], ["r"], ["r"], ["k"]]},
            {"api": "void", "workers": 1, "ctx": "gate", "repeat": 20, "gen": [["send", 1]], "maps": {"1": [["panic", 9]]},
             "red": [["recvall"]], "events": [["g"], ["g"], ["m", 1], ["r"], ["r"], ["k"]]},
            # held caller, a mapper cancels and another panics: either outcome, never a normal result
            {"api": "mr", "workers": 2, "ctx": "gate", "repeat": 12, "gen": [["send", 1], ["send", 2]],
             "maps": {"1": [["cancel", 5]], "2": [["panic", 9]]}, "red": [["recvall"], ["write", 777]],
             "events": [["g"], ["g"], ["g"], ["m", 1], ["m", 2], ["r"], ["k"]]},
            # a cancel while another mapper and the reducer stay parked: the call returns without them (seeded change C10-6)
            {"api": "mr", "workers": 2, "gen": [["send", 1], ["send", 2]], "maps": {"1": [["cancel", 5]], "2": []}, "red": rw,
             "events": [["g"], ["g"], ["g"], ["m", 1]]},
            {"api": "void", "workers": 2, "gen": [["send", 1], ["send", 2]], "maps": {"1": [], "2": []}, "red": [["recvall"]],
             "events": [["g"], ["g"], ["g"], ["c"]]},
            # a mapper parked in Write on the full collector when the reducer cancels and returns without reading on /
            # when the context ends: the wrapper's drain must release it (seeded change C10-8)
            {"api": "mr", "workers": 1, "gen": [["send", 1]], "maps": {"1": [["write", 10], ["write", 11], ["write", 12]]},
             "red": [["cancel", 5]], "events": [["g"], ["g"], ["m", 1], ["m", 1], ["r"]]},
            {"api": "mr", "workers": 1, "gen": [["send", 1]], "maps": {"1": [["write", 10], ["write", 11], ["write", 12]]},
             "red": [], "events": [["g"], ["g"], ["m", 1], ["m", 1], ["c"], ["r"]]},
        ] + self._early_return_corpus() + self._value_corpus() + ([
            # F29: an error that is ErrReduceNoOutput passed to cancel under MapReduceVoid / returned by a Finish function
            {"api": "void", "workers": 1, "gen": [["send", 1]], "maps": {"1": [["cancel", 1002]]}, "red": [["recvall"]], "events": []},
            {"api": "finish", "workers": 2, "gen": [["send", 0], ["send", 1]], "maps": {"0": [["cancel", 1005]], "1": []}, "red": [], "events": []},
            # ... passed to cancel by the REDUCER of MapReduceVoid (its cancel func is wrapped separately), and by a mapper wrapped
            {"api": "void", "workers": 1, "gen": [["send", 1]], "maps": {"1": [["write", 4]]}, "red": [["recv"], ["cancel", 1002], ["recvall"]], "events": []},
            {"api": "void", "workers": 1, "gen": [], "maps": {}, "red": [["cancel", 1005]], "events": []},
            {"api": "void", "workers": 2, "gen": [["send", 1], ["send", 2]], "maps": {"1": [], "2": [["cancel", 1005]]}, "red": [["recvall"]], "events": []},
        ] if getattr(self, "void_nooutput", False) else [])

    def _early_return_corpus(self):
        """Addendum classes 5 / 18 by construction: a reducer that RETURNS EARLY - before its pipe is closed, without ranging to the
        end (returns at once / after one receive / after its single Write) - for every API with a user reducer (MapReduce,
        MapReduceChan, MapReduceVoid: for the Void adapter, what it does after the user's reducer returned is anchored code), then,
        while the call is still running, a fault in a still-running mapper or the generator: cancel(err) / cancel(nil) / cancel(typed
        nil) / panic / the context ends / a generator panic.  The reducer's return must not decide the result (seeded change
        C10-11: the Void adapter wrote a placeholder once the void reducer had returned; a later cancel was lost, the call
        returned nil).  Finish / FinishVoid / ForEach have no user reducer: their early-returning functions are mappers (a function
        returns, another one fails later)."""
        res = []
        faults = [("m", ["cancel", 5]), ("m", ["cancelnil"]), ("m", ["cancel", 1011]), ("m", ["panic", 9]), ("c", None), ("g", ["panic", 3])]
        for api in ("void", "mr", "chan"):
            for red in ([], [["recv"]], [["recv"], ["write", 777]]):
                if api == "void":
                    red = [a for a in red if a[0] != "write"]
                    if red == [["recv"]] and any(r["api"] == "void" and r["red"] == red for r in res):
                        continue
                for who, act in faults:
                    if who == "g" and api == "chan":
                        continue
                    gen = [["send", 1], ["send", 2]] + ([act] if who == "g" else [])
                    maps = {"1": [["write", 10]], "2": [act] if who == "m" else []}
                    # both items handed over (the generator stays parked before its next action), mapper 1 writes and returns,
                    # the reducer runs its whole script and RETURNS, and only then the fault
                    ev = [["g"], ["g"], ["m", 1], ["m", 1]] + [["r"]] * (len(red) + 1)
                    ev += {"m": [["m", 2]], "c": [["c"]], "g": [["g"]]}[who]
                    res.append({"api": api, "workers": 2, "gen": gen, "maps": maps, "red": copy.deepcopy(red), "events": ev})
        # the same with the reducer returning before anything was mapped, and a fault of the only mapper
        for api in ("void", "mr"):
            for act in (["cancel", 6], ["panic", 8]):
                res.append({"api": api, "workers": 1, "gen": [["send", 1]], "maps": {"1": [act]}, "red": [],
                            "events": [["r"], ["g"], ["m", 1]]})
        # Finish: a function returns nil (early), another fails / panics later; FinishVoid / ForEach: one returns, another panics later
        res += [
            {"api": "finish", "workers": 3, "gen": [["send", 0], ["send", 1], ["send", 2]], "maps": {"0": [], "1": [["cancel", 7]], "2": [["cancel", 1011]]},
             "red": [], "events": [["m", 1]]},
            {"api": "finish", "workers": 2, "gen": [["send", 0], ["send", 1]], "maps": {"0": [], "1": [["panic", 4]]}, "red": [], "events": []},
            {"api": "finishvoid", "workers": 2, "gen": [["send", 0], ["send", 1]], "maps": {"0": [], "1": [["panic", 4]]}, "red": [], "events": []},
            {"api": "foreach", "workers": 2, "gen": [["send", 1], ["send", 2]], "maps": {"1": [], "2": [["panic", 4]]}, "red": [],
             "events": [["g"], ["g"], ["m", 1], ["m", 2]]},
        ]
        return res

    def _early_return(self, rng):
        """Generated counterpart of _early_return_corpus: the reducer returns before its pipe is closed (after 0..2 receives, maybe
        after its Write), released early; then 1..2 faults in still-running mappers / the generator / the context, shuffled with the
        remaining releases."""
        api = rng.choice(["void", "void", "mr", "chan"])
        n = rng.randint(2, 4)
        w = rng.choice([n, n, max(1, n - 1), n + 1])
        items = rng.sample(range(1, 40), n)
        gen = [["send", x] for x in items]
        fan = rng.randint(0, 2)
        maps = {str(x): [["write", 100 * x + j] for j in range(fan)] for x in items}
        red = [["recv"]] * rng.randint(0, 2) + ([["write", 777]] if api != "void" and rng.random() < 0.5 else [])
        red = copy.deepcopy(red)
        alive = items[:min(w, n)]
        pre = [["g"]] * len(alive)
        first = alive[0]
        pre += [["m", first]] * (len(maps[str(first)]) + 1) if rng.random() < 0.7 else []
        pre += [["r"]] * (len(red) + 1)
        late = []
        for _ in range(rng.randint(1, 2)):
            kind = rng.choice(["cancel", "cancel", "cancelnil", "panic", "ctx", "genpanic"])
            if kind == "ctx":
                late.append(["c"])
            elif kind == "genpanic" and api != "chan":
                gen.insert(rng.randint(len(alive), len(gen)), ["panic", rng.randint(1, 9)])
            else:
                act = {"cancel": ["cancel", rng.randint(1, 9)], "cancelnil": ["cancelnil"], "panic": ["panic", rng.randint(1, 9)],
                       "genpanic": ["panic", rng.randint(1, 9)]}[kind]
                cands = [x for x in alive if x != first] or alive
                sc = maps[str(rng.choice(cands))]
                sc.insert(rng.randint(0, len(sc)), act)
        toks = [["g"]] * (len(gen) + 1 - len(alive))
        for x in items:
            toks += [["m", x]] * (len(maps[str(x)]) + 1)
        for t in pre:
            if t in toks:
                toks.remove(t)
        toks += late
        rng.shuffle(toks)
        if rng.random() < 0.3:
            toks = toks[:rng.randint(0, len(toks))]
        return {"api": api, "workers": w, "gen": gen, "maps": maps, "red": red, "events": pre + toks, "family": "early_return"}

    def _value_corpus(self):
        """Addendum class 1 (sentinel VALUES), by construction: every error value of the vocabulary - typed nils, non-nil
        pointers, struct values, wrapped / bare sentinels of the package and of context, an error whose Error() panics - is
        passed to cancel by a mapper, by the reducer, returned by a Finish function and used as a panic value, through every
        API; the result must be that very value (seeded change C10-10: AtomicError.Set dropped typed nils, the call returned
        ErrReduceNoOutput).  Plus errorx.AtomicError driven directly (the retErr of a call is one)."""
        rw = [["recvall"], ["write", 777]]
        res = []
        # typed nils first: every API, mapper and reducer
        for k in TYPED_NILS:
            res += [
                {"api": "mr", "workers": 2, "gen": [["send", 1], ["send", 2]], "maps": {"1": [["write", 10]], "2": [["cancel", k]]}, "red": rw, "events": []},
                {"api": "void", "workers": 1, "gen": [["send", 1]], "maps": {"1": [["write", 3]]}, "red": [["recv"], ["cancel", k], ["recvall"]], "events": []},
                {"api": "chan", "workers": 1, "gen": [["send", 1]], "maps": {"1": [["cancel", k]]}, "red": rw, "events": []},
                {"api": "finish", "workers": 2, "gen": [["send", 0], ["send", 1]], "maps": {"0": [], "1": [["cancel", k]]}, "red": [], "events": []},
                {"api": "mr", "workers": 1, "gen": [["send", 1]], "maps": {"1": []}, "red": [["cancel", k], ["recvall"], ["write", 777]], "events": []},
                # the typed nil arrives second, blocked at the once behind an ordinary cancel; and first, with cancel(nil) second
                {"api": "mr", "workers": 2, "gen": [["send", 1], ["send", 2]], "maps": {"1": [["cancel", 5]], "2": [["cancel", k]]},
                 "red": rw, "events": [["g"], ["g"], ["m", 1], ["m", 2], ["g"]]},
                {"api": "mr", "workers": 2, "gen": [["send", 1], ["send", 2]], "maps": {"1": [["cancel", k]], "2": [["cancelnil"]]},
                 "red": rw, "events": [["g"], ["g"], ["m", 1], ["m", 2], ["g"]]},
                # a typed nil cancel under a context that ends afterwards
                {"api": "void", "workers": 1, "gen": [["send", 1]], "maps": {"1": [["cancel", k]]}, "red": [["recvall"]],
                 "events": [["g"], ["m", 1], ["c"]]},
            ]
        apis = ["mr", "void", "chan", "finish"]
        for i, k in enumerate(SENTINELS):
            api = apis[i % 4]
            if api == "finish":
                res.append({"api": "finish", "workers": 2, "gen": [["send", 0], ["send", 1]], "maps": {"0": [["cancel", k]], "1": []}, "red": [], "events": []})
            else:
                res.append({"api": api, "workers": 1, "gen": [["send", 1]], "maps": {"1": [["cancel", k]]},
                            "red": [["recvall"]] if api == "void" else rw, "events": []})
            api2 = ["mr", "void", "chan"][(i + 1) % 3]
            res.append({"api": api2, "workers": 1, "gen": [["send", 1]], "maps": {"1": [["write", 4]]},
                        "red": [["recv"], ["cancel", k], ["recvall"]], "events": []})
        for i, k in enumerate(PANIC_CODES):
            where = i % 3
            api = ["mr", "void", "foreach", "finish", "finishvoid"][i % 5]
            if api in ("finish", "finishvoid"):
                res.append({"api": api, "workers": 2, "gen": [["send", 0], ["send", 1]], "maps": {"0": [], "1": [["panic", k]]}, "red": [], "events": []})
            elif api == "foreach":
                res.append({"api": api, "workers": 1, "gen": [["send", 1]] + ([["panic", k]] if where == 2 else []),
                            "maps": {"1": [] if where == 2 else [["panic", k]]}, "red": [], "events": []})
            else:
                red = [["recvall"]] if api == "void" else list(rw)
                c = {"api": api, "workers": 1, "gen": [["send", 1]], "maps": {"1": []}, "red": red, "events": []}
                if where == 0:
                    c["maps"]["1"] = [["panic", k]]
                elif where == 1:
                    c["red"] = [["recv"], ["panic", k]]
                else:
                    c["gen"] = [["send", 1], ["panic", k]]
                res.append(c)
        # an error VALUE as a late panic (after the reducer's output was taken: the deferred loop re-raises it)
        for k in (1011, 1008, 1013, 2000):
            res.append({"api": "mr", "workers": 1, "gen": [["send", 1]], "maps": {"1": []}, "red": [["write", 42], ["panic", k]],
                        "events": [["g"], ["g"], ["m", 1], ["r"], ["r"]]})
            res.append({"api": "mr", "workers": 2, "gen": [["send", 1]], "maps": {"1": [["panic", k]]}, "red": [["write", 42]],
                        "events": [["g"], ["g"], ["r"], ["r"], ["m", 1]]})
        # errorx.AtomicError itself
        res += [
            atomic_case([["load"], ["set", None], ["load"], ["set", 1011], ["load"], ["set", None], ["load"], ["set", 1008], ["load"],
                         ["set", 1011], ["load"]]),
            atomic_case([["set", 1015], ["load"], ["set", 1015], ["load"]]),
            atomic_case([["set", 1016], ["load"], ["set", 1012], ["load"], ["set", None], ["load"]]),
            atomic_case([["set", 1017], ["load"], ["set", 1001], ["load"], ["set", 1008], ["load"], ["set", None], ["load"]]),
            atomic_case([["set", 0], ["load"], ["set", 7], ["load"], ["set", 1004], ["load"]]),
            atomic_case([["conc", [1011, 1008, None, 1018]], ["load"], ["conc", [None, None]], ["load"], ["conc", [1011]], ["load"]]),
            atomic_case([["conc", [None, None, None]], ["load"], ["conc", [3, 4, 5, None]], ["set", None], ["load"]]),
            atomic_case([["set", 1013], ["load"], ["conc", [1013, None]], ["load"]]),
            atomic_case([["set", 1020], ["load"], ["set", 1019], ["load"], ["conc", [1019, 1020, None]], ["load"], ["set", 1021], ["load"]]),
            atomic_case([["conc", [1021, None]], ["load"], ["set", 1021], ["load"]]),
            atomic_case([["set", 1008], ["conc", [1011, 1018, 1008]], ["load"], ["conc", [1018, 1011]], ["load"]]),
        ] + [atomic_case([["set", k], ["load"], ["set", None], ["load"]]) for k in SENTINELS]
        return res

    def _atomic(self, rng):
        """A random Set / Load / concurrent-Set history on one AtomicError; mostly one concrete type (no sync/atomic panic),
        sometimes mixed."""
        groups = [[1008, 1011, 1018], [1019, 1020], [1021], [1022], [1012, 1016], [1001, 1002, 1003, 1007, 1009, 1017], [1005, 1006, 1010, 1014], [1, 2, 3, 0], [1015],
                  [1013], [1004]]
        g = rng.choice(groups)
        mixed = rng.random() < 0.25
        def val():
            r = rng.random()
            if r < 0.25:
                return None
            if mixed and r < 0.45:
                return rng.choice(rng.choice(groups))
            return rng.choice(g)
        ops = []
        for _ in range(rng.randint(2, 8)):
            r = rng.random()
            if r < 0.45:
                ops += [["set", val()], ["load"]] if rng.random() < 0.7 else [["set", val()]]
            elif r < 0.7:
                ops.append(["load"])
            else:
                ops += [["conc", [val() for _ in range(rng.randint(1, 4))]]]
        return atomic_case(ops + [["load"]])

    RED_PATTERNS = [
        [["recvall"], ["write", 777]], [["recvall"], ["write", 777]], [["recvall"], ["write", 777]],
        [["write", 777], ["recvall"]], [["recvall"]], [["recv"], ["write", 777]],
        [["recvall"], ["write", 1], ["write", 2]], [], [["recv"], ["recv"], ["write", 5], ["recvall"]],
    ]

    def gen(self, rng, n, tier):
        # 40 % window families (a library-internal sequence held open by a stalled user function, other user
        # functions acting inside it), 12 % stragglers (a cancel / context end while a mapper or the reducer stays parked
        # for ever: the call must return without it), the rest free shuffles; then option / error-value variants
        def pick():
            r = rng.random()
            if r < 0.05:
                return self._held_caller(rng)
            if r < 0.09:
                return self._atomic(rng)
            if r < 0.16:
                return self._early_return(rng)
            return self._family(rng) if r < 0.44 else (self._straggler(rng) if r < 0.55 else self._one(rng))
        return [self._variants(rng, pick()) for _ in range(n)]

    def _held_caller(self, rng):
        """The caller is held at the entry of its final select (a context whose Done() parks the caller goroutine)
        while everything else runs as far as it can; then the caller is released.  A panic raised meanwhile must still
        be re-raised: it must be undelivered-but-blocking (the WaitGroup / the source held) so that output cannot close
        before the caller receives it.  Go's select picks at random among ready cases: the schedule is repeated."""
        api = rng.choice(["mr", "mr", "mr", "void", "chan"])
        n = rng.randint(1, 3)
        w = rng.choice([n, n + 1, max(1, n - 1)])
        items = rng.sample(range(1, 40), n)
        gen = [["send", x] for x in items]
        fan = rng.randint(0, 2)
        maps = {str(x): [["write", 100 * x + j] for j in range(fan)] for x in items}
        red = copy.deepcopy(rng.choice([[["recvall"]], [["recvall"]], [["recvall"], ["write", 777]], [["recv"], ["recvall"], ["write", 777]], []]))
        if api == "void":
            red = [a for a in red if a[0] != "write"]
        where = rng.choice(["map"] * 5 + ["red"] + ([] if api == "chan" else ["gen"]))
        act = ["panic", rng.randint(1, 9)]
        if where == "map":
            sc = maps[str(rng.choice(items))]
            sc.insert(rng.randint(0, len(sc)), act)
        elif where == "red":
            red.insert(rng.randint(0, len(red)), act)
        else:
            gen.insert(rng.randint(0, len(gen)), act)
        # a second fault in a mapper (a generator panic that is still undelivered when a mapper panics can be overtaken
        # in the LTS - Pinned.generator_panic_can_be_overtaken - but only by preempting the dispatcher between spawn
        # and its loop head, which gates cannot do: 40/40 forced runs re-raise the generator's panic)
        if rng.random() < 0.35:
            second = rng.choice([["cancel", rng.randint(1, 9)], ["cancelnil"], ["panic", 10 + rng.randint(1, 9)]])
            sc = maps[str(rng.choice(items))]
            sc.insert(rng.randint(0, len(sc)), second)
        toks = [["g"]] * (len(gen) + 1) + [["r"]] * (len(red) + 1)
        for x in items:
            toks += [["m", x]] * (len(maps[str(x)]) + 1)
        rng.shuffle(toks)
        if rng.random() < 0.6:
            toks.sort(key=lambda t: 0 if t[0] == "g" and rng.random() < 0.8 else 1)
        k = len(toks) if rng.random() < 0.7 else rng.randint(0, len(toks))
        toks = toks[:k] + [["k"]] + toks[k:]
        return {"api": api, "workers": w, "ctx": "gate", "repeat": 4, "gen": gen, "maps": maps, "red": red, "events": toks,
                "family": "held_caller"}

    def _straggler(self, rng):
        """The generator runs to its end; one mapper invocation or the reducer is never released by the events (only by
        the clean-up tail); a cancel call of another function, or the context end, happens meanwhile.  Promptness: the
        call must have returned at the quiescence after the cancellation (prop_ok / Props.prompt_after_cancel)."""
        api = rng.choice(["mr"] * 4 + ["void", "chan", "finish"])
        n = rng.randint(2, 4)
        auto = api == "finish"
        w = n if auto else rng.choice([n, n, n + 1, max(1, n - 1)])
        items = list(range(n)) if auto else rng.sample(range(1, 40), n)
        gen = [["send", x] for x in items]
        fan = 0 if auto else rng.randint(0, 2)
        maps = {str(x): [["write", 100 * x + j] for j in range(fan)] for x in items}
        red = [] if auto else copy.deepcopy(rng.choice([[["recvall"], ["write", 777]], [["recvall"]], [["recv"], ["write", 777]],
                                                        [["recv"], ["recvall"]]]))
        if api == "void":
            red = [a for a in red if a[0] != "write"]
        alive = items[:min(w, n)]                       # the invocations that exist once the pool is full
        who = rng.choice(["map"] * 3 + ([] if auto else ["red", "ctx", "ctx"]))
        cerr = ["cancel", rng.randint(1, 9)] if (auto or rng.random() < 0.7) else ["cancelnil"]
        straggler = rng.choice(["map"] * 3 + ([] if auto or who == "red" else ["red"]))
        if who == "map":
            a = alive[0]
            maps[str(a)] = [cerr] if auto else maps[str(a)] + [cerr] if rng.random() < 0.3 else [cerr] + maps[str(a)]
        elif who == "red":
            red.insert(rng.randint(0, min(1, len(red))), cerr)
        stuck_item = None
        if straggler == "map":
            cands = [x for x in alive if not (who == "map" and x == alive[0])]
            if not cands:
                straggler = "red" if not auto and who != "red" else "none"
            else:
                stuck_item = rng.choice(cands)
        toks = []
        for x in alive:
            if x != stuck_item:
                toks += [["m", x]] * (len(maps[str(x)]) + (0 if auto else 1))
        if not auto and straggler != "red":
            toks += [["r"]] * (len(red) + 1)
        rng.shuffle(toks)
        if who == "ctx":
            toks.insert(rng.randint(0, len(toks)), ["c"])
        pre = [] if auto else [["g"]] * (len(gen) + 1)
        if not auto and rng.random() < 0.3:             # the generator ends only after the cancellation
            k = rng.randint(0, len(toks))
            toks = toks[:k] + [pre.pop()] + toks[k:]
        return {"api": api, "workers": w, "gen": gen, "maps": maps, "red": red, "events": pre + toks, "family": "straggler_" + straggler}

    def _variants(self, rng, case):
        """Options drawn from {absent, default, 0, negative, repeated}, context modes {passed, absent, already
        cancelled, deadline already exceeded}, and error values passed to cancel that go-zero / the standard library
        treat specially (sentinels bare and wrapped, another concrete error type)."""
        api = case["api"]
        if api == "atomic":
            return case
        auto = api in ("finish", "finishvoid")
        if not auto:
            w = case["workers"]
            if w == 1 and rng.random() < 0.3:
                case["workers"] = rng.choice([0, -3])          # clamped to minWorkers
            elif w >= 16 or (w > 0 and rng.random() < 0.05 and
                             sum(1 for a in case["gen"] if a[0] == "send") <= w):
                pass
            if rng.random() < 0.08:
                case["workers_first"] = rng.randint(-1, 5)     # an earlier WithWorkers: the last one wins
            r = rng.random() if "ctx" not in case else 1.0
            if r < 0.08:
                case["ctx"] = "none"
                case["events"] = [e for e in case["events"] if e != ["c"]]
            elif r < 0.16:
                case["ctx"] = "pre"
            elif r < 0.24:
                case["ctx"] = "expired"
        scripts = [case["red"]] + list(case["maps"].values())
        has_nil = any(a[0] == "cancelnil" for sc in scripts for a in sc)
        ctx_may_end = ["c"] in case["events"] or case.get("ctx") in ("pre", "expired")
        for sc in scripts:
            for a in sc:
                if a[0] == "cancel" and a[1] < 1000 and rng.random() < 0.3:
                    k = rng.choice(SENTINELS)
                    if k == 1001 and has_nil:
                        k = 1010                 # cancel(nil) returns the very same value as cancel(ErrCancelWithNil)
                    if k == 1004 and ctx_may_end:
                        k = 1006                 # the ctx branch returns the very same value context.DeadlineExceeded
                    if k in NOOUTPUT_CODES and api in ("void", "finish") and not self.void_nooutput:
                        k = 1007
                    a[1] = k
        # panic VALUES: errors of the vocabulary (typed nils, sentinels), panic(nil), a string
        for sc in scripts + [case["gen"]]:
            for a in sc:
                if a[0] == "panic" and a[1] < 1000 and rng.random() < 0.2:
                    a[1] = rng.choice(PANIC_CODES)
        return case

    # ---- window families -------------------------------------------------------------------------------
    # Library-internal sequences of core/mr that a user callback can hold open (enumerated from
    # mapreduce.go; each is an action boundary of the LTS):
    #  cancel body        retErr.Set | drain(source) ... | finish()          held by the generator (stalls / keeps sending)
    #  once               second cancel caller blocks in once.Do             held by the first caller's drain
    #  ctx branch         panicChan.close | cancel(...) ... | return         held by the generator / another canceller
    #  reducer epilogue   drain(collector) ... | panicChan.write | finish()  held by running mappers (wg.Wait before close(collector))
    #  executeMappers     pool<- | <-source ... | wg.Add, spawn              held by the generator
    #  executeMappers exit wg.Wait ... | close(collector) | drain(source) ...  held by mappers, then by the generator
    #  mapper epilogue    failed++ | panicChan.write ... | wg.Done | <-pool  held by the caller not receiving (quit releases)
    #  generator epilogue panicChan.write ... | close(source)                same
    #  caller, panic      drain(output) ... | panic(v) | deferred loop       held by the reducer function / by mappers via the epilogue
    #  caller, value      value received | deferred wait for close(output)   held by the reducer function (second Write, panics, cancels)
    #  guardedWriter      done-check | send ...                              held by a full collector (reducer not reading)
    SETUPS = ["mapper_cancel", "reducer_cancel", "ctx_cancel", "reducer_returns", "reducer_panics", "mapper_panics",
              "reducer_writes", "generator_panics", "full_collector", "two_cancels", "exec_slot"]

    def _family(self, rng):
        setup = rng.choice(self.SETUPS)
        api = rng.choice(["mr"] * 5 + ["chan", "void"])
        w = rng.randint(1, 3)
        if rng.random() < 0.06:
            w = -1                                  # no WithWorkers option: defaultWorkers
        weff = self.consts["defaultWorkers"] if w < 0 else w
        spawned = min(weff, rng.randint(1, 3))      # mappers alive when the window opens
        extra = rng.randint(0, 2)                   # items the generator still holds when the window opens
        items = rng.sample(range(1, 40), spawned + extra)
        fan = rng.randint(0, 2)
        gen = [["send", x] for x in items]
        maps = {str(x): [["write", 100 * x + j] for j in range(fan)] for x in items}
        early = [[["recv"], ["write", 777], ["recvall"]], [["write", 777], ["recvall"]], [["recv"], ["recv"], ["write", 5]],
                 [["recv"], ["write", 777]], [["recvall"], ["write", 777]], [["recv"]], []]
        red = copy.deepcopy(rng.choice(early))
        a, b = str(items[0]), str(items[-1 if spawned + extra > 1 else 0])
        cerr = ["cancel", rng.randint(1, 9)] if rng.random() < 0.7 else ["cancelnil"]
        pre = [["g"]] * spawned                     # the first `spawned` sends complete, the generator parks again
        opener = []
        if setup == "mapper_cancel":
            maps[a].insert(rng.randint(0, len(maps[a])), cerr)
            opener = [["m", items[0]]] * (maps[a].index(cerr) + 1)
        elif setup == "reducer_cancel":
            k = rng.randint(0, len(red))
            red.insert(k, cerr)
            opener = [["r"]] * (k + 1)
        elif setup == "ctx_cancel":
            opener = [["c"]]
        elif setup == "reducer_returns":
            red = copy.deepcopy(rng.choice([[], [["write", 777]], [["recv"]]]))
            opener = [["r"]] * (len(red) + 1)
            for x in items:                          # more values than the collector buffers
                maps[str(x)] = [["write", 100 * x + j] for j in range(rng.randint(1, 3))]
        elif setup == "reducer_panics":
            red = copy.deepcopy(rng.choice([[], [["write", 777]], [["recv"]]])) + [["panic", rng.randint(1, 9)]]
            opener = [["r"]] * len(red)
        elif setup == "mapper_panics":
            k = rng.randint(0, len(maps[a]))
            maps[a].insert(k, ["panic", rng.randint(1, 9)])
            opener = [["m", items[0]]] * (k + 1)
        elif setup == "reducer_writes":
            red = [["write", 777]] + copy.deepcopy(rng.choice([[], [["recvall"]], [["write", 778]], [["recv"], ["cancel", 4]],
                                                                   [["panic", 6]], [["recvall"], ["write", 778]]]))
            opener = [["r"]]
        elif setup == "generator_panics":
            api = "mr" if api == "chan" else api     # the source of MapReduceChan is the user's own goroutine
            gen.insert(spawned, ["panic", rng.randint(1, 9)])
            opener = [["g"]]
        elif setup == "full_collector":
            w = 1 if w > 0 else w
            x = items[0]
            maps[str(x)] = [["write", 100 * x + j] for j in range(weff + 2 if w < 0 else 3)]
            pre = [["g"]]
            opener = [["m", x]] * (len(maps[str(x)]))
        elif setup == "two_cancels":
            maps[a].insert(0, cerr)
            other = ["cancel", 10 + rng.randint(1, 9)] if rng.random() < 0.8 else ["cancelnil"]
            if b != a:
                maps[b].insert(0, other)
            else:
                red.insert(0, other)
            opener = [["m", items[0]]]
        elif setup == "exec_slot":
            # nothing sent yet: executeMappers holds a pool slot and waits in <-source
            pre = []
            opener = copy.deepcopy(rng.choice([[["c"]], [["r"]] * (len(red) + 1)]))
            if opener[0] == ["r"] and rng.random() < 0.6:
                red.insert(0, cerr)
        if api == "void" and setup in ("reducer_returns", "reducer_panics", "reducer_writes", "reducer_cancel", "exec_slot"):
            api = "mr"          # these windows are about the reducer's output
        if api == "void":
            red = [x for x in red if x[0] != "write"]
        # intruders: up to two more faults somewhere, and maybe the context
        for _ in range(rng.choice([0, 0, 1, 1, 2])):
            kind = rng.choice(["panic", "cancel", "cancelnil", "ctx", "ctx"])
            if kind == "ctx":
                continue
            act = {"panic": ["panic", rng.randint(1, 9)], "cancel": ["cancel", 20 + rng.randint(1, 9)], "cancelnil": ["cancelnil"]}[kind]
            where = rng.choice(["map"] * 3 + ["red"] + (["gen"] if kind == "panic" and api != "chan" else []))
            if where == "gen":
                gen.insert(rng.randint(min(spawned, len(gen)), len(gen)), act)
            elif where == "red":
                red.insert(rng.randint(0, len(red)), act)
            else:
                sc = maps[str(rng.choice(items))]
                sc.insert(rng.randint(0, len(sc)), act)
        # window: everything that is left, shuffled; the holder of the window stalls (its tokens come late or never)
        toks = [["g"]] * (len(gen) + 1) + [["r"]] * (len(red) + 1)
        for x in items:
            toks += [["m", x]] * (len(maps[str(x)]) + 1)
        for t in pre + opener:
            if t in toks:
                toks.remove(t)
        rng.shuffle(toks)
        holder = {"mapper_cancel": "g", "reducer_cancel": "g", "ctx_cancel": "g", "two_cancels": "g", "exec_slot": "g",
                  "reducer_returns": "m", "reducer_panics": "m", "generator_panics": "m", "mapper_panics": "r",
                  "reducer_writes": "r", "full_collector": "r"}[setup]
        style = rng.random()
        if style < 0.6:
            keep = [t for t in toks if t[0] != holder]
            late = [t for t in toks if t[0] == holder]
            cut = rng.randint(0, len(keep))
            toks = keep[:cut] + ([] if style < 0.15 else late[:rng.randint(0, len(late))] + keep[cut:] + late)
        if rng.random() < 0.4:
            toks.insert(rng.randint(0, len(toks)), ["c"])
        if rng.random() < 0.25:
            toks = toks[:rng.randint(0, len(toks))]
        return {"api": api, "workers": w, "gen": gen, "maps": maps, "red": red, "events": pre + opener + toks, "family": setup}

    def _one(self, rng):
        api = rng.choice(["mr"] * 6 + ["void", "chan", "foreach", "finish", "finishvoid"])
        workers = rng.randint(1, 4)
        nitems = rng.randint(0, workers + 3)
        fan = rng.randint(0, 2)
        auto = api in ("finish", "finishvoid")
        fe = api in ("foreach", "finishvoid")
        if auto:
            items = list(range(nitems))
            workers = nitems
        else:
            items = rng.sample(range(1, 40), nitems)
        gen = [["send", x] for x in items]
        maps = {}
        for x in items:
            maps[str(x)] = [] if (auto or fe) else [["write", 100 * x + j] for j in range(fan)]
        red = [] if (fe or auto) else copy.deepcopy(rng.choice(self.RED_PATTERNS))
        if api == "void":
            red = [a for a in red if a[0] != "write"]
        events = []
        nfaults = rng.choice([0, 1, 1, 1, 1, 2, 2])
        for _ in range(nfaults):
            kinds = ["panic"]
            if not fe:
                kinds += ["cancel", "cancelnil"] + ([] if auto else ["ctx", "ctx"])
            elif api == "foreach":
                kinds += ["ctx"]
            kind = rng.choice(kinds)
            if kind == "ctx":
                events.append(["c"])
                continue
            act = {"panic": ["panic", rng.randint(1, 9)], "cancel": ["cancel", rng.randint(1, 9)],
                   "cancelnil": ["cancelnil"]}[kind]
            if auto:
                if kind == "cancelnil" or not items:
                    continue
                if api == "finishvoid" and kind != "panic":
                    continue
                maps[str(rng.choice(items))] = [act]
                continue
            where = ["map"] * 4 + (["red"] * 2 if not fe else []) + (["gen"] if kind == "panic" and api != "chan" else [])
            w = rng.choice(where)
            if w == "map" and not items:
                w = "red" if not fe else "gen"
                if w == "gen" and (kind != "panic" or api == "chan"):
                    continue
            if w == "gen":
                gen.insert(rng.randint(0, len(gen)), act)
            elif w == "red":
                red.insert(rng.randint(0, len(red)), act)
            else:
                s = maps[str(rng.choice(items))]
                s.insert(rng.randint(0, len(s)), act)
        # release order: a weighted random interleaving; some functions are stalled to the end
        toks = []
        if not auto:
            toks += [["g"]] * (len(gen) + 1)
        for x in items:
            toks += [["m", x]] * (len(maps[str(x)]) + (0 if auto else 1))
        if not fe and not auto:
            toks += [["r"]] * (len(red) + 1)
        style = rng.random()
        if style < 0.25:
            pass                      # generator first, then mappers in order, then reducer
        else:
            rng.shuffle(toks)
            if style < 0.6:
                # keep the generator early so that mappers exist when they are released
                toks.sort(key=lambda t: 0 if t[0] == "g" and rng.random() < 0.7 else 1)
        if rng.random() < 0.35 and toks:
            stalled = rng.choice(toks)
            toks = [t for t in toks if t != stalled]      # released only in the tail
        for ev in events:
            toks.insert(rng.randint(0, len(toks)), ev)
        if rng.random() < 0.3:
            toks = toks[:rng.randint(0, len(toks))]
        return {"api": api, "workers": workers, "gen": gen, "maps": maps, "red": red, "events": toks}

    # ------------------------------------------------------------------ run
    def execute(self, cases, ctx):
        rc, out, res = vlib.go_run(self.bin, cases, tag="c10", timeout=900)
        if rc != 0 or len(res) != len(cases):
            raise ExecError("c10 executor rc=%s: %s" % (rc, out[-2000:]))
        # a hang or a leak under a forced schedule is deterministic: re-run such cases alone in a
        # fresh process and keep the observation only if it persists (guards against a loaded machine
        # disturbing the quiescence detection)
        # the same for an observation in which the call returned later than the cancellation allows
        def suspicious(c, r):
            return (r.get("result") is None or r.get("census")
                    or (r.get("fired") and self._late_return(c, r) is not None))
        sus = [i for i, r in enumerate(res) if not r.get("err") and suspicious(cases[i], r)]
        if sus and len(sus) <= 40:
            rc2, out2, res2 = vlib.go_run(self.bin, [cases[i] for i in sus], tag="c10r", timeout=600)
            if rc2 == 0 and len(res2) == len(sus):
                for i, r2 in zip(sus, res2):
                    if not r2.get("err") and not suspicious(cases[i], r2):
                        ctx.notes.append("case %s: hang/leak/late return not reproduced on re-run (discarded first observation: result=%s census=%s fired=%s %s)"
                                         % (cases[i].get("id"), res[i].get("result"), res[i].get("census"), res[i].get("fired"),
                                            (res[i].get("stacks") or "")[:600]))
                        res[i] = r2
        obs = []
        for r in res:
            if r.get("err"):
                raise ExecError("c10 executor: case %s: %s" % (r.get("id"), r["err"]))
            obs.append({k: r.get(k) for k in ("fired", "acts", "events", "result", "mapped", "reduced", "peak", "census", "stacks", "aobs")})
        return obs

    # ------------------------------------------------------------------ Coq rendering
    def _act(self, a):
        k = a[0]
        if k == "send":
            return "USend %s" % cz(a[1])
        if k == "write":
            return "UWrite %s" % cz(a[1])
        if k == "cancel":
            return "UCancel (Some %s)" % cz(a[1])
        if k == "cancelnil":
            return "UCancel None"
        if k == "panic":
            return "UPanic %s" % cz(a[1])
        if k == "recv":
            return "URecv"
        return "URecvAll"

    def _script(self, s):
        return clist([self._act(a) for a in s])

    def _event(self, e):
        return {"g": "EvGen", "r": "EvRed", "c": "EvCtx", "k": "EvCaller"}.get(e[0]) or ("EvMap %s" % cz(e[1]))

    def _result(self, r):
        if r is None:
            return "None"
        k = r[0]
        t = {"nooutput": "ONoOutput", "cancelnil": "OErr ECancelNil", "ctx": "OErr ECtx", "panicmulti": "OPanic PMulti",
             "panicclosed": "OPanic PClosed", "unit": "OUnit"}.get(k)
        if t is None:
            if k == "val":
                t = "OVal %s" % cz(r[1])
            elif k == "cancel":
                t = "OErr (ECancel %s)" % cz(r[1])
            elif k == "panic":
                t = "OPanic (PUser %s)" % cz(r[1])
            else:       # an error / panic value that nobody passed in: never allowed
                t = "OErr (ECancel (-1))"
        return "(Some (%s))" % t

    def _workers(self, case):
        # a negative count = no WithWorkers option: the regenerated defaultWorkers
        # the last WithWorkers option wins; none at all = the regenerated defaultWorkers
        w = case["workers"] if case["workers"] != -1 else case.get("workers_first", -1)
        if case["workers"] == -1 and "workers_first" not in case:
            return "gen_defaultWorkers"
        return nat(max(0, w))

    @staticmethod
    def _goerr(k):
        if k is None:
            return "None"
        if k == -1:             # a value that is none of the vocabulary
            return "(Some (mkDyn (-1) (PVal (-1))))"
        return "(Some (dyn_of_code %s))" % cz(k)

    def _aops(self, case, obs):
        res = []
        for op, ob in zip(case["aops"], obs["aobs"]):
            p = cbool(bool(ob[0]))
            if op[0] == "set":
                res.append("ASet %s %s" % (self._goerr(op[1]), p))
            elif op[0] == "load":
                res.append("ALoad %s" % self._goerr(ob[1]))
            else:
                res.append("AConc %s %s %s %s" % (clist([self._goerr(v) for v in op[1]]), clist([self._goerr(v) for v in (ob[2] if len(ob) > 2 else [])]),
                                                  p, self._goerr(ob[1])))
        return clist(res)

    def coq_case(self, case, obs):
        if case["api"] == "atomic":
            if len(obs.get("aobs") or []) != len(case["aops"]):
                raise ExecError("c10 executor: atomic case %s: %d observations for %d ops" % (case.get("id"), len(obs.get("aobs") or []), len(case["aops"])))
            return "mkCase AAtomic 0%%nat [] [] [] [] false false [] [] (Some OUnit) [] [] 0%%nat 0%%nat %s" % self._aops(case, obs)
        maps = clist(["(%s, %s)" % (cz(int(k)), self._script(v)) for k, v in sorted(case["maps"].items(), key=lambda kv: int(kv[0]))])
        fired = clist(["(%s, %s)" % (cbool(f), cbool(r)) for f, r in obs["fired"]])
        return "mkCase %s %s %s %s %s %s %s %s %s %s %s %s %s %s %s" % (
            APIS[case["api"]], self._workers(case), self._script(case["gen"]), maps, self._script(case["red"]),
            clist([self._event(e) for e in obs["events"]]), cbool(case.get("ctx") in ("pre", "expired")),
            cbool(case.get("ctx") == "gate"),
            fired, clist([nat(a) for a in obs["acts"]]),
            self._result(obs["result"]), clist([cz(x) for x in obs["mapped"]]), clist([cz(x) for x in obs["reduced"]]),
            nat(obs["peak"]), nat(max(0, obs["census"]))) + " []"

    # ------------------------------------------------------------------ evidence
    def nontrivial(self, case, obs):
        fault = 2 in obs["acts"] or 4 in obs["acts"]
        nitems = sum(1 for a in case["gen"] if a[0] == "send")
        fan = max([sum(1 for a in s if a[0] == "write") for s in case["maps"].values()] or [0])
        return len(obs["mapped"]) >= 2 and (fault or (nitems > max(1, case["workers"]) and fan >= 1 and case["workers"] >= 0))

    def features(self, case, obs):
        fs = ["api=" + case["api"], "workers=%d" % case["workers"], "family=" + case.get("family", "shuffle"),
              "ctx=" + (case.get("ctx") or "passed"),
              "items=%d" % sum(1 for a in case["gen"] if a[0] == "send"),
              "result=" + (obs["result"][0] if obs["result"] else "hang"),
              "faults_executed=%d" % min(3, obs["acts"].count(2) + obs["acts"].count(4))]
        if case["api"] == "atomic":
            vals = [v for op in case["aops"] if op[0] != "load" for v in (op[1] if op[0] == "conc" else [op[1]])]
            return fs[:3] + ["atomic_ops=%d" % min(8, len(case["aops"]))] + sorted({"atomic_set_%s" % ("nil" if v is None else ("typed_nil" if v in TYPED_NILS else "value")) for v in vals}) \
                + (["atomic_concurrent_sets"] if any(op[0] == "conc" for op in case["aops"]) else []) \
                + (["atomic_store_panic"] if any(ob[0] for ob in obs.get("aobs") or []) else [])
        allacts = [a[0] for s in [case["gen"], case["red"]] + list(case["maps"].values()) for a in s]
        for sc in [case["gen"], case["red"]] + list(case["maps"].values()):
            for a in sc:
                if a[0] == "panic" and (a[1] >= 1000 or a[1] == 0):
                    fs.append("panic_value_%d" % a[1])
                if a[0] == "cancel" and a[1] in TYPED_NILS:
                    fs.append("cancel_typed_nil")
        for k in ("cancel", "cancelnil", "panic"):
            if k in allacts:
                fs.append("has_" + k)
        for sc in [case["red"]] + list(case["maps"].values()):
            for a in sc:
                if a[0] == "cancel" and a[1] >= 1000:
                    fs.append("cancel_sentinel_%d" % a[1])
        if "workers_first" in case:
            fs.append("workers_option_twice")
        if ["c"] in case["events"]:
            fs.append("has_ctx_end")
        if any(a[0] == "panic" for a in case["gen"]):
            fs.append("gen_panic")
        if any(a[0] in ("panic", "cancel", "cancelnil") for a in case["red"]):
            fs.append("red_fault")
        # a fault executed after the call had returned (late fault: the F4 shape)
        ret = [r for _, r in obs["fired"]]
        if any(k in (2, 4) and i > 0 and ret[i - 1] for i, k in enumerate(obs["acts"])):
            fs.append("late_fault_after_return")
        if obs["census"] != 0:
            fs.append("leak")
        return fs

    def shrink_candidates(self, case):
        res = []
        if case["api"] == "atomic":
            for i in range(len(case["aops"])):
                c = copy.deepcopy(case)
                del c["aops"][i]
                res.append(c)
            return res
        ev = case["events"]
        n = len(ev)
        chunk = max(1, n // 2)
        while n and chunk >= 1:
            for i in range(0, n, chunk):
                c = copy.deepcopy(case)
                c["events"] = ev[:i] + ev[i + chunk:]
                res.append(c)
            if chunk == 1:
                break
            chunk //= 2
        # drop one item (generator send + its script), one action of a script
        sends = [a for a in case["gen"] if a[0] == "send"]
        if case["api"] not in ("finish", "finishvoid"):
            for a in sends:
                c = copy.deepcopy(case)
                c["gen"] = [b for b in c["gen"] if b != a]
                c["maps"].pop(str(a[1]), None)
                c["events"] = [e for e in c["events"] if e != ["m", a[1]]]
                res.append(c)
            for key in ("gen", "red"):
                for i, a in enumerate(case[key]):
                    if a[0] != "send":
                        c = copy.deepcopy(case)
                        del c[key][i]
                        res.append(c)
            for k, s in case["maps"].items():
                for i in range(len(s)):
                    c = copy.deepcopy(case)
                    del c["maps"][k][i]
                    res.append(c)
            if case["workers"] > 1:
                c = copy.deepcopy(case)
                c["workers"] -= 1
                res.append(c)
        return res[:200]

    @staticmethod
    def _late_return(case, obs):
        """index of the first entry at which a cancel / context end had been executed, the generator had ended, and the
        call had not returned (mirror of Check.prompt_ok)"""
        if case["api"] in ("foreach", "finishvoid"):
            return None
        auto = case["api"] == "finish"
        ge = pd = cm = False
        held = case.get("ctx") == "gate"
        evs = [None] + list(obs["events"])
        for i, ((f, r), k) in enumerate(zip(obs["fired"], obs["acts"])):
            e = evs[i] if i < len(evs) else None
            isgen = e == ["g"]
            isctx = e is None or e == ["c"]
            ge = ge or (f and (k == 5 or (isgen and k == 2)))
            pd = pd or (f and (k == 4 or (k == 2 and isctx and not cm)))
            cm = cm or (f and (k == 3 or (k == 2 and not isctx)))
            held = held and not (f and e == ["k"])
            if pd and (auto or ge) and not held and not r:
                return i
        return None

    def describe_failure(self, case, obs):
        if case["api"] == "atomic":
            return ("errorx.AtomicError (the retErr of a MapReduce call): Set(nil) must be ignored and must not panic; Load must return - by "
                    "identity - one of the non-nil interface values Set so far (typed nils are such values), after a single Set that very "
                    "value, and nil only if there is none; ops=%s observed [panicked, loaded]=%s "
                    "(codes: tools/props/c10.py SENTINELS; 1011 / 1015 are typed nils, null = the nil interface, -1 = a value nobody Set)"
                    % (case["aops"], obs.get("aobs")))
        late = self._late_return(case, obs) if obs.get("fired") else None
        if late is not None and obs["result"] is not None:
            return ("the call waited for a straggling user function: a cancel call / the context end had been executed and the "
                    "generator had ended at entry %d of the log, but the call had not returned at that quiescence (it returned "
                    "only after further user functions were released); events=%s fired=%s acts=%s result=%s"
                    % (late, obs["events"], obs["fired"], obs["acts"], obs["result"]))
        if obs["result"] is None:
            return "the call did not return (deadlock); goroutines: %s" % (obs.get("stacks") or "")[:1500]
        if obs["census"] != 0:
            return ("%d goroutine(s) started by the call are still alive after every user function returned: %s"
                    % (obs["census"], (obs.get("stacks") or "")[:1500]))
        if obs["result"] and obs["result"][0] in ("val", "unit", "nooutput") and (2 in obs["acts"] or 4 in obs["acts"]):
            return ("a cancel / panic / context end was executed before the result was decided, but the call returned a "
                    "normal result (result=%s events=%s acts=%s; cancel codes 1011 / 1015 are typed nils - non-nil error values -, "
                    "see SENTINELS in tools/props/c10.py)" % (obs["result"], obs["events"], obs["acts"]))
        if obs["result"] and obs["result"][0] in ("other", "cancelnil", "cancel", "panic"):
            return ("the call returned an error / re-raised a panic value that is not - by identity - a value some user function "
                    "passed to cancel / panicked with (nor ErrCancelWithNil for cancel(nil), nor a context error after the context "
                    "ended): result=%s; scripts gen=%s maps=%s red=%s (codes >= 1000: SENTINELS in tools/props/c10.py); or exactly-once "
                    "mapping / the worker bound failed: mapped=%s reduced=%s peak=%s"
                    % (obs["result"], case["gen"], case["maps"], case["red"], obs["mapped"], obs["reduced"], obs["peak"]))
        return ("exactly-once mapping/reduction, the worker bound, or the allowed result set was violated "
                "(result=%s mapped=%s reduced=%s peak=%s)" % (obs["result"], obs["mapped"], obs["reduced"], obs["peak"]))

    # ------------------------------------------------------------------ free-running -race monitor
    def extra(self, ctx):
        if ctx.tier != "thorough":
            return []
        ok, res = vlib.go_build("c10", race=True)
        if not ok:
            raise ExecError("c10 -race build failed: %s" % res[-1500:])
        import random
        rng = random.Random(ctx.seed * 31 + 5)
        cases = list(self.corpus()) + [self._one(rng) for _ in range(1500)]
        for i, c in enumerate(cases):
            c["id"] = i
        rc, out, rs = vlib.go_run(res, cases, tag="c10free", timeout=900, env={"VERIF_FREE": "1"})
        fails = []
        if "DATA RACE" in out:
            blocks = [b for b in out.split("==================") if "DATA RACE" in b]
            # F13: finish() closes output while the reducer's guardedWriter.Write is between its
            # done-check and its send (reported as close/send race; consequence: "send on closed channel")
            f13 = [b for b in blocks if self._is_f13(b)]
            other = [b for b in blocks if b not in f13]
            if f13:
                fails.append({"what": "race detector: close(output) in finish() races with the send of guardedWriter.Write "
                                      "(reducer's Write concurrent with cancel): send on closed channel",
                              "replay": f13[0][-3000:], "known": "F13-reducer-write-races-with-close-output"})
            if other:
                fails.append({"what": "data race reported by the race detector in the free-running MapReduce harness",
                              "replay": other[0][-3000:]})
        if rc != 0 and not fails:
            raise ExecError("c10 free run rc=%s: %s" % (rc, out[-1500:]))
        for c, r in zip(cases, rs):
            why = self._free_monitor(c, r)
            if why:
                fails.append({"what": why, "replay": {"case": c, "observed": r}})
                if len(fails) >= 3:
                    break
        ctx.notes.append("free-running -race monitor: %d cases" % len(rs))
        return fails

    @staticmethod
    def _is_f13(block):
        """exactly the registered shape: one access is runtime.closechan called directly by a closure of
        mapReduceWithPanicChan under a sync.Once (finish(); not executeMappers' close(collector), whose caller is
        executeMappers.func1), the other is runtime.chansend called directly by guardedWriter.Write"""
        secs = re.split(r"\n(?=(?:Previous )?(?:[Ww]rite|[Rr]ead) at |Goroutine )", block)
        acc = [x for x in secs if re.match(r"(?:.*\n)?(?:Previous )?(?:[Ww]rite|[Rr]ead) at ", x)]
        if len(acc) != 2:
            return False
        close = [x for x in acc if "runtime.closechan" in x]
        send = [x for x in acc if "runtime.chansend" in x]
        if not (len(close) == 1 and len(send) == 1 and close[0] is not send[0]):
            return False

        def caller_of(sec, fn):
            frames = [l.strip() for l in sec.split("\n") if l.startswith("  ") and not l.startswith("      ")]
            for i, f in enumerate(frames[:-1]):
                if f.startswith(fn):
                    return frames[i + 1]
            return ""
        return ("core/mr.mapReduceWithPanicChan[" in caller_of(close[0], "runtime.closechan()") and "sync.(*Once)" in close[0]
                and "core/mr.guardedWriter[" in caller_of(send[0], "runtime.chansend()"))

    def _free_monitor(self, c, r):
        if r.get("result") is None:
            return "free run: the call did not return within 5 s"
        if r.get("census", 0) > 0:
            return "free run: goroutines of core/mr alive after the call returned and all user functions ended"
        items = []
        for a in c["gen"]:
            if a[0] == "panic":
                break
            if a[0] == "send":
                items.append(a[1])
        mapped = r["mapped"]
        if len(set(mapped)) != len(mapped) or not set(mapped) <= set(items):
            return "free run: an item was mapped twice or was never generated"
        w = max(1, len(items) if c["api"] in ("finish", "finishvoid") else
                (self.consts["defaultWorkers"] if c["workers"] == -1 else c["workers"]))
        if r["peak"] > w:
            return "free run: more than `workers` mappers at once"
        scripts = [c["gen"], c["red"]] + list(c["maps"].values())
        fault = (any(a[0] in ("panic", "cancel", "cancelnil") for s in scripts for a in s) or ["c"] in c["events"]
                 or c.get("ctx") in ("pre", "expired"))
        if not fault and sorted(mapped) != sorted(items):
            return "free run: without any fault not every generated item was mapped exactly once"
        return None


PROPERTY = C10()
