"""C10 — MapReduce: exactly-once mapping, complete reduction, clean termination."""
import copy
import json
import os

import vlib
from runner import Property, ExecError
from vlib import cz, clist, cbool

APIS = {"mr": "AMapReduce", "void": "AVoid", "chan": "AChan", "foreach": "AForEach",
        "finish": "AFinish", "finishvoid": "AFinishVoid"}


def nat(n):
    return "%d%%nat" % int(n)


class C10(Property):
    id = "C10"
    title = "MapReduce: exactly-once mapping, complete reduction, clean termination"
    quick_cases = 900
    thorough_cases = 9000
    design_ref = "DESIGN.md §6/C10, §5/F4"
    level_text = ("Rocq theorems over a process-network LTS of core/mr (caller, generator wrapper, executeMappers, mapper "
                  "wrappers, reducer wrapper, cancel/finish once-guards, source/collector/output/done/panicChan+quit) for ALL "
                  "schedules, item counts, worker counts and user scripts: worker bound, exactly-once hand-over of items and of "
                  "mapper outputs (incl. the fault-free halves: nothing drained, every Write reaches the reducer), the result is "
                  "the reducer's / a cancel error / the context error / a raised panic; terminal_clean: every state "
                  "in which no thread can move is clean (no deadlock, no leaked goroutine) for the repaired protocol. The model is tied to "
                  "core/mr/mapreduce.go by forced schedules (gated user callbacks + goroutine quiescence) with a goroutine census.")
    level_note = ("Trusted: Coq kernel + vm_compute; hand-written model (atomicity: recover+failed+++CAS one step, guard check "
                  "at the start of Write, close(done)+close(output) one step); correspondence only on generated forced "
                  "schedules; quiescence read from runtime.Stack; runs in which Go's select had several ready cases are "
                  "compared on the property only (counted as racy).")
    rule = ("cases: API in {MapReduce, MapReduceVoid, MapReduceChan, ForEach, Finish, FinishVoid}, workers 1..4, items 0..workers+3, "
            "fan-out 0..2, 0..2 faults (cancel(nil)/cancel(err)/panic in generator/mapper/reducer, context end) at a random "
            "(function, invocation, action) position, random release order with stalled functions; non-trivial = at least two "
            "mapper invocations and (a fault was executed, or more items than workers with fan-out >= 1); distinct = canonical JSON hash")
    trusted_base = [
        "model theories/C10/Model.v is hand-written; tie = forced-schedule correspondence run (harness/cmd/c10) through the public API",
        "quiescence and the goroutine census are read from runtime.Stack (goroutine states and core/mr frames)",
        "atomicity granularity of the model (see Model.v header); Go's select/channel semantics as modelled",
        "free-running -race monitor (thorough tier) is evidence for, not a proof of, the atomicity assumption",
    ]
    assumptions = ["items are distinct integers (so that invocations can be identified)",
                   "a source passed to MapReduceChan is eventually closed by its owner",
                   "the reducer calls Write at most twice (a third Write blocks inside the user function's own call)"]

    # ------------------------------------------------------------------ build
    def prepare(self, ctx):
        ok, res = vlib.go_build("c10")
        self.bin = res if ok else None
        return ok, ("" if ok else res)

    # ------------------------------------------------------------------ cases
    def corpus(self):
        rw = [["recvall"], ["write", 777]]
        return [
            # F4: mapper 1 cancels, mapper 2 panics afterwards (leak on the pinned code)
            {"api": "mr", "workers": 2, "gen": [["send", 1], ["send", 2]],
             "maps": {"1": [["cancel", 5]], "2": [["panic", 9]]}, "red": rw,
             "events": [["g"], ["g"], ["g"], ["m", 1], ["m", 1], ["m", 2]]},
            # F4-A: the reducer writes early, then a mapper panics (deadlock on the pinned code)
            {"api": "mr", "workers": 2, "gen": [["send", 1]], "maps": {"1": [["panic", 9]]},
             "red": [["write", 42]], "events": [["g"], ["g"], ["r"], ["r"], ["m", 1]]},
            # F4-B: the context ends while the generator is stalled, then the generator panics
            {"api": "mr", "workers": 2, "gen": [["panic", 3]], "maps": {}, "red": [["recvall"]],
             "events": [["r"], ["c"], ["g"]]},
            # F4-C: the reducer writes, then panics
            {"api": "mr", "workers": 2, "gen": [["send", 1]], "maps": {"1": []},
             "red": [["write", 42], ["panic", 8]], "events": [["g"], ["g"], ["m", 1], ["r"], ["r"]]},
            # context ends, reducer writes while Main drains the source: send on closed channel, recovered
            {"api": "mr", "workers": 1, "gen": [["send", 1], ["send", 2]], "maps": {"1": [], "2": []},
             "red": [["write", 42]], "events": [["c"], ["r"], ["g"], ["g"], ["g"]]},
            # late panic after cancel(nil); late panic in the generator after a cancel
            {"api": "mr", "workers": 1, "gen": [["send", 1], ["send", 2], ["panic", 4]],
             "maps": {"1": [["cancelnil"]], "2": [["panic", 9]]}, "red": rw,
             "events": [["g"], ["m", 1], ["g"], ["g"]]},
            # ForEach: mapper panics after ForEach returned through another panic
            {"api": "foreach", "workers": 2, "gen": [["send", 1], ["send", 2]],
             "maps": {"1": [["panic", 1]], "2": [["panic", 2]]}, "red": [],
             "events": [["g"], ["g"], ["g"], ["m", 1], ["m", 2]]},
            # Finish: one function fails, another panics later
            {"api": "finish", "workers": 3, "gen": [["send", 0], ["send", 1], ["send", 2]],
             "maps": {"0": [["cancel", 7]], "1": [["panic", 6]], "2": []}, "red": [], "events": [["m", 0], ["m", 1]]},
            # boundary: no items; more items than workers; reducer writes twice; zero workers (clamped to 1)
            {"api": "mr", "workers": 3, "gen": [], "maps": {}, "red": rw, "events": []},
            {"api": "mr", "workers": 1, "gen": [["send", i] for i in range(1, 5)],
             "maps": {str(i): [["write", 10 * i], ["write", 10 * i + 1]] for i in range(1, 5)}, "red": rw, "events": []},
            {"api": "mr", "workers": 2, "gen": [["send", 1]], "maps": {"1": [["write", 10]]},
             "red": [["recvall"], ["write", 1], ["write", 2]], "events": []},
            {"api": "mr", "workers": 0, "gen": [["send", 1], ["send", 2]], "maps": {"1": [["write", 1]], "2": [["write", 2]]},
             "red": rw, "events": []},
            {"api": "finish", "workers": 0, "gen": [], "maps": {}, "red": [], "events": []},
            {"api": "finishvoid", "workers": 0, "gen": [], "maps": {}, "red": [], "events": []},
            {"api": "void", "workers": 2, "gen": [["send", 1], ["send", 2]], "maps": {"1": [["write", 1]], "2": [["cancelnil"]]},
             "red": [["recvall"]], "events": []},
        ]

    RED_PATTERNS = [
        [["recvall"], ["write", 777]], [["recvall"], ["write", 777]], [["recvall"], ["write", 777]],
        [["write", 777], ["recvall"]], [["recvall"]], [["recv"], ["write", 777]],
        [["recvall"], ["write", 1], ["write", 2]], [], [["recv"], ["recv"], ["write", 5], ["recvall"]],
    ]

    def gen(self, rng, n, tier):
        return [self._one(rng) for _ in range(n)]

    def _one(self, rng):
        api = rng.choice(["mr"] * 6 + ["void", "chan", "foreach", "finish", "finishvoid"])
        workers = rng.randint(1, 4)
        nitems = rng.randint(0, workers + 3)
        fan = rng.randint(0, 2)
        auto = api in ("finish", "finishvoid")
        fe = api in ("foreach", "finishvoid")
        if auto:
            items = list(range(nitems))
            workers = nitems
        else:
            items = rng.sample(range(1, 40), nitems)
        gen = [["send", x] for x in items]
        maps = {}
        for x in items:
            maps[str(x)] = [] if (auto or fe) else [["write", 100 * x + j] for j in range(fan)]
        red = [] if (fe or auto) else copy.deepcopy(rng.choice(self.RED_PATTERNS))
        if api == "void":
            red = [a for a in red if a[0] != "write"]
        events = []
        nfaults = rng.choice([0, 1, 1, 1, 1, 2, 2])
        for _ in range(nfaults):
            kinds = ["panic"]
            if not fe:
                kinds += ["cancel", "cancelnil"] + ([] if auto else ["ctx", "ctx"])
            elif api == "foreach":
                kinds += ["ctx"]
            kind = rng.choice(kinds)
            if kind == "ctx":
                events.append(["c"])
                continue
            act = {"panic": ["panic", rng.randint(1, 9)], "cancel": ["cancel", rng.randint(1, 9)],
                   "cancelnil": ["cancelnil"]}[kind]
            if auto:
                if kind == "cancelnil" or not items:
                    continue
                if api == "finishvoid" and kind != "panic":
                    continue
                maps[str(rng.choice(items))] = [act]
                continue
            where = ["map"] * 4 + (["red"] * 2 if not fe else []) + (["gen"] if kind == "panic" and api != "chan" else [])
            w = rng.choice(where)
            if w == "map" and not items:
                w = "red" if not fe else "gen"
                if w == "gen" and (kind != "panic" or api == "chan"):
                    continue
            if w == "gen":
                gen.insert(rng.randint(0, len(gen)), act)
            elif w == "red":
                red.insert(rng.randint(0, len(red)), act)
            else:
                s = maps[str(rng.choice(items))]
                s.insert(rng.randint(0, len(s)), act)
        # release order: a weighted random interleaving; some functions are stalled to the end
        toks = []
        if not auto:
            toks += [["g"]] * (len(gen) + 1)
        for x in items:
            toks += [["m", x]] * (len(maps[str(x)]) + (0 if auto else 1))
        if not fe and not auto:
            toks += [["r"]] * (len(red) + 1)
        style = rng.random()
        if style < 0.25:
            pass                      # generator first, then mappers in order, then reducer
        else:
            rng.shuffle(toks)
            if style < 0.6:
                # keep the generator early so that mappers exist when they are released
                toks.sort(key=lambda t: 0 if t[0] == "g" and rng.random() < 0.7 else 1)
        if rng.random() < 0.35 and toks:
            stalled = rng.choice(toks)
            toks = [t for t in toks if t != stalled]      # released only in the tail
        for ev in events:
            toks.insert(rng.randint(0, len(toks)), ev)
        if rng.random() < 0.3:
            toks = toks[:rng.randint(0, len(toks))]
        return {"api": api, "workers": workers, "gen": gen, "maps": maps, "red": red, "events": toks}

    # ------------------------------------------------------------------ run
    def execute(self, cases, ctx):
        rc, out, res = vlib.go_run(self.bin, cases, tag="c10", timeout=900)
        if rc != 0 or len(res) != len(cases):
            raise ExecError("c10 executor rc=%s: %s" % (rc, out[-2000:]))
        # a hang or a leak under a forced schedule is deterministic: re-run such cases alone in a
        # fresh process and keep the observation only if it persists (guards against a loaded machine
        # disturbing the quiescence detection)
        sus = [i for i, r in enumerate(res) if not r.get("err") and (r.get("result") is None or r.get("census"))]
        if sus and len(sus) <= 40:
            rc2, out2, res2 = vlib.go_run(self.bin, [cases[i] for i in sus], tag="c10r", timeout=600)
            if rc2 == 0 and len(res2) == len(sus):
                for i, r2 in zip(sus, res2):
                    if not r2.get("err") and r2.get("result") is not None and not r2.get("census"):
                        ctx.notes.append("case %s: hang/leak not reproduced on re-run (discarded first observation)" % cases[i].get("id"))
                        res[i] = r2
        obs = []
        for r in res:
            if r.get("err"):
                raise ExecError("c10 executor: case %s: %s" % (r.get("id"), r["err"]))
            obs.append({k: r.get(k) for k in ("fired", "acts", "events", "result", "mapped", "reduced", "peak", "census", "stacks")})
        return obs

    # ------------------------------------------------------------------ Coq rendering
    def _act(self, a):
        k = a[0]
        if k == "send":
            return "USend %s" % cz(a[1])
        if k == "write":
            return "UWrite %s" % cz(a[1])
        if k == "cancel":
            return "UCancel (Some %s)" % cz(a[1])
        if k == "cancelnil":
            return "UCancel None"
        if k == "panic":
            return "UPanic %s" % cz(a[1])
        if k == "recv":
            return "URecv"
        return "URecvAll"

    def _script(self, s):
        return clist([self._act(a) for a in s])

    def _event(self, e):
        return {"g": "EvGen", "r": "EvRed", "c": "EvCtx"}.get(e[0]) or ("EvMap %s" % cz(e[1]))

    def _result(self, r):
        if r is None:
            return "None"
        k = r[0]
        t = {"nooutput": "ONoOutput", "cancelnil": "OErr ECancelNil", "ctx": "OErr ECtx", "panicmulti": "OPanic PMulti",
             "panicclosed": "OPanic PClosed", "unit": "OUnit"}.get(k)
        if t is None:
            if k == "val":
                t = "OVal %s" % cz(r[1])
            elif k == "cancel":
                t = "OErr (ECancel %s)" % cz(r[1])
            elif k == "panic":
                t = "OPanic (PUser %s)" % cz(r[1])
            else:       # an error / panic value that nobody passed in: never allowed
                t = "OErr (ECancel (-1))"
        return "(Some (%s))" % t

    def coq_case(self, case, obs):
        maps = clist(["(%s, %s)" % (cz(int(k)), self._script(v)) for k, v in sorted(case["maps"].items(), key=lambda kv: int(kv[0]))])
        fired = clist(["(%s, %s)" % (cbool(f), cbool(r)) for f, r in obs["fired"]])
        return "mkCase %s %s %s %s %s %s %s %s %s %s %s %s %s" % (
            APIS[case["api"]], nat(case["workers"]), self._script(case["gen"]), maps, self._script(case["red"]),
            clist([self._event(e) for e in obs["events"]]), fired, clist([nat(a) for a in obs["acts"]]),
            self._result(obs["result"]), clist([cz(x) for x in obs["mapped"]]), clist([cz(x) for x in obs["reduced"]]),
            nat(obs["peak"]), nat(max(0, obs["census"])))

    # ------------------------------------------------------------------ evidence
    def nontrivial(self, case, obs):
        fault = 2 in obs["acts"]
        nitems = sum(1 for a in case["gen"] if a[0] == "send")
        fan = max([sum(1 for a in s if a[0] == "write") for s in case["maps"].values()] or [0])
        return len(obs["mapped"]) >= 2 and (fault or (nitems > max(1, case["workers"]) and fan >= 1))

    def features(self, case, obs):
        fs = ["api=" + case["api"], "workers=%d" % case["workers"],
              "items=%d" % sum(1 for a in case["gen"] if a[0] == "send"),
              "result=" + (obs["result"][0] if obs["result"] else "hang"),
              "faults_executed=%d" % min(3, obs["acts"].count(2))]
        allacts = [a[0] for s in [case["gen"], case["red"]] + list(case["maps"].values()) for a in s]
        for k in ("cancel", "cancelnil", "panic"):
            if k in allacts:
                fs.append("has_" + k)
        if ["c"] in case["events"]:
            fs.append("has_ctx_end")
        if any(a[0] == "panic" for a in case["gen"]):
            fs.append("gen_panic")
        if any(a[0] in ("panic", "cancel", "cancelnil") for a in case["red"]):
            fs.append("red_fault")
        # a fault executed after the call had returned (late fault: the F4 shape)
        ret = [r for _, r in obs["fired"]]
        if any(k == 2 and i > 0 and ret[i - 1] for i, k in enumerate(obs["acts"])):
            fs.append("late_fault_after_return")
        if obs["census"] != 0:
            fs.append("leak")
        return fs

    def shrink_candidates(self, case):
        res = []
        ev = case["events"]
        n = len(ev)
        chunk = max(1, n // 2)
        while n and chunk >= 1:
            for i in range(0, n, chunk):
                c = copy.deepcopy(case)
                c["events"] = ev[:i] + ev[i + chunk:]
                res.append(c)
            if chunk == 1:
                break
            chunk //= 2
        # drop one item (generator send + its script), one action of a script
        sends = [a for a in case["gen"] if a[0] == "send"]
        if case["api"] not in ("finish", "finishvoid"):
            for a in sends:
                c = copy.deepcopy(case)
                c["gen"] = [b for b in c["gen"] if b != a]
                c["maps"].pop(str(a[1]), None)
                c["events"] = [e for e in c["events"] if e != ["m", a[1]]]
                res.append(c)
            for key in ("gen", "red"):
                for i, a in enumerate(case[key]):
                    if a[0] != "send":
                        c = copy.deepcopy(case)
                        del c[key][i]
                        res.append(c)
            for k, s in case["maps"].items():
                for i in range(len(s)):
                    c = copy.deepcopy(case)
                    del c["maps"][k][i]
                    res.append(c)
            if case["workers"] > 1:
                c = copy.deepcopy(case)
                c["workers"] -= 1
                res.append(c)
        return res[:200]

    def describe_failure(self, case, obs):
        if obs["result"] is None:
            return "the call did not return (deadlock); goroutines: %s" % (obs.get("stacks") or "")[:1500]
        if obs["census"] != 0:
            return ("%d goroutine(s) started by the call are still alive after every user function returned: %s"
                    % (obs["census"], (obs.get("stacks") or "")[:1500]))
        return ("exactly-once mapping/reduction, the worker bound, or the allowed result set was violated "
                "(result=%s mapped=%s reduced=%s peak=%s)" % (obs["result"], obs["mapped"], obs["reduced"], obs["peak"]))

    # ------------------------------------------------------------------ free-running -race monitor
    def extra(self, ctx):
        if ctx.tier != "thorough":
            return []
        ok, res = vlib.go_build("c10", race=True)
        if not ok:
            raise ExecError("c10 -race build failed: %s" % res[-1500:])
        import random
        rng = random.Random(ctx.seed * 31 + 5)
        cases = list(self.corpus()) + [self._one(rng) for _ in range(1500)]
        for i, c in enumerate(cases):
            c["id"] = i
        rc, out, rs = vlib.go_run(res, cases, tag="c10free", timeout=900, env={"VERIF_FREE": "1"})
        fails = []
        if "DATA RACE" in out:
            blocks = [b for b in out.split("==================") if "DATA RACE" in b]
            # F13: finish() closes output while the reducer's guardedWriter.Write is between its
            # done-check and its send (reported as close/send race; consequence: "send on closed channel")
            f13 = [b for b in blocks if "runtime.closechan" in b and "runtime.chansend" in b and "guardedWriter" in b]
            other = [b for b in blocks if b not in f13]
            if f13:
                fails.append({"what": "race detector: close(output) in finish() races with the send of guardedWriter.Write "
                                      "(reducer's Write concurrent with cancel): send on closed channel",
                              "replay": f13[0][-3000:], "known": "F13-reducer-write-races-with-close-output"})
            if other:
                fails.append({"what": "data race reported by the race detector in the free-running MapReduce harness",
                              "replay": other[0][-3000:]})
        if rc != 0 and not fails:
            raise ExecError("c10 free run rc=%s: %s" % (rc, out[-1500:]))
        for c, r in zip(cases, rs):
            why = self._free_monitor(c, r)
            if why:
                fails.append({"what": why, "replay": {"case": c, "observed": r}})
                if len(fails) >= 3:
                    break
        ctx.notes.append("free-running -race monitor: %d cases" % len(rs))
        return fails

    def _free_monitor(self, c, r):
        if r.get("result") is None:
            return "free run: the call did not return within 5 s"
        if r.get("census", 0) > 0:
            return "free run: goroutines of core/mr alive after the call returned and all user functions ended"
        items = []
        for a in c["gen"]:
            if a[0] == "panic":
                break
            if a[0] == "send":
                items.append(a[1])
        mapped = r["mapped"]
        if len(set(mapped)) != len(mapped) or not set(mapped) <= set(items):
            return "free run: an item was mapped twice or was never generated"
        w = max(1, len(items) if c["api"] in ("finish", "finishvoid") else c["workers"])
        if r["peak"] > w:
            return "free run: more than `workers` mappers at once"
        scripts = [c["gen"], c["red"]] + list(c["maps"].values())
        fault = any(a[0] in ("panic", "cancel", "cancelnil") for s in scripts for a in s) or ["c"] in c["events"]
        if not fault and sorted(mapped) != sorted(items):
            return "free run: without any fault not every generated item was mapped exactly once"
        return None


PROPERTY = C10()
