"""C08 — declarative validation (core/mapping unmarshaller)."""
import copy
import json
import random
from decimal import Decimal

import vlib
import c08consts
from runner import Property, ExecError
from vlib import cz, clist, cbool, cstr, copt

INT_KINDS = ["int", "int8", "int16", "int32", "int64"]
UINT_KINDS = ["uint", "uint8", "uint16", "uint32", "uint64"]
FLOAT_KINDS = ["float32", "float64"]
KINDS = ["bool"] + INT_KINDS + UINT_KINDS + FLOAT_KINDS + ["string"]
CK = {"bool": "KBool", "float32": "KF32", "float64": "KF64", "string": "KStr",
      "int": "(KInt W0)", "int8": "(KInt W8)", "int16": "(KInt W16)", "int32": "(KInt W32)", "int64": "(KInt W64)",
      "uint": "(KUint W0)", "uint8": "(KUint W8)", "uint16": "(KUint W16)", "uint32": "(KUint W32)",
      "uint64": "(KUint W64)"}
BITS = {"int": 64, "int8": 8, "int16": 16, "int32": 32, "int64": 64,
        "uint": 64, "uint8": 8, "uint16": 16, "uint32": 32, "uint64": 64}
STRING_MODES = ("form", "path", "header", "httpx-form", "httpx-path", "httpx-header", "dform")
MODES = ["json", "key", "form", "path", "header", "httpx-json", "httpx-form", "httpx-path", "httpx-header"]


def is_num(k):
    return k not in ("bool", "string")


# ---------------------------------------------------------------------------- helpers

def P(k):
    return {"k": k}


def Ptr(e):
    return {"k": "ptr", "e": e}


def Sl(e):
    return {"k": "slice", "e": e}


def Mp(e):
    return {"k": "map", "e": e}


def St(*fs):
    return {"k": "struct", "f": list(fs)}


def O(**kw):
    o = {"opt": False, "dep": None, "neg": False, "def": None, "range": None, "options": None, "str": False}
    o.update(kw)
    return o


def F(key, t, o=None):
    return {"key": key, "t": t, "o": o}


def A(t, optional=False):
    """anonymous (embedded) struct or pointer-to-struct field"""
    return {"key": "", "t": t, "o": O(opt=True) if optional else None, "anon": True}


def flat_fields(fields, group=None):
    """the fields whose keys are looked up in one object: embedded structs are flattened.
    Yields (field, group) — group identifies the enclosing optional embedded struct, if any."""
    for f in fields:
        if f.get("anon"):
            g = group
            if g is None and f["o"] and f["o"]["opt"]:
                g = id(f)
            yield from flat_fields(deref(f["t"])["f"], g)
        else:
            yield f, group


def R(s):
    l, r = s[1:-1].split(":")
    return {"li": s[0] == "[", "l": l or None, "r": r or None, "ri": s[-1] == "]"}


def deref(t):
    while t["k"] == "ptr":
        t = t["e"]
    return t


def dn(x):
    return {"n": x}


def ds(x):
    return {"s": x}


def dobj(pairs):
    return {"o": [{"k": k, "v": v} for k, v in pairs]}


NULL = {"null": 1}


def raw_json(d):
    if "null" in d:
        return "null"
    if "b" in d:
        return "true" if d["b"] else "false"
    if "n" in d:
        return d["n"]
    if "s" in d:
        return json.dumps(d["s"])
    if "a" in d:
        return "[" + ",".join(raw_json(e) for e in d["a"]) + "]"
    if "o" in d:
        return "{" + ",".join(json.dumps(kv["k"]) + ":" + raw_json(kv["v"]) for kv in d["o"]) + "}"
    raise ValueError("native value in a JSON document")


def dedup(d):
    """what the JSON decoder keeps: the last of duplicate keys"""
    if "a" in d:
        return {"a": [dedup(e) for e in d["a"]]}
    if "o" in d:
        seen = {}
        order = []
        for kv in d["o"]:
            if kv["k"] not in seen:
                order.append(kv["k"])
            seen[kv["k"]] = dedup(kv["v"])
        return {"o": [{"k": k, "v": seen[k]} for k in order]}
    return d


# ---------------------------------------------------------------------------- calls, passes, views

# entry point -> (tag key, key semantics + unmarshaller options as a Gallina [kcfg])
ENTRY = {
    "json": ("json", "kc_json"), "jsonreader": ("json", "kc_json"), "jsonmap": ("json", "kc_json"),
    "yaml": ("json", "kc_json"), "toml": ("json", "kc_json"), "httpx-json": ("json", "kc_json"),
    "yamlreader": ("json", "kc_json"), "tomlbytes": ("json", "kc_json"), "keyvaluer": ("key", "kc_json"),
    "key": ("key", "kc_json"),
    "header": ("header", "kc_header"), "httpx-header": ("header", "kc_header"),
    "form": ("form", "kc_form"), "httpx-form": ("form", "kc_form"),
    "path": ("path", "kc_path"), "httpx-path": ("path", "kc_path"),
    # the same data read with the OTHER key semantics (mapping.WithOpaqueKeys given or left out)
    # a document read with canonicalised (lower-cased) keys, as core/conf does; keys are written lower case
    "cjson": ("json", "(mkK (mkCfg false false true) seg_dotted)"),
    "okey": ("key", "(mkK (mkCfg false false false) seg_opaque)"),
    "ojson": ("json", "(mkK (mkCfg false false false) seg_opaque)"),
    "dform": ("form", "(mkK (mkCfg true true false) seg_dotted)"),
}
PASS_KC = {"path": "kc_path", "form": "kc_form", "header": "kc_header", "json": "kc_json"}
PARSE_ORDER = ["path", "form", "header", "json"]      # rest/httpx.Parse
TEXT_MODES = ("json", "jsonreader", "yaml", "toml", "httpx-json", "ojson", "yamlreader", "tomlbytes")
STRING_TAGS = ("form", "path", "header")


def tag_of(mode):
    return ENTRY[mode][0]


def is_multi(t):
    """does the type carry per-field tag sets (several unmarshaller kinds read it)?"""
    t = deref(t)
    if t["k"] in ("slice", "map"):
        return is_multi(t["e"])
    if t["k"] != "struct":
        return False
    return any(f.get("tags") is not None or is_multi(f["t"]) for f in t["f"])


def view_type(t, tag, top=True):
    """the struct type as the unmarshaller for `tag` sees it: fields tagged otherwise are skipped
    (usingDifferentKeys), the others carry the key and options of that tag.  Below the top level a
    member tagged otherwise still counts when go-zero decides whether an ABSENT struct value is
    required (implicitValueRequiredStruct answers yes at once): it is kept as a scalar field with
    the key "-", which is exactly that — skipped when read, required when absent."""
    k = t["k"]
    if k in ("ptr", "slice", "map"):
        return {"k": k, "e": view_type(t["e"], tag, top)}
    if k != "struct":
        return t
    fs = []
    for f in t["f"]:
        tags = f.get("tags")
        if tags is None:
            g = dict(f)
            # the members of an embedded struct are fields of the struct that embeds it
            g["t"] = view_type(f["t"], tag, top if f.get("anon") else False)
            fs.append(g)
            continue
        if tag not in tags:
            if not top:
                if deref(f["t"])["k"] not in KINDS:
                    raise ValueError("a member tagged for other kinds must be a scalar")
                fs.append({"key": "-", "o": None, "t": f["t"]})
            continue
        ts = tags[tag]
        g = {"key": ts["key"], "o": ts.get("o"), "t": view_type(f["t"], tag, False)}
        if f.get("anon"):
            g["anon"] = True
        fs.append(g)
    return {"k": "struct", "f": fs}


def project_val(t, tag, v, drop=(), top=True):
    """the dumped value restricted to the fields that the unmarshaller for `tag` sees"""
    if v is None:
        return None
    k = t["k"]
    if k == "ptr":
        return v if "z" in v else {"p": project_val(t["e"], tag, v["p"], drop, top)}
    if k == "slice":
        return v if "z" in v else {"l": [project_val(t["e"], tag, e, (), top) for e in v["l"]]}
    if k == "map":
        return v if "z" in v else {"m": [[kk, project_val(t["e"], tag, e, (), top)] for kk, e in v["m"]]}
    if k != "struct":
        return v
    out = []
    for i, (f, x) in enumerate(zip(t["f"], v["st"])):
        tags = f.get("tags")
        if tags is not None and tag not in tags:
            if not top:
                out.append(x)
            continue
        if i in drop:
            continue
        out.append(project_val(f["t"], tag, x, (), top if (tags is None and f.get("anon")) else False))
    return {"st": out}


def drop_fields(t, drop):
    if not drop:
        return t
    return {"k": "struct", "f": [f for i, f in enumerate(t["f"]) if i not in drop]}


# ---------------------------------------------------------------------------- Coq rendering

def cdec(text):
    d = Decimal(text)
    sign, digits, exp = d.as_tuple()
    m = int("".join(map(str, digits)) or "0")
    if sign:
        m = -m
    return "(mkDec %s %s)" % (cz(m), cz(exp))


def crange(r):
    if r is None:
        return "None"
    return "(Some (mkRange %s %s %s %s))" % (cbool(r["li"]), copt(cdec(r["l"]) if r["l"] is not None else None),
                                             copt(cdec(r["r"]) if r["r"] is not None else None), cbool(r["ri"]))


def copts(o):
    if o is None:
        return "None"
    dep = "None" if o["dep"] is None else "(Some (%s, %s))" % (cbool(o["neg"]), cstr(o["dep"]))
    return "(Some (mkOpts %s %s %s %s %s %s))" % (
        cbool(o["opt"]), dep, copt(cstr(o["def"]) if o["def"] is not None else None), crange(o["range"]),
        clist([cstr(x) for x in (o["options"] or [])]), cbool(o["str"]))


def ctype(t):
    k = t["k"]
    if k == "ptr":
        return "(TPtr %s)" % ctype(t["e"])
    if k == "slice":
        return "(TSlice %s)" % ctype(t["e"])
    if k == "map":
        return "(TMap %s)" % ctype(t["e"])
    if k == "struct":
        return "(TStruct %s)" % cfields(t["f"])
    return "(TPrim %s)" % CK[k]


def cfields(fs):
    s = "FNil"
    for f in reversed(fs):
        if f.get("anon"):
            s = "(FEmbed %s %s %s %s)" % (cbool(bool(f["o"] and f["o"]["opt"])), cbool(f["t"]["k"] == "ptr"),
                                          cfields(deref(f["t"])["f"]), s)
        else:
            s = "(FCons %s %s %s %s)" % (cstr(f["key"]), copts(f["o"]), ctype(f["t"]), s)
    return s


def cdoc(d):
    if "null" in d:
        return "JNull"
    if "b" in d:
        return "(JBool %s)" % cbool(d["b"])
    if "n" in d:
        return "(JNum %s)" % cstr(d["n"])
    if "s" in d:
        return "(JStr %s)" % cstr(d["s"])
    if "g" in d:
        return "(JNat %s %s)" % (CK[d["g"][0]], cstr(d["g"][1]))
    if "a" in d:
        return "(JArr %s)" % clist([cdoc(e) for e in d["a"]])
    if "o" in d:
        return "(JObj %s)" % clist(["(%s, %s)" % (cstr(kv["k"]), cdoc(kv["v"])) for kv in d["o"]])
    raise ValueError("bad doc node %r" % (d,))


def cfloat(txt):
    if txt == "NaN":
        return "FNaN"
    if txt == "+Inf":
        return "(FInf false)"
    if txt == "-Inf":
        return "(FInf true)"
    return "(FDec %s)" % cdec(txt)


def cval(v):
    if "b" in v:
        return "(VBool %s)" % cbool(v["b"])
    if "i" in v:
        return "(VInt %s)" % cz(int(v["i"]))
    if "f" in v:
        return "(VFloat %s)" % cfloat(v["f"])
    if "s" in v:
        return "(VStr %s)" % cstr(v["s"])
    if "z" in v:
        return "VNil"
    if "p" in v:
        return "(VPtr %s)" % cval(v["p"])
    if "l" in v:
        return "(VSlice %s)" % clist([cval(e) for e in v["l"]])
    if "m" in v:
        return "(VMap %s)" % clist(["(%s, %s)" % (cstr(k), cval(e)) for k, e in v["m"]])
    if "st" in v:
        return "(VStruct %s)" % clist([cval(e) for e in v["st"]])
    raise ValueError("bad value dump %r" % (v,))


# ---------------------------------------------------------------------------- generation

KEYS = ["a", "b", "c", "d", "e", "f2", "g"]
OPTION_WORDS = ["x", "y", "zz", "on", "off", "true", "1", "2"]


def fmt_dec(d):
    s = format(d, "f")
    if "." in s:
        s = s.rstrip("0").rstrip(".")
    return s if s not in ("-0", "") else "0"


class Gen:
    def __init__(self, rng, tier):
        self.rng = rng
        self.tier = tier

    # ---- options -------------------------------------------------------------
    def gen_range(self, kind):
        rng = self.rng
        if kind in UINT_KINDS:
            lo = Decimal(rng.choice([0, 1, 2, 10]))
        elif kind in FLOAT_KINDS:
            lo = Decimal(rng.choice(["-2.5", "0", "0.5", "1", "1.25"]))
        else:
            lo = Decimal(rng.choice([-5, -1, 0, 1, 3]))
        width = Decimal(rng.choice(["0", "1", "2", "4", "10", "2.5"] if kind in FLOAT_KINDS else [0, 1, 2, 4, 10, 100]))
        hi = lo + width
        li, ri = rng.random() < 0.6, rng.random() < 0.6
        if width == 0 and rng.random() < 0.8:
            li = ri = True
        shape = rng.random()
        r = {"li": li, "l": fmt_dec(lo), "r": fmt_dec(hi), "ri": ri}
        if shape < 0.15:
            r["l"] = None
        elif shape < 0.3:
            r["r"] = None
        return r

    def points(self, kind, r):
        """(inside, outside) candidate literals for a numeric kind and a range"""
        lo = Decimal(r["l"]) if r and r["l"] is not None else None
        hi = Decimal(r["r"]) if r and r["r"] is not None else None
        step = Decimal("0.5") if kind in FLOAT_KINDS else Decimal(1)
        cands = set()
        for b in (lo, hi):
            if b is not None:
                for k in (-2, -1, 0, 1, 2):
                    cands.add(b + k * step)
        if lo is not None and hi is not None:
            cands.add((lo + hi) / 2)
        if not cands:
            cands = {Decimal(x) for x in (-3, 0, 1, 2, 7)}
        # an open end reaches far: values a bound that wrongly defaults to 0 (or to the other bound) would cut off
        if r and lo is None and hi is not None:
            cands.update({hi - 100, Decimal(-100), Decimal(-1)})
        if r and hi is None and lo is not None:
            cands.update({lo + 100, Decimal(100), Decimal(1)})
        if kind in FLOAT_KINDS:
            for b in (lo, hi):
                if b is not None:
                    cands.add(b + Decimal("0.001"))
                    cands.add(b - Decimal("0.001"))
        ins, outs = [], []
        for c in sorted(cands):
            if kind not in FLOAT_KINDS and c != c.to_integral_value():
                continue
            if kind in UINT_KINDS and c < 0:
                outs.append(fmt_dec(c))
                continue
            ok = True
            if lo is not None and (c < lo or (c == lo and not r["li"])):
                ok = False
            if hi is not None and (c > hi or (c == hi and not r["ri"])):
                ok = False
            (ins if ok else outs).append(fmt_dec(c))
        return ins, outs

    @staticmethod
    def outside(r, lit):
        d = Decimal(lit)
        if r["l"] is not None and (d < Decimal(r["l"]) or (d == Decimal(r["l"]) and not r["li"])):
            return True
        if r["r"] is not None and (d > Decimal(r["r"]) or (d == Decimal(r["r"]) and not r["ri"])):
            return True
        return False

    def gen_opts(self, kind, siblings, mode, force=None):
        """field options for a scalar (possibly pointer) field of the given kind"""
        rng = self.rng
        f = force or {}
        o = O()
        optmode = f.get("optmode", rng.choice(["none", "none", "optional", "dep", "ndep"]))
        if optmode != "none":
            o["opt"] = True
            if optmode in ("dep", "ndep"):
                if not siblings:
                    optmode = "optional"
                else:
                    o["dep"] = rng.choice(siblings)
                    o["neg"] = optmode == "ndep"
        want_range = f.get("range", rng.random() < 0.45)
        if want_range and (is_num(kind) or rng.random() < 0.08):
            o["range"] = self.gen_range(kind if is_num(kind) else "int")
        want_options = f.get("options", rng.random() < 0.3)
        if want_options:
            if is_num(kind):
                ins, outs = self.points(kind, o["range"])
                pool = (ins * 2 + outs) or ["1", "2"]
                o["options"] = sorted(set(rng.sample(pool, min(len(pool), rng.randint(1, 3)))))
            elif kind == "bool":
                o["options"] = rng.choice([["true"], ["true", "false"], ["1", "true"]])
            else:
                o["options"] = sorted(set(rng.sample(OPTION_WORDS, rng.randint(1, 3))))
        want_default = f.get("default", rng.random() < 0.3)
        if want_default:
            o["def"] = self.gen_default(kind, o)
        o["str"] = f.get("str", mode in ("json", "key", "httpx-json") and rng.random() < 0.2)
        if rng.random() < 0.01 and o["range"] and o["range"]["l"] is not None and o["range"]["r"] is not None:
            o["range"]["l"], o["range"]["r"] = o["range"]["r"], o["range"]["l"]   # ill-formed tag
        if not any([o["opt"], o["def"], o["range"], o["options"], o["str"]]):
            return None
        return o

    def gen_default(self, kind, o):
        rng = self.rng
        if is_num(kind):
            ins, outs = self.points(kind, o["range"])
            pool = list(o["options"] or []) + ins * 2 + outs
            d = rng.choice(pool or ["1"])
            if rng.random() < 0.05:
                d = rng.choice(["zz", "1.5", "-1"])
            return d
        if kind == "bool":
            return rng.choice(["true", "false", "1", "0", "yes"])
        return rng.choice(list(o["options"] or []) + ["dflt", "x", "q q"])

    # ---- types ---------------------------------------------------------------
    def gen_type(self, depth, mode, scalar_only=False):
        rng = self.rng
        r = rng.random()
        if scalar_only or depth <= 0 or r < 0.55:
            t = P(rng.choice(KINDS))
            if rng.random() < 0.15:
                t = Ptr(t)
                if rng.random() < 0.2:
                    t = Ptr(t)
            return t
        if r < 0.70:
            st = self.gen_struct(depth - 1, mode, rng.randint(1, 3))
            return Ptr(st) if rng.random() < 0.3 else st
        if r < 0.86:
            e = self.gen_type(depth - 1, mode)
            if deref(e)["k"] in ("slice", "map") and e["k"] == "ptr":
                e = deref(e)
            if e == P("uint8"):
                e = P("uint16")
            return Sl(e)
        e = self.gen_type(depth - 1, mode)
        if deref(e)["k"] in ("slice", "map") and e["k"] == "ptr":
            e = deref(e)
        return Mp(e)

    def gen_embedded(self, depth, mode, level=0):
        rng = self.rng
        pool = ["p", "q", "r"] if level == 0 else ["u", "v"]
        inner = self.gen_struct(depth, mode, rng.randint(1, len(pool)), keys=pool,
                                allow_embed=(level == 0))
        optional = rng.random() < 0.6
        if optional:
            inner["f"] = [f for f in inner["f"] if not f.get("anon")] or inner["f"]
            if any(f.get("anon") for f in inner["f"]):
                optional = False
        return A(Ptr(inner) if rng.random() < 0.4 else inner, optional)

    def gen_struct(self, depth, mode, nfields, keys=None, allow_embed=None):
        rng = self.rng
        embed = None
        if allow_embed is None:
            allow_embed = keys is None
        if allow_embed and rng.random() < 0.22:
            embed = self.gen_embedded(max(0, depth - 1), mode, 0 if keys is None else 1)
        keys = (keys or KEYS)[:nfields]
        fs = []
        for i, key in enumerate(keys):
            if mode in STRING_MODES:
                # parameter maps: scalars, pointers to scalars and (form / header) slices of scalars
                if mode in ("form", "header", "httpx-form", "httpx-header") and rng.random() < 0.15:
                    e = P(rng.choice([k for k in KINDS if k != "uint8"]))
                    t = Sl(e)
                else:
                    t = self.gen_type(0, mode, scalar_only=True)
            else:
                t = self.gen_type(depth, mode)
            sib = [k for k in keys if k != key]
            dt = deref(t)
            if dt["k"] in KINDS:
                o = self.gen_opts(dt["k"], sib, mode)
            else:
                o = None
                r = rng.random()
                if r < 0.35:
                    o = O(opt=True)
                elif r < 0.45 and sib:
                    o = O(opt=True, dep=rng.choice(sib), neg=rng.random() < 0.4)
                elif r < 0.50 and dt["k"] != "slice":
                    o = O(**{"def": "1"})
                elif r < 0.55:
                    o = O(range=self.gen_range("int"))
                elif r < 0.60:
                    o = O(options=["x", "1"])
            fs.append(F(key, t, o))
        if embed is not None:
            fs.insert(rng.randrange(len(fs) + 1), embed)
        return St(*fs)

    # ---- documents -----------------------------------------------------------
    def num_literal(self, kind, o, intent):
        rng = self.rng
        r = o["range"] if o else None
        ins, outs = self.points(kind, r)
        opts = (o["options"] if o else None) or []
        if intent == "valid":
            good = [x for x in opts if (not r or x in ins)] if opts else ins
            if good:
                return rng.choice(good)
            return rng.choice(opts or ins or outs or ["1"])
        if intent == "range":
            if r and rng.random() < 0.3:
                # far outside: survives any narrowing conversion only by accident
                far = ["4294967297", "2147483648", "65537", "300", "1000000000000"]
                if kind in BITS:
                    far = [x for x in far if int(x) < 2 ** (BITS[kind] - (0 if kind in UINT_KINDS else 1))]
                    if kind not in UINT_KINDS:
                        far += ["-" + x for x in far]
                else:
                    far += ["-4294967297", "1e30", "-1e30", "123456.5"]
                far = [x for x in far if x not in ins and self.outside(r, x)]
                if far:
                    return rng.choice(far)
            return rng.choice(outs or ["1000"])
        if intent == "option":
            cand = [x for x in ins if x not in opts] or ["77"]
            return rng.choice(cand)
        if intent == "overflow":
            if kind in BITS:
                b = BITS[kind]
                if kind in UINT_KINDS:
                    return rng.choice([str(2 ** b), str(2 ** b - 1), "-1", "-0"])
                return rng.choice([str(2 ** (b - 1)), str(2 ** (b - 1) - 1), str(-2 ** (b - 1)), str(-2 ** (b - 1) - 1)])
            if kind == "float32":
                return rng.choice(["3.4e38", "3.5e38", "1e39", "-1e39", "1e-3"])
            return rng.choice(["1e308", "1.8e308", "1e400", "-1e400", "1.5e300"])
        if intent == "syntax":
            base = rng.choice(ins or ["2"])
            return rng.choice(["%s.0" % base, "%se0" % base, "%s.5" % base, "1e2", "1E+1", "-0", "0.10", "12e-1"])
        return rng.choice(ins or ["1"])

    def string_forms(self, kind, lit):
        """alternative spellings that strconv accepts or rejects (string modes / string flag)"""
        rng = self.rng
        r = rng.random()
        if r < 0.55:
            return lit
        if kind == "bool":
            return rng.choice(["TRUE", "False", "1", "0", "t", "yes", ""])
        if r < 0.65 and not lit.startswith("-"):
            return "+" + lit
        if r < 0.72:
            return "0" + lit if not lit.startswith("-") else lit
        if r < 0.78:
            return lit + " "
        if r < 0.84 and kind in FLOAT_KINDS:
            return rng.choice(["NaN", "nan", "Inf", "-inf", "+Infinity", ".5", "5.", "1e1", "infin"])
        if r < 0.88:
            return rng.choice(["", "abc", "1,5", "--1", "1e", "e1", "."])
        return lit

    def scalar_value(self, kind, o, mode, intent):
        """document node for a scalar field"""
        rng = self.rng
        strmode = mode in STRING_MODES
        flag = bool(o and o["str"])
        if intent == "type":
            if strmode:
                return ds(rng.choice(["abc", "", "1.5.2", "tru"]))
            choices = [{"b": True}, ds("str"), dn("1"), {"a": [dn("1")]}, dobj([("a", dn("1"))])]
            if is_num(kind) and not flag:
                choices += [ds("5"), ds("1000"), ds("1")]       # a number spelled as a string is not a number
            if kind == "bool":
                choices = choices[1:]
            elif kind == "string":
                choices = [choices[0]] + choices[2:]
            elif not flag:
                choices = choices[:2] + choices[3:]
            return rng.choice(choices)
        if kind == "bool":
            txt = "true"
            if o and o["options"] and intent == "valid":
                txt = rng.choice(o["options"])
            elif intent == "option":
                txt = "false"
            else:
                txt = rng.choice(["true", "false"])
            if strmode or (flag and rng.random() < 0.7):
                return ds(self.string_forms(kind, txt) if intent != "valid" or rng.random() < 0.3 else txt)
            if txt in ("true", "false"):
                return {"b": txt == "true"}
            return dn(txt) if flag else {"b": True}
        if kind == "string":
            pool = (o["options"] if o and o["options"] else None)
            if intent == "valid" and pool:
                txt = rng.choice(pool)
            elif intent == "option":
                txt = "nope"
            else:
                txt = rng.choice(["hello", "x", "", "zz", "a b", "5"])
            if flag and rng.random() < 0.3:
                return dn(rng.choice(["5", "1.5"]))
            return ds(txt)
        lit = self.num_literal(kind, o, intent)
        if strmode:
            return ds(self.string_forms(kind, lit) if rng.random() < 0.5 else lit)
        if flag:
            if rng.random() < 0.6:
                return ds(self.string_forms(kind, lit) if rng.random() < 0.4 else lit)
            return dn(lit if self.json_ok(lit) else "1")
        if mode == "key" and rng.random() < 0.35 and intent in ("valid", "range", "option"):
            nk = kind if rng.random() < 0.8 else rng.choice([k for k in KINDS if is_num(k)])
            if self.native_ok(nk, lit):
                return {"g": [nk, lit]}
        return dn(lit if self.json_ok(lit) else "1")

    @staticmethod
    def json_ok(lit):
        import re
        return re.fullmatch(r"-?(0|[1-9][0-9]*)(\.[0-9]+)?([eE][+-]?[0-9]+)?", lit) is not None

    @staticmethod
    def native_ok(kind, lit):
        """the literal is the canonical text (lang.Repr) of a value of that kind"""
        import re
        if kind in BITS:
            if re.fullmatch(r"-?(0|[1-9][0-9]*)", lit) is None or lit == "-0":
                return False
            v = int(lit)
            b = BITS[kind]
            return (0 <= v < 2 ** b) if kind in UINT_KINDS else (-2 ** (b - 1) <= v < 2 ** (b - 1))
        if re.fullmatch(r"-?(0|[1-9][0-9]*)(\.[0-9]*[1-9])?", lit) is None or lit == "-0":
            return False
        d = Decimal(lit)
        digits = len(d.as_tuple().digits)
        return digits <= (6 if kind == "float32" else 15) and abs(d) < 10 ** 15

    def elem_value(self, t, mode, inmap):
        """a (mostly valid) element of a slice or map"""
        rng = self.rng
        t0 = deref(t)
        k = t0["k"]
        r = rng.random()
        if r < 0.08:
            return NULL
        if k == "struct":
            if r < 0.14:
                return rng.choice([dn("1"), ds("x"), {"a": []}])
            return self.object_for(t0["f"], mode)
        if k == "slice":
            if r < 0.14:
                return rng.choice([dn("1"), ds("x"), dobj([])])
            return {"a": [self.elem_value(t0["e"], mode, False) for _ in range(rng.randint(0, 3))]}
        if k == "map":
            if r < 0.14:
                return rng.choice([dn("1"), ds("x"), {"a": []}])
            return dobj([(key, self.elem_value(t0["e"], mode, True)) for key in rng.sample(["k1", "k2", "k3"], rng.randint(0, 2))])
        # primitive
        if r < 0.2:
            return rng.choice([{"b": True}, ds("x"), ds("5"), dn("1"), dn("1.5"), dn("300"), dn("-1"), {"a": []}, dobj([])])
        if k == "bool":
            return {"b": rng.random() < 0.5}
        if k == "string":
            return ds(rng.choice(["s1", "", "v"]))
        lit = self.num_literal(k, None, rng.choice(["valid", "valid", "valid", "overflow", "syntax"]))
        if mode in STRING_MODES:
            return ds(lit)
        if mode == "key" and rng.random() < 0.25:
            nk = k if rng.random() < 0.8 else rng.choice([x for x in KINDS if is_num(x)])
            if self.native_ok(nk, lit):
                return {"g": [nk, lit]}
        return dn(lit if self.json_ok(lit) else "1")

    def field_value(self, f, mode, intent):
        rng = self.rng
        t0 = deref(f["t"])
        k = t0["k"]
        if intent == "null":
            return NULL
        if k in KINDS:
            v = self.scalar_value(k, f["o"], mode, intent)
            if mode in ("form", "httpx-form"):
                return {"a": [v] + ([ds("9")] if rng.random() < 0.1 else [])}
            if mode in ("header", "httpx-header") and rng.random() < 0.05:
                return {"a": [v, ds("9")]}
            return v
        if intent == "type":
            return rng.choice([dn("5"), ds("zz"), {"b": True}] + ([{"a": []}] if k != "slice" else [dobj([])]))
        if k == "struct":
            return self.object_for(t0["f"], mode)
        if k == "slice":
            n = rng.choice([0, 1, 1, 2, 3])
            if mode in STRING_MODES:
                lits = [self.elem_value(t0["e"], mode, False) for _ in range(max(1, n))]
                lits = [x if "s" in x else ds("1") for x in lits]
                if rng.random() < 0.15:
                    # one value holding a comma is ONE element (rest/httpx does not split it)
                    lits = [ds(",".join(x["s"] for x in lits + lits[:1]))]
                return {"a": lits}
            return {"a": [self.elem_value(t0["e"], mode, False) for _ in range(n)]}
        n = rng.choice([0, 1, 2])
        return dobj([(key, self.elem_value(t0["e"], mode, True)) for key in rng.sample(["k1", "k2", "k3"], n)])

    def object_for(self, fields, mode, bad_at=None, counter=None):
        """an object for the struct's fields: consistent with the dependency options, every
        constraint met — except at position bad_at (a single violation)"""
        rng = self.rng
        counter = counter if counter is not None else [0]
        flat = list(flat_fields(fields))
        fields = [f for f, _ in flat]
        keys = [f["key"] for f in fields]
        present = {}
        group_mode = {}
        for f, grp in flat:
            o = f["o"]
            if o is None or not o["opt"]:
                present[f["key"]] = True if (o is None or o["def"] is None) else rng.random() < 0.5
            else:
                present[f["key"]] = rng.random() < 0.5
            if grp is not None:
                # an optional embedded struct: all members, none, or a proper subset
                m = group_mode.setdefault(grp, rng.choice(["valid", "valid", "none", "all", "subset"]))
                if m == "none":
                    present[f["key"]] = False
                elif m == "all":
                    present[f["key"]] = True
                elif m == "subset":
                    present[f["key"]] = rng.random() < 0.5
        for _ in range(3):   # make dependencies consistent
            for f in fields:
                o = f["o"]
                if o and o["opt"] and o["dep"] in keys:
                    present[f["key"]] = (not present[o["dep"]]) if o["neg"] else present[o["dep"]]
        pairs = []
        for f in fields:
            me = counter[0]
            counter[0] += 1
            intent = "valid"
            if bad_at is not None and me == bad_at[0]:
                intent = bad_at[1]
            if intent == "missing":
                continue
            if intent == "present":
                present[f["key"]] = True
                intent = "valid"
            if not present[f["key"]] and intent == "valid":
                continue
            t0 = deref(f["t"])
            if t0["k"] == "struct" and intent == "valid":
                v = self.object_for(t0["f"], mode, bad_at, counter)
            else:
                v = self.field_value(f, mode, intent)
            pairs.append((f["key"], v))
        if rng.random() < 0.1:
            pairs.append(("extra", dn("1") if mode not in STRING_MODES else ds("1")))
        if rng.random() < 0.08 and keys and "header" not in mode:
            # keys are matched exactly: the same key in other case is another key
            k0 = rng.choice(keys)
            alt = k0.upper() if k0.upper() != k0 else k0.lower()
            if alt != k0 and alt not in keys:
                pairs.append((alt, dn("100000") if mode not in STRING_MODES else ds("100000")))
        if rng.random() < 0.15:
            rng.shuffle(pairs)
        return dobj(pairs)

    def count_fields(self, fields):
        n = 0
        for f, _ in flat_fields(fields):
            n += 1
            t0 = deref(f["t"])
            if t0["k"] == "struct":
                n += self.count_fields(t0["f"])
        return n

    def case(self, mode=None, depth=None):
        rng = self.rng
        mode = mode or rng.choice(MODES + ["json", "json", "key"])
        if depth is None:
            depth = rng.choice([0, 1, 1, 2] if self.tier == "quick" else [0, 1, 2, 2, 3])
        st = self.gen_struct(depth, mode, rng.randint(1, 4))
        n = self.count_fields(st["f"])
        r = rng.random()
        bad = None
        if r > 0.3:
            bad = (rng.randrange(n), rng.choice(["missing", "present", "null", "range", "range", "option", "type",
                                                 "overflow", "syntax"]))
        doc = self.object_for(st["f"], mode, bad)
        return finish({"mode": mode, "type": st, "doc": doc, "intent": bad[1] if bad else "valid"})


MAX_FORM_VALUES = 2048     # rest/httpx/util.go maxFormParamCount
MAX_BODY = 8 << 20         # rest/httpx/requests.go maxBodyLen
JSON_CTYPE = "application/json"


def tame(d):
    """documents that YAML and TOML texts can carry without their own number / null conventions
    getting in the way (C17 owns those): integers, short decimals, strings, booleans, arrays, objects"""
    import re
    if "n" in d:
        return re.fullmatch(r"-?(0|[1-9][0-9]{0,14})(\.[0-9]{0,5}[1-9])?", d["n"]) is not None and d["n"] != "-0"
    if "s" in d:
        return all(32 <= ord(ch) < 127 and ch not in "\\\"'" for ch in d["s"])
    if "b" in d:
        return True
    if "a" in d:
        return bool(d["a"]) and all(tame(e) for e in d["a"]) and len({tuple(sorted(e.keys())) for e in d["a"]}) == 1
    if "o" in d:
        return all(tame(kv["v"]) and kv["k"] and all(32 <= ord(ch) < 127 and ch not in "\\\"'" for ch in kv["k"])
                   for kv in d["o"]) and len({kv["k"] for kv in d["o"]}) == len(d["o"])
    return False


def yaml_text(d, block):
    """flow style = the JSON text; block style for the top-level members"""
    if not block:
        return raw_json(d)
    if not d["o"]:
        return "{}"
    return "".join("%s: %s\n" % (json.dumps(kv["k"]), raw_json(kv["v"])) for kv in d["o"])


def toml_value(d):
    if "a" in d:
        return "[" + ", ".join(toml_value(e) for e in d["a"]) + "]"
    if "o" in d:
        return "{" + ", ".join("%s = %s" % (json.dumps(kv["k"]), toml_value(kv["v"])) for kv in d["o"]) + "}"
    return raw_json(d)


def toml_text(d):
    """scalars and arrays first, then one [table] per object-valued member"""
    lines = []
    for kv in d["o"]:
        if "o" not in kv["v"]:
            lines.append("%s = %s" % (json.dumps(kv["k"]), toml_value(kv["v"])))
    for kv in d["o"]:
        if "o" in kv["v"]:
            lines.append("[%s]" % json.dumps(kv["k"]))
            for kv2 in kv["v"]["o"]:
                lines.append("%s = %s" % (json.dumps(kv2["k"]), toml_value(kv2["v"])))
    return "\n".join(lines) + "\n"


def sanitize_string_doc(mode, d):
    """parameter maps hold strings (path), strings or string lists (header), string lists (form)"""
    if d is None or "o" not in d:
        d = dobj([])
    for kv in d["o"]:
        v = kv["v"]
        if "s" in v:
            vals = [v]
        elif "a" in v and v["a"] and all("s" in e for e in v["a"]):
            vals = v["a"]
        else:
            vals = [ds("zz")]
        if mode in ("form", "httpx-form", "dform"):
            kv["v"] = {"a": vals}
        elif mode in ("path", "httpx-path"):
            kv["v"] = vals[0]
        else:
            kv["v"] = vals[0] if len(vals) == 1 else {"a": vals}
    seen = set()
    d["o"] = [kv for kv in d["o"] if not (kv["k"] in seen or seen.add(kv["k"]))]
    return d


EMPTY_SET_STYLES = ("omitempty", "emptyseg", "emptyoptions")


def fix_tags(t):
    """tag texts written in a style, and keys that default to the Go field name, are derived from
    (position, key, options) — also after a shrinking step changed them"""
    k = t["k"]
    if k in ("ptr", "slice", "map"):
        return fix_tags(t["e"])
    if k != "struct":
        return
    for idx, f in enumerate(t["f"]):
        if f.get("keyless"):
            f["key"] = "F%d" % idx
        if (f.get("style") or f.get("keyless")) and not f.get("rawfixed"):
            style = f.get("style") or "plain"
            if style in EMPTY_SET_STYLES and f["o"] is None:
                f["o"] = O()
            if style == "emptyoptions" and f["o"]["options"]:
                f["o"]["options"] = None
            if f.get("keyless") and f["o"] is None:
                f.pop("raw", None)
                f["key"] = "F%d" % idx
                f["notag"] = True
            else:
                f.pop("notag", None)
                f["raw"] = tag_text("" if f.get("keyless") else f["key"], f["o"], style)
        fix_tags(f["t"])


def finish(c):
    """derive the text sent to the implementation and the document tree given to Coq"""
    mode = c["mode"]
    if mode == "seq":
        for st in c["steps"]:
            # between two calls the caller uses its result: every reference-typed part of the target is overwritten
            if st["mode"] not in ("scribble", "disturb"):
                st.setdefault("mutate", True)
            finish(st)
        return c
    if mode in ("scribble", "disturb"):
        return c
    fix_tags(c["type"])
    if mode == "parse":
        rq = c["req"]
        for src, m in (("path", "path"), ("form", "form"), ("header", "header"), ("query", "form")):
            if rq.get(src) is not None:
                rq[src] = sanitize_string_doc(m, rq[src])
        if rq.get("bodydoc") is not None:
            if rq.get("body") is None:
                rq["body"] = raw_json(rq["bodydoc"])
            rq["bodydoc"] = dedup(rq["bodydoc"])
        return c
    if tag_of(mode) in STRING_TAGS:
        c["doc"] = sanitize_string_doc(mode, c.get("doc"))
    if mode in TEXT_MODES:
        if "raw" not in c:
            if mode in ("yaml", "yamlreader"):
                c["raw"] = yaml_text(c["doc"], bool(c.get("block")))
            elif mode in ("toml", "tomlbytes"):
                c["raw"] = toml_text(c["doc"])
            else:
                c["raw"] = raw_json(c["doc"])
        if c.get("doc") is not None:
            c["doc"] = dedup(c["doc"])
    return c


def form_doc(d, repeat=None):
    """what GetFormValues hands to the unmarshaller: empty values dropped, parameters left without
    values dropped, a trailing [] of the name removed; None = "too many form values" """
    if d is None:
        return None
    if True:
        n = repeat["n"] if repeat and repeat["val"] != "" else 0
        for kv in d["o"]:
            v = kv["v"]
            n += len([x for x in ([v] if "s" in v else v["a"]) if x["s"] != ""])
        if n > MAX_FORM_VALUES:
            return None
    pairs = []
    for kv in d["o"]:
        v = kv["v"]
        vals = [v] if "s" in v else v["a"]
        vals = [x for x in vals if x["s"] != ""]
        if vals:
            k = kv["k"]
            pairs.append((k[:-2] if k.endswith("[]") else k, {"a": vals}))
    return dobj(pairs)


def header_doc(d):
    """ParseHeaders: a single value stays a string"""
    if d is None:
        return None
    pairs = []
    for kv in d["o"]:
        v = kv["v"]
        if "a" in v and len(v["a"]) == 1:
            v = v["a"][0]
        pairs.append((kv["k"], v))
    return dobj(pairs)


def body_doc(raw, doc, ctype, pad=0):
    """ParseJsonBody: the body counts only when it is not empty and declared as JSON; it is cut at maxBodyLen"""
    if raw is None or raw == "" or JSON_CTYPE not in (JSON_CTYPE if ctype is None else ctype):
        return dobj([])
    if pad and len(raw) + pad > MAX_BODY:
        return None
    return doc


def model_doc(c):
    """the document the model sees (pre-processing done by net/http and rest/httpx is mirrored here)"""
    d = c.get("doc")
    mode = c["mode"]
    if mode == "httpx-json":
        return body_doc(c.get("raw"), d, c.get("ctype"), c.get("pad") or 0)
    if mode == "httpx-form":
        return form_doc(d, c.get("repeat"))
    if d is None:
        return None
    if mode in ("header", "httpx-header"):
        return header_doc(d)
    return d


TOKEN_CHARS = set("!#$%&'*+-.^_`|~0123456789abcdefghijklmnopqrstuvwxyzABCDEFGHIJKLMNOPQRSTUVWXYZ")


def canon(key):
    """textproto.CanonicalMIMEHeaderKey: first letter and letters after '-' upper case, the rest lower
    case; a key with a character outside the token alphabet is left as it is"""
    if not key or any(ch not in TOKEN_CHARS for ch in key):
        return key
    out, up = [], True
    for ch in key:
        out.append(ch.upper() if up else ch.lower())
        up = ch == "-"
    return "".join(out)


def canon_type(t):
    """header parameters: go-zero compares keys (and the keys dependencies name) in canonical form"""
    k = t["k"]
    if k in ("ptr", "slice", "map"):
        return {"k": k, "e": canon_type(t["e"])}
    if k != "struct":
        return t
    fs = []
    for f in t["f"]:
        g = dict(f)
        if not f.get("anon"):
            g["key"] = canon(f["key"])
        if f.get("o") and f["o"].get("dep"):
            g["o"] = dict(f["o"])
            g["o"]["dep"] = canon(f["o"]["dep"])
        g["t"] = canon_type(f["t"])
        fs.append(g)
    return {"k": "struct", "f": fs}


def canon_doc(d):
    if d is None or "o" not in d:
        return d
    return {"o": [{"k": canon(kv["k"]), "v": kv["v"]} for kv in d["o"]]}


def collect_claims(t, acc):
    """(tag text, key it stands for — empty when the tag leaves it out —, options it stands for) of every
    field whose tag text the generator wrote itself"""
    k = t["k"]
    if k in ("ptr", "slice", "map"):
        return collect_claims(t["e"], acc)
    if k != "struct":
        return
    for f in t["f"]:
        if f.get("raw") is not None and not f.get("anon"):
            acc.append((f["raw"], "" if f.get("keyless") else f["key"], f["o"]))
        collect_claims(f["t"], acc)


WS = " \t\n\v\f\r"


def parse_segments_py(val):
    segs, buf, escaped, grouped = [], "", False, False
    for chx in val:
        if escaped:
            buf += chx
            escaped = False
        elif chx == ",":
            if grouped:
                buf += chx
            else:
                segs.append(buf.strip(WS))
                buf = ""
        elif chx == "\\":
            if grouped:
                buf += chx
            else:
                escaped = True
        elif chx in "([":
            buf += chx
            grouped = True
        elif chx in ")]":
            buf += chx
            grouped = False
        else:
            buf += chx
    last = buf.strip(WS)
    if last:
        segs.append(last)
    return segs


BAD_RANGE = {"li": True, "l": None, "r": None, "ri": True}


def parse_tag_py(raw):
    """go-zero's doParseKeyAndOptions, mirrored: (key, options) with a refused tag shown as the ill-formed
    range; None when the tag is outside the modelled fragment.  Checked against TagModel.v on every case."""
    import re
    segs = parse_segments_py(raw.strip(WS))
    bad = lambda key: (key, O(range=dict(BAD_RANGE)))
    if not segs:
        return bad("")
    key, opts = segs[0].strip(WS), segs[1:]
    if not opts:
        return key, None
    o = O()

    def prop(opt):
        parts = opt.split("=")
        return parts[1].strip(WS) if len(parts) == 2 else None

    num = re.compile(r"[+-]?(\d+\.?\d*|\.\d+)([eE][+-]?\d+)?$")
    for opt in opts:
        opt = opt.strip(WS)
        if opt == "inherit":
            return None
        if opt.startswith("env") and not opt.startswith("envx_never"):
            if opt != "string" and not opt.startswith("optional") and not opt.startswith("options") and not opt.startswith("default"):
                return None if len(opt.split("=")) == 2 else bad(key)
        if opt == "string":
            o["str"] = True
        elif opt.startswith("optional"):
            parts = opt.split("=")
            if len(parts) > 2:
                return bad(key)
            o["opt"] = True
            if len(parts) == 2:
                d = parts[1]
                o["dep"], o["neg"] = (None, False) if d == "" else ((d[1:], True) if d[0] == "!" else (d, False))
        elif opt.startswith("options"):
            v = prop(opt)
            if v is None:
                return bad(key)
            if v == "":
                o["options"] = None
            elif v[0] == "[":
                o["options"] = parse_segments_py(v.lstrip("([").rstrip(")]")) or None
            else:
                o["options"] = v.split("|")
        elif opt.startswith("default"):
            v = prop(opt)
            if v is None:
                return bad(key)
            o["def"] = v or None
        elif opt.startswith("range"):
            v = prop(opt)
            if v is None or len(v) < 2 or v[0] not in "[(" or v[-1] not in "])":
                return bad(key)
            fs = v[1:-1].split(":")
            if len(fs) != 2 or (fs[0] == "" and fs[1] == ""):
                return bad(key)
            bs = []
            for x in fs:
                if x == "":
                    bs.append(None)
                elif num.match(x):
                    try:
                        if abs(Decimal(x)) >= Decimal("1.7976931348623158e308"):
                            return bad(key)
                    except Exception:
                        return bad(key)
                    bs.append(x.lstrip("+") if not x.lstrip("+-").startswith(".") and not x.rstrip().endswith(".") else format(Decimal(x), "f"))
                elif x.lower().lstrip("+-") in ("nan", "inf", "infinity"):
                    return None
                else:
                    return bad(key)
            l, r = bs
            if l is not None and r is not None:
                if Decimal(l) > Decimal(r) or (Decimal(l) == Decimal(r) and not (v[0] == "[" and v[-1] == "]")):
                    return bad(key)
            o["range"] = {"li": v[0] == "[", "l": l, "r": r, "ri": v[-1] == "]"}
    return key, o


TAG_LEXEMES = {
    "optional": ["optional", "optional=b", "optional=!b", "optional=", "optional=!", "optionalx", "optional=b=c", " optional ",
                 "optional=!!b", "optional= b"],
    "options": ["options=x|y", "options=[x,y]", "options=[ x , y ]", "options=x", "options=", "options=x||y", "options=[x\\,y,z]",
                "options=x|y|", "options=|", "options=[x|y,z]", "options=(x,y)", "optionsx=x|y", "options=x=y", "options=[[x],y]",
                "options= x|y ", "options=x |y", "options=1|2|3", "options=[1,2]", "options=[]", "options=[,]"],
    "default": ["default=1", "default=", "default= 2 ", "default=x=y", "default=1,default=2", "defaults=3", "default=zz", "default=9",
                "default=-1", "default=x\\,y", "default=1.5", "default=300", "default", "default=[1,2]"],
    "range": ["range=%s%s:%s%s" % (a, l, r, b) for a in "[(" for b in "])"
              for l, r in (("1", "5"), ("", "5"), ("1", ""), ("", ""), ("5", "5"), ("5", "1"), ("1e0", "5.0"), ("+1", "5"), ("-0", "0"),
                           ("1", "1e400"), ("0x1", "5"), (".5", "5."), ("1 ", "5"), ("-9223372036854775808", "9223372036854775807"),
                           ("0", "18446744073709551615"), ("1", "5e0"), ("a", "5"), ("1", "b"), ("0.1", "0.3"), ("-1e-7", "1e-7"))] +
             ["range=", "range", "range=1:5", "range=[1:5", "range=1:5]", "range=[1:2:3]", "range=[1]", "range=[", "range=[1:5]=",
              "range= [1:5] ", "rangex=[1:5]", "range=[1:5],range=[2:3]", "range=[ 1:5]", "range=[1: 5]"],
    "string": ["string", "string ", "String", "stringx"],
    "other": ["omitempty", "required", "", "-", "a=b"],
}


def near_tie_value(o, v):
    """the supplied number and a bound are different decimals with one float64 (outside the exact fragment)"""
    if not o or not o["range"]:
        return False
    lits = []

    def walk(x):
        if "n" in x or "s" in x:
            lits.append(x.get("n", x.get("s")))
        elif "a" in x:
            for e in x["a"]:
                walk(e)
        elif "g" in x:
            lits.append(x["g"][1])
    walk(v)
    for lit in lits:
        try:
            d = Decimal(lit.strip())
        except Exception:
            continue
        if not d.is_finite():
            continue
        for b in (o["range"]["l"], o["range"]["r"]):
            if b is not None and Decimal(b) != d and float(b) == float(d):
                return True
    return False


def tag_lexemes(rng, n):
    """the lexemes of the tag grammar, enumerated (every one alone, then sampled combinations in random
    order), each on an int and a string field, with documents derived from what the text means"""
    g = Gen(rng, "quick")
    cases = []
    singles = [(cls, lx) for cls, lxs in TAG_LEXEMES.items() for lx in lxs]
    combos = [[lx] for _, lx in singles]
    classes = list(TAG_LEXEMES)
    while len(combos) < len(singles) + n:
        k = rng.choice([2, 2, 3, 4])
        combos.append([rng.choice(TAG_LEXEMES[c]) for c in rng.sample(classes, k)])
    modes = ["json", "form", "key", "header", "path", "httpx-json", "httpx-form", "jsonmap"]
    for ci, lxs in enumerate(combos):
        for keytxt in (("a",) if ci % 7 else ("a", " a ", "", "a b")):
            raw = ",".join([keytxt] + lxs)
            parsed = parse_tag_py(raw)
            if parsed is None:
                continue
            key, o = parsed
            mode = modes[ci % len(modes)]
            if " " in key and mode in ("header", "httpx-header"):
                mode = "json"
            for kind in (("int", "string") if ci % 3 == 0 else (("int",) if ci % 3 == 1 else ("string",))):
                fa = F(key or "F0", P(kind), copy.deepcopy(o))
                fa["raw"], fa["rawfixed"] = raw, True
                if key == "":
                    fa["keyless"] = True
                fb = F("b", P("int"), O(opt=True))
                for intent in ("valid", None, "range", "option"):
                    if intent == "range" and not (o and o["range"] and o["range"] != BAD_RANGE and kind == "int"):
                        continue
                    if intent == "option" and not (o and o["options"]):
                        continue
                    pairs = []
                    if intent is not None:
                        try:
                            pairs.append((fa["key"], g.field_value(fa, mode, intent)))
                        except Exception:
                            continue
                    if pairs and near_tie_value(o, pairs[0][1]):
                        continue
                    if o and o["dep"] == "b" and rng.random() < 0.6:
                        pairs.append(("b", scalar_for(mode, "1")))
                    cases.append(finish({"mode": mode, "type": St(copy.deepcopy(fa), copy.deepcopy(fb)), "doc": dobj(pairs),
                                         "intent": "tag-lexemes"}))
    return cases


def passes_of(c, obs):
    """the passes of one call: (Gallina kcfg, the type as that unmarshaller sees it, its document,
    the observed target restricted to its fields)"""
    val = obs.get("val") if obs else None
    if c["mode"] != "parse":
        tag, kc = ENTRY[c["mode"]]
        t, d = view_type(c["type"], tag), model_doc(c)
        if tag == "header":
            t, d = canon_type(t), canon_doc(d)
        return [{"tag": tag, "kc": kc, "type": t, "doc": d, "val": project_val(c["type"], tag, val)}]
    rq = c["req"]
    dual = {int(i): t for i, t in (c.get("dual") or {}).items()}
    entry = c.get("entry") or "Parse"
    res = []
    for tag in (PARSE_ORDER if entry == "Parse" else [ENTRY_TAG[entry]]):
        drop = {i for i, owner in dual.items() if owner != tag} if entry == "Parse" else set()
        # a field tagged for several passes and supplied to none of the others (it is optional there and has
        # no default) is left untouched by them: it belongs to the pass that supplies it
        full_drop = {i for i in drop if c["type"]["f"][i].get("tags") and tag in c["type"]["f"][i]["tags"]}
        t = drop_fields(c["type"], full_drop)
        if tag == "path":
            d = rq.get("path") or dobj([])
        elif tag == "form":
            d = form_doc(request_form(rq))
        elif tag == "header":
            d = header_doc(rq.get("header") or dobj([]))
        else:
            d = dobj([]) if rq.get("postform") else body_doc(rq.get("body"), rq.get("bodydoc"), rq.get("ctype"))
        vt = view_type(t, tag)
        if tag == "header":
            vt, d = canon_type(vt), canon_doc(d)
        res.append({"tag": tag, "kc": PASS_KC[tag], "type": vt, "doc": d,
                    "val": project_val(c["type"], tag, val, full_drop)})
    return res


ENTRY_TAG = {"ParseForm": "form", "GetFormValues": "form", "ParsePath": "path", "ParseHeaders": "header", "ParseJsonBody": "json"}


def request_form(rq):
    """what net/http puts into r.Form: the query parameters; with a posted form the posted values of a
    name come first and the query's after them; with a multipart form the other way round"""
    f = rq.get("form") or dobj([])
    q = rq.get("query")
    if not rq.get("postform") or not q or not q["o"]:
        return f
    merged, order = {}, []
    for d in ((q, f) if rq.get("multipart") else (f, q)):
        for kv in d["o"]:
            vals = [kv["v"]] if "s" in kv["v"] else kv["v"]["a"]
            if kv["k"] not in merged:
                merged[kv["k"]] = []
                order.append(kv["k"])
            merged[kv["k"]] += vals
    return dobj([(k, {"a": merged[k]}) for k in order])


def form_claims(c):
    """(the form parameters as sent, repeat, the document given to the form pass): Check.v recomputes the
    document from the parameters with the model of GetFormValues"""
    if c["mode"] == "httpx-form":
        return [(c.get("doc") or dobj([]), c.get("repeat"), form_doc(c.get("doc") or dobj([]), c.get("repeat")))]
    if c["mode"] == "parse" and (c.get("entry") or "Parse") in ("Parse", "ParseForm", "GetFormValues"):
        f = request_form(c["req"])
        return [(f, None, form_doc(f))]
    return []


def crform(d, repeat=None):
    """r.Form as a Gallina rform"""
    items = []
    for kv in d["o"]:
        v = kv["v"]
        vals = [v] if "s" in v else v["a"]
        items.append([kv["k"], clist([cstr(x["s"]) for x in vals])])
    if repeat:
        for it in items:
            if it[0] == repeat["key"]:
                it[1] = "(%s ++ repeat %s %d)%%list" % (it[1], cstr(repeat["val"]), repeat["n"])
                break
        else:
            items.append([repeat["key"], "(repeat %s %d)" % (cstr(repeat["val"]), repeat["n"])])
    return clist(["(%s, %s)" % (cstr(k), v) for k, v in items])


def completion_prone(d):
    """recursiveValuer completes an object found under a name that an enclosing scope also holds as an
    object — in place, in the caller's map (go-zero's configuration inheritance; observed, see notes):
    a document in which two objects are stored under one member name"""
    names = []

    def walk(x):
        if x and "o" in x:
            for kv in x["o"]:
                if "o" in kv["v"]:
                    names.append(kv["k"].lower())
                walk(kv["v"])
        elif x and "a" in x:
            for e in x["a"]:
                walk(e)
    walk(d)
    return len(names) != len(set(names))


def input_judged(c):
    """is "the caller's input holds what it held before the call" demanded of this call?"""
    if c["mode"] in ("key", "jsonmap", "keyvaluer", "okey", "dform"):
        return not completion_prone(c.get("doc"))
    return True


def systematic(rng):
    """every combination of the option dimensions on one field `a` with a sibling `b`,
    kinds and modes cycling, each with the documents that probe it"""
    g = Gen(rng, "quick")
    cases = []
    i = 0
    kinds_cycle = ["int", "uint8", "float64", "string", "int64", "float32", "bool", "int16", "uint"]
    modes_cycle = ["json", "key", "form", "path", "header", "json", "httpx-json", "httpx-form", "json"]
    for optmode in ("none", "optional", "dep", "ndep"):
        for default in (False, True):
            for rg in (False, True):
                for options in (False, True):
                    for strflag in (False, True):
                        kind = kinds_cycle[i % len(kinds_cycle)]
                        mode = modes_cycle[(i // 2) % len(modes_cycle)]
                        i += 1
                        if strflag and mode not in ("json", "key", "httpx-json"):
                            mode = "json"
                        o = g.gen_opts(kind, ["b"], mode, force={"optmode": optmode, "default": default,
                                                                "range": rg, "options": options, "str": strflag})
                        ta = P(kind)
                        if i % 5 == 0:
                            ta = Ptr(ta)
                        fa = F("a", ta, o)
                        fb = F("b", P("int"), O(opt=True))
                        fields = [fa, fb] if i % 2 else [fb, fa]
                        bval = ds("1") if mode in STRING_MODES else dn("1")
                        if mode in ("form", "httpx-form"):
                            bval = {"a": [bval]}
                        docs = []
                        for a_intent in ("valid", None, "range", "option", "null", "type", "syntax"):
                            for b_on in (False, True):
                                if a_intent in ("option",) and not options:
                                    continue
                                if a_intent in ("range",) and not rg:
                                    continue
                                if a_intent in ("null", "type", "syntax") and b_on != (optmode == "dep"):
                                    continue
                                if a_intent == "null" and mode in STRING_MODES:
                                    continue
                                pairs = []
                                if a_intent is not None:
                                    pairs.append(("a", g.field_value(fa, mode, a_intent)))
                                if b_on:
                                    pairs.append(("b", bval))
                                docs.append(dobj(pairs))
                        for d in docs:
                            cases.append(finish({"mode": mode, "type": St(*fields), "doc": d, "intent": "systematic"}))
    # every integer kind at and just beyond its limits, through each conversion path
    for kind in INT_KINDS + UINT_KINDS:
        b = BITS[kind]
        lims = [2 ** b - 1, 2 ** b, 0, -1] if kind in UINT_KINDS else [2 ** (b - 1) - 1, 2 ** (b - 1), -2 ** (b - 1), -2 ** (b - 1) - 1]
        for lim in lims:
            lit = str(lim)
            cases.append(finish({"mode": "json", "type": St(F("a", P(kind))), "doc": dobj([("a", dn(lit))]), "intent": "limits"}))
            cases.append(finish({"mode": "path", "type": St(F("a", Ptr(P(kind)), O(range=R("[:]".replace(":", "-1e30:1e30"))))),
                                 "doc": dobj([("a", ds(lit))]), "intent": "limits"}))
            cases.append(finish({"mode": "json", "type": St(F("a", Sl(P(kind if kind != "uint8" else "uint16"))), F("m", Mp(P(kind)))),
                                 "doc": dobj([("a", {"a": [dn(lit)]}), ("m", dobj([("k", dn(lit))]))]), "intent": "limits"}))
            cases.append(finish({"mode": "json", "type": St(F("a", P(kind), O(str=True))), "doc": dobj([("a", ds(lit))]), "intent": "limits"}))
            if kind in UINT_KINDS or lim >= 0:
                cases.append(finish({"mode": "json", "type": St(F("a", P(kind), O(**{"def": lit}))), "doc": dobj([]), "intent": "limits"}))
    for lit in ("3.4e38", "3.5e38", "-3.5e38", "1e39", "1.7e308", "1.8e308", "1e400", "-1e400", "1e-3"):
        for kind in FLOAT_KINDS:
            cases.append(finish({"mode": "json", "type": St(F("a", P(kind))), "doc": dobj([("a", dn(lit))]), "intent": "limits"}))
            cases.append(finish({"mode": "form", "type": St(F("a", P(kind), O(range=R("[-1e39:1e39]")))),
                                 "doc": dobj([("a", {"a": [ds(lit)]})]), "intent": "limits"}))
    # far outside the range, yet congruent to an inside value modulo 2^8 / 2^16 / 2^32
    for kind in INT_KINDS + UINT_KINDS + FLOAT_KINDS:
        for lit in ("257", "65537", "4294967297", "-4294967295", "-65535"):
            if kind in BITS:
                v, b = int(lit), BITS[kind]
                if not ((0 <= v < 2 ** b) if kind in UINT_KINDS else (-2 ** (b - 1) <= v < 2 ** (b - 1))):
                    continue
            rg = O(range=R("[0:10]"))
            cases.append(finish({"mode": "json", "type": St(F("a", P(kind), copy.deepcopy(rg))), "doc": dobj([("a", dn(lit))]), "intent": "alias"}))
            cases.append(finish({"mode": "path", "type": St(F("a", P(kind), copy.deepcopy(rg))), "doc": dobj([("a", ds(lit))]), "intent": "alias"}))
            cases.append(finish({"mode": "json", "type": St(F("a", Ptr(P(kind)), O(range=R("[0:10]"), str=True))),
                                 "doc": dobj([("a", ds(lit))]), "intent": "alias"}))
            cases.append(finish({"mode": "key", "type": St(F("a", P(kind), copy.deepcopy(rg))),
                                 "doc": dobj([("a", {"g": [kind, lit]})]), "intent": "alias"}))
    # anonymous (embedded) structs: value / pointer, plain / ",optional", members with every
    # option kind, documents supplying all / none / every subset of the members
    import itertools
    member_sets = [
        [F("a", P("int"), O(range=R("[1:5]"))), F("b", P("int"), O(options=["5", "6"], **{"def": "5"})),
         F("c", P("int8"), O(opt=True, **{"def": "7"})), F("d", P("string"), O(opt=True))],
        [F("a", P("int")), F("b", P("float64"), O(**{"def": "2.5"}))],
        [F("b", P("string"), O(**{"def": "dd"}))],
        [F("c", P("uint8"), O(opt=True, **{"def": "9"})), F("d", P("bool"), O(opt=True))],
        [F("a", P("int"), O(opt=True, dep="d")), F("d", P("int"), O(opt=True)), F("b", Ptr(P("int")), O(**{"def": "4"}))],
        [F("a", P("int"), O(opt=True, dep="z", neg=True)), F("b", P("int"), O(**{"def": "4"}))],
        [F("a", Sl(P("int"))), F("m", Mp(P("int"))), F("s", St(F("x", P("int"), O(**{"def": "1"})))), F("b", P("int"), O(**{"def": "3"}))],
        [F("a", P("int")), F("b", P("int"), O(**{"def": "zz"}))],
    ]
    for members in member_sets:
        keys = [f["key"] for f in members]
        for optional in (False, True):
            for ptr in (False, True):
                for emode in ("json", "form", "key", "httpx-form", "header", "httpx-header"):
                    if emode in STRING_MODES and any(deref(f["t"])["k"] not in KINDS for f in members):
                        continue
                    subsets = [ks for n in range(len(keys) + 1) for ks in itertools.combinations(keys, n)]
                    if emode != "json":
                        subsets = [ks for j, ks in enumerate(subsets) if j % 3 == (len(keys) % 3)]
                    for ks in subsets:
                        for bad in (False, True):
                            if bad and ("a" not in ks or emode != "json"):
                                continue
                            inner = St(*copy.deepcopy(members))
                            emb = A(Ptr(inner) if ptr else inner, optional)
                            outer = [F("z", P("int"), O(opt=True)), emb]
                            pairs = []
                            for f in inner["f"]:
                                if f["key"] in ks:
                                    v = g.field_value(f, emode, "valid")
                                    if bad and f["key"] == "a":
                                        v = dn("100") if deref(f["t"])["k"] in KINDS else NULL
                                    pairs.append((f["key"], v))
                            cases.append(finish({"mode": emode, "type": St(*outer), "doc": dobj(pairs), "intent": "embedded"}))
    # an absent struct field: reported iff one of its own fields has to be supplied
    i = P("int")
    inner = [
        [F("x", i)], [F("x", i, O(opt=True))], [F("x", i, O(**{"def": "3"}))], [F("x", Mp(i))], [F("x", Mp(i), O(opt=True))],
        [F("x", Sl(i))], [F("x", Ptr(i))], [F("x", St(F("y", i, O(opt=True))))], [F("x", Ptr(St(F("y", i, O(opt=True)))))],
        [F("x", St(F("y", i)))], [F("x", i, O(opt=True, dep="z")), F("z", i, O(opt=True))],
        [F("x", i, O(opt=True, dep="z", neg=True)), F("z", i, O(opt=True))], [F("x", i, O(range=R("[1:2]")))],
        [F("x", i, O(opt=True)), F("z", Mp(i))],
    ]
    for fs in inner:
        for outer_opt in (None, O(opt=True)):
            for wrap in (lambda t: t, Ptr):
                for doc in (dobj([]), dobj([("s", dobj([]))]), dobj([("s", NULL)])):
                    cases.append(finish({"mode": "json", "type": St(F("s", wrap(St(*copy.deepcopy(fs))), copy.deepcopy(outer_opt))),
                                         "doc": doc, "intent": "nested-absent"}))
    return cases


def sequences(rng, n):
    """2-3 requests through the same process: earlier ones end in each error class (or succeed)
    and carry keys / values that the last one omits"""
    g = Gen(rng, "quick")
    cases = []
    i = P("int")

    def family(mode):
        return St(F("a", i, O(range=R("[1:5]"))), F("b", i, O(**{"def": "7"})),
                  F("c", P("string"), O(opt=True)), F("d", P("int8"), O(opt=True, options=["1", "2"])),
                  F("e", Ptr(i), O(opt=True, dep="d")))

    def val(mode, lit, string=False):
        if mode in ("httpx-json",):
            return ds(lit) if string else dn(lit)
        return ds(lit)

    def full(mode, a="3"):
        return [("a", val(mode, a)), ("b", val(mode, "9")), ("c", val(mode, "stale", True)), ("d", val(mode, "2")),
                ("e", val(mode, "4"))]

    def step(mode, pairs, st=None, **kw):
        c = {"mode": mode, "type": copy.deepcopy(st or family(mode)), "doc": dobj(pairs)}
        c.update(kw)
        return c

    for k in range(n):
        mode = ["httpx-form", "httpx-json", "httpx-header", "httpx-path", "httpx-form", "httpx-json"][k % 6]
        direct = (k // 6) % 2 == 1
        steps = []
        for _ in range(rng.choice([1, 1, 2])):
            kind = rng.choice(["range", "type", "missing", "ok", "option", "big"])
            if kind == "range":
                steps.append(step(mode, full(mode, "100")))
            elif kind == "type":
                steps.append(step(mode, full(mode, "abc") if mode != "httpx-json" else
                                  [("a", ds("abc"))] + full(mode)[1:]))
            elif kind == "missing":
                steps.append(step(mode, full(mode)[1:]))
            elif kind == "option":
                steps.append(step(mode, full(mode)[:3] + [("d", val(mode, "5")), ("e", val(mode, "4"))]))
            elif kind == "ok":
                steps.append(step(mode, full(mode)))
            elif mode == "httpx-form":
                # too many form values: the rejected request carries every key
                steps.append(step(mode, full(mode), repeat={"key": rng.choice(["x", "c", "zz"]), "val": "v",
                                                            "n": rng.choice([MAX_FORM_VALUES, MAX_FORM_VALUES + 50])}))
            elif mode == "httpx-json":
                if rng.random() < 0.12:
                    steps.append(step(mode, full(mode), pad=MAX_BODY))          # oversized body
                else:
                    st = step(mode, full(mode))
                    st["raw"] = raw_json(st["doc"])[:-rng.randint(1, 6)]         # malformed body
                    st["doc"] = None
                    steps.append(st)
            else:
                steps.append(step(mode, full(mode, "0")))
        last = rng.choice([[("a", "3")], [("a", "5")], [], [("a", "2"), ("c", "own")], [("a", "1"), ("d", "1"), ("e", "8")],
                           [("d", "1")], [("a", "4"), ("b", "1")]])
        steps.append(step(mode, [(key, val(mode, lit, key == "c")) for key, lit in last]))
        for st in steps:
            st["direct"] = direct
        cases.append(finish({"mode": "seq", "procs1": k % 2 == 0, "steps": steps, "intent": "sequence"}))
    # the two front-end rejections, systematically: too many form values / oversized or cut body,
    # each followed by requests that omit what the rejected one carried
    lasts = [[("a", "3")], [], [("a", "2"), ("c", "own")], [("d", "1")]]
    for procs1 in (True, False):
        for direct in (False, True):
            for li, last in enumerate(lasts):
                big = step("httpx-form", full("httpx-form"),
                           repeat={"key": ["x", "c", "a", "zz"][li], "val": "v", "n": MAX_FORM_VALUES + li})
                tail = step("httpx-form", [(key, val("httpx-form", lit, key == "c")) for key, lit in last])
                steps = [big, tail] if li % 2 == 0 else [big, copy.deepcopy(tail), tail]
                for st in steps:
                    st["direct"] = direct
                cases.append(finish({"mode": "seq", "procs1": procs1, "steps": steps, "intent": "sequence"}))
                cut = step("httpx-json", full("httpx-json"))
                if li == 0 and direct:
                    cut["pad"] = MAX_BODY
                else:
                    cut["raw"] = raw_json(cut["doc"])[:-(li + 1)]
                    cut["doc"] = None
                tail = step("httpx-json", [(key, val("httpx-json", lit, key == "c")) for key, lit in last])
                steps = [cut, tail]
                for st in steps:
                    st["direct"] = direct
                cases.append(finish({"mode": "seq", "procs1": procs1, "steps": steps, "intent": "sequence"}))
    # random types: a request with one violation, then a valid one reduced to what it must supply
    for k in range(n // 2):
        mode = rng.choice(["httpx-form", "httpx-json", "httpx-header", "httpx-path"])
        st = g.gen_struct(1 if mode == "httpx-json" else 0, mode, rng.randint(2, 4))
        nf = g.count_fields(st["f"])
        bad = (rng.randrange(nf), rng.choice(["range", "option", "type", "overflow", "missing", "present"]))
        first = {"mode": mode, "type": copy.deepcopy(st), "doc": g.object_for(st["f"], mode, bad)}
        second_doc = g.object_for(st["f"], mode)
        keep = []
        for kv in second_doc["o"]:
            f = next((f for f, _ in flat_fields(st["f"]) if f["key"] == kv["k"]), None)
            if f is not None and (f["o"] is None or not (f["o"]["opt"] or f["o"]["def"] is not None) or rng.random() < 0.3):
                keep.append(kv)
        second = {"mode": mode, "type": copy.deepcopy(st), "doc": {"o": keep}}
        direct = rng.random() < 0.5
        first["direct"] = second["direct"] = direct
        cases.append(finish({"mode": "seq", "procs1": rng.random() < 0.5, "steps": [first, second], "intent": "sequence"}))
    return cases


# ---------------------------------------------------------------------------- round 3 generators

_SALT = [0]


def fresh(prefix="k"):
    """a key segment no other case of this run uses: what a process-wide table keyed by key or
    tag text remembers about it can only come from the calls of the same case"""
    _SALT[0] += 1
    return "%s%d" % (prefix, _SALT[0])


def tag_text(key, o, style="plain"):
    """the tag value as go-zero parses it back to (key, o); styles exercise parseSegments / parseOption"""
    sep = ", " if style == "spaces" else ","
    eq = "= " if style == "spaces" else "="
    segs = [key]
    if o:
        if o["opt"]:
            segs.append("optional" if o["dep"] is None else "optional=%s%s" % ("!" if o["neg"] else "", o["dep"]))
        if o["def"] is not None:
            segs.append("default" + eq + o["def"].replace(",", "\\,"))
        if o["range"]:
            r = o["range"]
            segs.append("range" + eq + ("[" if r["li"] else "(") + (r["l"] or "") + ":" + (r["r"] or "") + ("]" if r["ri"] else ")"))
        if o["options"]:
            if style == "bracket":
                segs.append("options" + eq + "[" + ",".join(o["options"]) + "]")
            else:
                segs.append("options" + eq + "|".join(o["options"]))
        if o["str"]:
            segs.append("string")
    if style == "omitempty":
        segs.append("omitempty")
    if style == "emptyseg":
        segs.insert(1, "")
        if len(segs) == 2:
            segs.append("")
    if style == "emptyoptions":
        segs.append("options=")
    if style == "trailing":
        return sep.join(segs) + ","
    return sep.join(segs)


SOME_NONE = O()     # an option set with nothing in it: `json:"a,omitempty"` (options != nil in Go)


def multi(key, t, specs):
    """a field carrying one tag per unmarshaller kind: specs = {tag: options or None}"""
    return {"key": key, "t": t, "o": None, "tags": {tag: {"key": key, "o": copy.deepcopy(o)} for tag, o in specs.items()}}


def nested_doc(key, v):
    """the value at the end of the dotted path"""
    segs = [x for x in key.split(".") if x]
    for seg in reversed(segs[1:]):
        v = dobj([(seg, v)])
    return segs[0], v


CHAINED_KINDS = ["json", "key", "jsonmap", "jsonreader", "httpx-json"]
OPAQUE_KINDS = ["form", "path", "httpx-form", "httpx-path", "okey", "ojson"]
STRINGY = ("form", "path", "header", "httpx-form", "httpx-path", "httpx-header", "dform")


def scalar_for(mode, lit):
    v = ds(lit) if mode in STRINGY else dn(lit)
    return {"a": [v]} if mode in ("form", "httpx-form", "dform") else v


def key_templates():
    return ["{s}.b", "{s}.b.c", "{s}..b", ".{s}.b", "{s}.b.", "{s}.\u043a\u043b\u044e\u0447", "{s}-b.c-d", "{s}.b.c.d.e",
            "{s}.{s}", "{s}. b"]


def crosskind(rng, n):
    """calls of different unmarshaller kinds in ONE process on the same key text / tag text /
    struct type, in both orders; every call is judged on its own document"""
    cases = []
    i = P("int")

    def call(mode, fields, pairs, **kw):
        c = {"mode": mode, "type": St(*copy.deepcopy(fields)), "doc": dobj(pairs)}
        c.update(kw)
        return c

    def docs_for(mode, key, how, lit):
        """how: nested / literal / both / none / shadow (first segment present, not an object)"""
        if how == "none":
            return []
        if mode in STRINGY or how == "literal":
            return [(key, scalar_for(mode, lit))] if how in ("literal", "both", "nested") or mode in STRINGY else []
        k0, v = nested_doc(key, scalar_for(mode, lit))
        if how == "nested":
            return [(k0, v)]
        if how == "both":
            return [(k0, v), (key, scalar_for(mode, "3"))]
        return [(k0, scalar_for(mode, "1"))]

    combos = []
    for tmpl in key_templates():
        for order in (0, 1):
            for req in (False, True):
                combos.append((tmpl, order, req))
    rng.shuffle(combos)
    for tmpl, order, req in combos[:n]:
        s0 = fresh()
        key = tmpl.replace("{s}", s0)
        o = O(opt=not req, range=R("[1:100]"))
        sib = F(fresh("z"), i, O(opt=True))
        fields = [F(key, i, o), sib] if rng.random() < 0.5 else [sib, F(key, i, o)]
        chained = rng.choice(CHAINED_KINDS)
        opaque = rng.choice(OPAQUE_KINDS)
        first, second = (chained, opaque) if order == 0 else (opaque, chained)
        steps = []
        for mode in (first, second, first, second):
            how = rng.choice(["nested", "nested", "literal", "both", "none", "shadow"])
            lit = rng.choice(["7", "7", "1000", "0", "100", "1"])
            steps.append(call(mode, fields, docs_for(mode, key, how, lit), direct=rng.random() < 0.5))
        # the decisive pair is always there: the chained kind supplies the nested member, the opaque kind the
        # parameter of that name, once inside and once outside the range
        lit1, lit2 = rng.choice([("7", "1000"), ("1000", "7"), ("1000", "1000"), ("7", "7")])
        steps[0] = call(first, fields, docs_for(first, key, "nested", lit1))
        steps[1] = call(second, fields, docs_for(second, key, "nested", lit2))
        cases.append(finish({"mode": "seq", "procs1": rng.random() < 0.5, "steps": steps, "intent": "crosskind"}))

    # one struct TYPE read by several kinds (every tag on every field), a key that is a prefix of
    # another, the same tag text under different tag keys and on fields of different names
    for k in range(max(4, n // 3)):
        s0 = fresh()
        specs = lambda o: {t: o for t in ("json", "form", "path", "header", "key")}
        fields = [multi(s0, St(F("b", i, O(opt=True))) if k % 2 else i, specs(O(opt=True))),
                  multi(s0 + ".b", i, specs(O(opt=True, range=R("[1:100]")))),
                  multi(s0 + ".b.c", P("string"), specs(O(opt=True, options=["x", "y"])))]
        steps = []
        kinds = rng.sample(["json", "form", "path", "key", "httpx-json", "httpx-form", "httpx-path", "header", "okey"], 4)
        for mode in kinds + kinds[:2]:
            pairs = []
            lit = rng.choice(["7", "1000"])
            word = rng.choice(["x", "q"])
            if mode in STRINGY or mode in ("okey",):
                if rng.random() < 0.7:
                    pairs.append((s0 + ".b", scalar_for(mode, lit)))
                if rng.random() < 0.5:
                    pairs.append((s0 + ".b.c", {"a": [ds(word)]} if mode in ("form", "httpx-form") else ds(word)))
                if k % 2 == 0 and rng.random() < 0.3:
                    pairs.append((s0, scalar_for(mode, "5")))
            else:
                inner = []
                if rng.random() < 0.7:
                    inner.append(("b", dn(lit) if rng.random() < 0.6 else dobj([("c", ds(word))])))
                if k % 2 == 0 and rng.random() < 0.25:
                    pairs.append((s0, dn("5")))
                else:
                    pairs.append((s0, dobj(inner)))
                if rng.random() < 0.3:
                    pairs.append((s0 + ".b", dn(lit)))
            steps.append(call(mode, fields, pairs, direct=rng.random() < 0.5))
            if rng.random() < 0.5 and mode not in STRINGY:
                # the same TYPE under unmarshallers with other option sets (fill-default, string values, opaque keys ...)
                steps.append({"mode": "disturb", "type": St(*copy.deepcopy(fields)), "tag": tag_of(mode), "doc": dobj(pairs)})
        cases.append(finish({"mode": "seq", "procs1": k % 2 == 0, "steps": steps, "intent": "crosskind-type"}))

    # "is an absent struct value required?" depends on the tag key (F27: the answer was memoised per type only)
    shapes = [
        ({"json": O(opt=True), "form": None}, None),
        ({"json": None, "form": O(opt=True)}, None),
        ({"json": O(**{"def": "3"}), "form": None}, None),
        ({"json": O(opt=True), "form": O(range=R("[1:5]"))}, None),
        ({"json": O(opt=True, dep="zz", neg=True), "form": O(opt=True)}, None),
        ({"json": O(opt=True), "form": None, "path": O(opt=True), "header": None, "key": O(**{"def": "1"})}, None),
        # a member that only some kinds read: for the others it makes an absent struct value required
        ({"json": O(opt=True)}, ("json", "form")),
        ({"form": O(opt=True)}, ("json", "form", "key")),
        ({"json": O(**{"def": "2"}), "key": O(opt=True)}, ("json", "key", "path")),
    ]
    for si, (specs, outer_tags) in enumerate(shapes):
        for ptr in (False, True):
            for order in (0, 1, 2):
                a = fresh("a")
                inner = St(multi(a, i, specs), multi(fresh("o"), i, {t: O(opt=True) for t in (outer_tags or specs)}))
                outer = [multi(fresh("in"), Ptr(inner) if ptr else inner, {t: None for t in (outer_tags or specs)})]
                tags = list(outer_tags or specs)
                if order == 1:
                    tags.reverse()
                elif order == 2:
                    rng.shuffle(tags)
                modes = {"json": rng.choice(["json", "httpx-json", "jsonmap"]), "form": rng.choice(["form", "httpx-form"]),
                         "path": "path", "header": "header", "key": "key"}
                steps = [call(modes[t], outer, [], direct=True) for t in tags + tags[:1]]
                if order == 2:
                    steps.insert(1, {"mode": "disturb", "type": St(*copy.deepcopy(outer)), "tag": tags[0], "doc": dobj([])})
                    steps.insert(0, {"mode": "disturb", "type": St(*copy.deepcopy(outer)), "tag": tags[-1], "doc": dobj([])})
                cases.append(finish({"mode": "seq", "procs1": bool(si % 2), "steps": steps, "intent": "required-per-tag"}))
    return cases


def dotted(rng):
    """chained keys: every further segment is looked up in the object found so far and, failing
    that, in the enclosing objects; an object found under a name that an outer scope also holds
    as an object takes the members it lacks from there; "-" skips the field"""
    cases = []
    i = P("int")

    def one(mode, fields, doc, intent="dotted"):
        cases.append(finish({"mode": mode, "type": St(*copy.deepcopy(fields)), "doc": doc, "intent": intent}))

    for mode in ("json", "key", "ojson", "okey"):
        for opts in (O(range=R("[1:5]")), O(opt=True, range=R("[1:5]")), O(**{"def": "2"}), None):
            a, b, c = fresh("a"), fresh("b"), fresh("c")
            key = "%s.%s" % (a, b)
            fs = [F(key, i, copy.deepcopy(opts))]
            for lit in ("3", "9"):
                v = dn(lit)
                one(mode, fs, dobj([(a, dobj([(b, v)]))]))
                one(mode, fs, dobj([(a, dobj([])), (b, v)]))                       # falls back to the enclosing object
                one(mode, fs, dobj([(a, dobj([(b, v)])), (b, dn("4"))]))            # the inner one wins
                one(mode, fs, dobj([(a, dn("1")), (b, v)]))                         # first segment is not an object
                one(mode, fs, dobj([(a, NULL), (b, v)]))
                one(mode, fs, dobj([(key, v)]))                                     # a member named like the whole key
                one(mode, fs, dobj([(a, dobj([(b, NULL)]))]))
            key3 = "%s.%s.%s" % (a, b, c)
            fs3 = [F(key3, i, copy.deepcopy(opts))]
            one(mode, fs3, dobj([(a, dobj([(b, dobj([(c, dn("3"))]))]))]))
            one(mode, fs3, dobj([(a, dobj([(b, dobj([])), (c, dn("3"))]))]))        # c one level up
            one(mode, fs3, dobj([(a, dobj([(b, dobj([]))])), (c, dn("9"))]))        # c two levels up
            one(mode, fs3, dobj([(a, dobj([])), (b, dobj([(c, dn("3"))]))]))        # b one level up, then c inside it
            one(mode, fs3, dobj([(a, dobj([(b, dn("1"))])), (c, dn("3"))]))
    # inside nested struct fields: the enclosing struct objects are scopes too; elements of slices and maps have none
    for mode in ("json", "key"):
        a, b, s1 = fresh("a"), fresh("b"), fresh("s")
        key = "%s.%s" % (a, b)
        inner = St(F(key, i, O(opt=True, range=R("[1:5]"))))
        for wrap, mk in ((lambda t: t, lambda x: x), (Ptr, lambda x: x), (Sl, lambda x: {"a": [x]}), (Mp, lambda x: dobj([("m", x)]))):
            fs = [F(s1, wrap(inner))]
            for lit in ("3", "9"):
                one(mode, fs, dobj([(s1, mk(dobj([(a, dobj([(b, dn(lit))]))])))]))
                one(mode, fs, dobj([(s1, mk(dobj([(a, dobj([]))]))), (b, dn(lit))]))               # b in the outermost object
                one(mode, fs, dobj([(s1, mk(dobj([(a, dobj([])), (b, dn(lit))])))]))
        # an object-valued member completed from the outer scope
        m1 = fresh("m")
        keym = "%s.%s" % (a, m1)
        for t, inner_v, outer_v in ((Mp(i), dobj([("x", dn("1"))]), dobj([("y", dn("2")), ("x", dn("7"))])),
                                    (St(F("x", i), F("y", i, O(opt=True))), dobj([("x", dn("1"))]), dobj([("y", dn("2"))])),
                                    (St(F("x", i), F("y", i)), dobj([("x", dn("1"))]), dobj([("q", dn("2"))]))):
            one(mode, [F(keym, t)], dobj([(a, dobj([(m1, copy.deepcopy(inner_v))])), (m1, copy.deepcopy(outer_v))]))
            one(mode, [F(keym, t)], dobj([(a, dobj([(m1, copy.deepcopy(inner_v))]))]))
            one(mode, [F(keym, t)], dobj([(a, dobj([])), (m1, copy.deepcopy(outer_v))]))
    for mode in ("json", "key"):
        a, m1 = fresh("a"), fresh("m")
        keym = "%s.%s" % (a, m1)
        # the outer scope holds a scalar under the name of the inner object: nothing to complete from
        one(mode, [F(keym, Mp(i))], dobj([(a, dobj([(m1, dobj([("x", dn("1"))]))])), (m1, dn("5"))]))
        one(mode, [F(keym, Mp(i))], dobj([(a, dobj([(m1, dobj([("x", dn("1"))]))])), (m1, NULL)]))
        # keys made of dots only have no segment at all: never found
        for key in (".", "..", "..."):
            for o in (O(opt=True), None, O(**{"def": "4"})):
                one(mode, [F(key, i, copy.deepcopy(o)), F(a, i, O(opt=True))], dobj([(key, dn("3")), (a, dn("1"))]))
                one(mode, [F(key, i, copy.deepcopy(o))], dobj([]))
    for mode in ("form", "path", "okey"):
        for key in (".", "..", "a."):
            v = scalar_for(mode, "3")
            one(mode, [F(key, i, O(opt=True, range=R("[1:2]")))], dobj([(key, v)]))
            one(mode, [F(key, i, O(opt=True, range=R("[1:5]")))], dobj([(key, v)]))
    # "-": the field is skipped whatever the document holds (its tag is still parsed, its dependency resolved)
    for mode in ("json", "form", "path", "header", "key", "httpx-form"):
        z = fresh("z")
        v = scalar_for(mode, "5")
        for o in (None, O(range=R("[1:2]")), O(opt=True), O(opt=True, dep=z), O(opt=True, dep=z, neg=True), O(**{"def": "4"}),
                  O(range=R("[3:1]"))):
            fs = [F("-", i, copy.deepcopy(o)), F(z, i, O(opt=True))]
            one(mode, fs, dobj([("-", v)]), "ignored")
            one(mode, fs, dobj([(z, v)]), "ignored")
            one(mode, fs, dobj([]), "ignored")
        one(mode, [F("s", St(F("-", i)), None)] if mode in ("json", "key") else [F("-", P("string"))], dobj([]), "ignored")
    return cases


def tagsyntax(rng):
    """the same option set written in the tag with other spacing / notation; option sets that are
    present but empty (`json:"a,omitempty"`); options with an empty alternative; keys that default to
    the Go field name"""
    g = Gen(rng, "quick")
    cases = []
    styles = ["spaces", "bracket", "omitempty", "emptyseg", "emptyoptions", "trailing", "plain"]
    kinds = ["int", "string", "float64", "uint8", "bool", "int64"]
    n = 0
    for style in styles:
        for kind in kinds:
            for mode in ("json", "form", "key", "header", "httpx-json", "path"):
                n += 1
                if n % 3 and style == "plain":
                    continue
                o = g.gen_opts(kind, ["b"], mode, force={"str": False})
                if style == "bracket":
                    o = o or O()
                    o["options"] = ["1", "2"] if is_num(kind) else (["true"] if kind == "bool" else ["x", "y y"])
                if style == "emptyoptions" and o:
                    o["options"] = None
                if style in ("omitempty", "emptyseg", "emptyoptions") and o is None:
                    o = O()
                if o and o["def"] is not None and ("," in o["def"] or " " in o["def"]) and style == "spaces":
                    o["def"] = "dflt"
                fa = F("a", P(kind), o)
                fa["style"] = style
                if style == "plain":
                    # the key left out: it defaults to the name of the Go field (F0, F1, ...); without
                    # options there is no tag at all and every unmarshaller kind reads the field
                    fa["keyless"] = True
                    fa["key"] = "F%d" % (n % 2)
                fb = F("b", P("int"), O(opt=True))
                fields = [fb, fa] if fa["key"] == "F1" else [fa, fb]
                for intent in ("valid", "valid", "range", "option", None):
                    if intent == "range" and not (o and o["range"]):
                        continue
                    if intent == "option" and not (o and o["options"]):
                        continue
                    pairs = []
                    if intent is not None:
                        pairs.append((fa["key"], g.field_value(fa, mode, intent)))
                    if rng.random() < 0.5:
                        pairs.append(("b", scalar_for(mode, "1")))
                    cases.append(finish({"mode": mode, "type": St(*copy.deepcopy(fields)), "doc": dobj(pairs), "intent": "tag-" + style}))
    # the same key-less tag text on fields of different names (the key defaults to each field's own name)
    for mode in ("json", "form", "key", "header", "path"):
        for o in (O(opt=True), O(opt=True, range=R("[1:5]")), O(**{"def": "4"}), O(options=["1", "2"])):
            fs = []
            for j in range(3):
                f = F("F%d" % j, P("int"), copy.deepcopy(o))
                f["keyless"] = True
                fs.append(f)
            for supplied in ([0], [1], [2], [0, 2], [1, 2], [0, 1, 2], []):
                pairs = [("F%d" % j, scalar_for(mode, str(j + 1))) for j in supplied]
                cases.append(finish({"mode": mode, "type": St(*copy.deepcopy(fs)), "doc": dobj(pairs), "intent": "tag-keyless"}))
    # tags go-zero refuses: every unmarshal of the struct fails, whatever the document holds
    bad_range = {"li": True, "l": None, "r": None, "ri": True}      # the model's ill-formed range
    malformed = ["range=", "range=1:5", "range=[1:5", "range=1:5]", "range=[1:2:3]", "range=[:]", "range=[x:5]", "range=[1:y]",
                 "range=[5:1]", "range=(2:2]", "range=[2:2)", "range=[1]", "range=[", "optional=b=c", "default=x=y",
                 "options=a=b", "range=[1:5]=", "env=A=B", "range", "default", "options"]
    for mi, bad in enumerate(malformed):
        mode = ["json", "form", "key", "header", "path", "httpx-json"][mi % 6]
        o = O(range=dict(bad_range))
        fa = F("a", P("int"), o)
        fa["rawfixed"] = True
        fa["raw"] = "a," + bad + rng.choice(["", ",optional", ",default=3"])
        if "optional" in fa["raw"]:
            o["opt"] = True
        if "default=3" in fa["raw"]:
            o["def"] = "3"
        fb = F("b", P("int"), O(opt=True))
        for pairs in ([("a", scalar_for(mode, "3"))], [], [("b", scalar_for(mode, "1"))]):
            cases.append(finish({"mode": mode, "type": St(copy.deepcopy(fb), copy.deepcopy(fa)), "doc": dobj(pairs), "intent": "tag-malformed"}))
        if mode in ("json", "key"):
            # inside a struct field that the document leaves out / supplies
            inner = St(copy.deepcopy(fa), F("c", P("int"), O(opt=True)))
            for outer_o in (None, O(opt=True)):
                for pairs in ([], [("s", dobj([]))], [("s", dobj([("a", dn("3"))]))]):
                    cases.append(finish({"mode": mode, "type": St(F("s", copy.deepcopy(inner), copy.deepcopy(outer_o))), "doc": dobj(pairs),
                                         "intent": "tag-malformed"}))
    # escapes: a comma inside a default, inside bracketed options
    for mode in ("json", "form", "key"):
        fa = F("a", P("string"), O(**{"def": "x,y"}))
        fa["style"] = "plain"
        fo = F("o", P("string"), O(opt=True, options=["p,q", "r"]))
        fo["rawfixed"] = True
        fo["raw"] = "o,optional,options=[p\\,q,r]"
        for pairs in ([], [("a", scalar_for(mode, "z"))], [("o", ds("p,q") if mode != "form" else {"a": [ds("p,q")]})],
                      [("o", ds("p") if mode != "form" else {"a": [ds("p")]})]):
            cases.append(finish({"mode": mode, "type": St(copy.deepcopy(fa), copy.deepcopy(fo)), "doc": dobj(pairs), "intent": "tag-escape"}))
    # one parameter value with commas for a slice field
    for mode in ("form", "httpx-form", "header", "httpx-header", "dform"):
        for kind, vals in (("int", ["1,2", "1", "1,", ",1", "1, 2"]), ("string", ["a,b", "a", ",", "a,,b"]), ("float64", ["1.5,2"]),
                           ("bool", ["true,false"])):
            for v in vals:
                for extra in ([], [ds("3" if kind != "bool" else "true")]):
                    cases.append(finish({"mode": mode, "type": St(F("a", Sl(P(kind)), O(opt=True))),
                                         "doc": dobj([("a", {"a": [ds(v)] + extra})]), "intent": "comma-values"}))
    # an empty alternative among the options; options with spaces and non-ASCII letters
    for mode in ("json", "key", "path", "header", "httpx-form", "form", "httpx-header"):
        for opts in (["x", "", "y"], ["a b", "\u00fc", "\u4e2d"], ["", "z"], ["1", "1.0", "+1"]):
            o = O(options=opts, opt=mode.startswith("httpx"))
            fa = F("a", P("string"), o)
            for word in opts + ["nope", "", " ", "\t", "  "]:
                cases.append(finish({"mode": mode, "type": St(copy.deepcopy(fa)), "doc": dobj([("a", ds(word))]), "intent": "tag-options"}))
    return cases


BOUNDARY_TEXTS = [" ", "  ", "\t", "\u00a0", "\u3000", "-0", "+5", " 5", "5 ", "05", "0x10", "0o7", "0b1", "1_000", "1e2", "1E2", ".5", "5.", "00", "-", "+", "",
                  "\u0663", "١٢", "1e400", "-1e400", "3.5e38", "-3.5e38", "NaN", "nan", "Inf", "-Inf", "+Inf",
                  "infinity", "+Infinity", "-infinity", "INF", "iNf", "infinit", "1e", "e5", "--1", "+-1", "1.2.3", "0.0", "-0.0",
                  "+0", "9223372036854775807", "9223372036854775808", "-9223372036854775808", "-9223372036854775809",
                  "18446744073709551615", "18446744073709551616", "255", "256", "-129", "-128", "127", "128", "65535", "65536",
                  "4294967295", "4294967296", "2147483647", "2147483648", "-2147483649", "true", "T", "t", "TRUE", "yes", "on", "0", "1", "2"]


def boundaries(rng, n):
    """unusual spellings through every string-valued path (form, path, header, the `string` flag,
    slice elements) on every kind, with and without a range that should stop them"""
    cases = []
    combos = [(k, txt, m) for k in KINDS for txt in BOUNDARY_TEXTS
              for m in ("form", "path", "header", "json-string", "json-elem", "httpx-form", "dform")]
    rng.shuffle(combos)
    def fits(kind, txt):
        # floats: only literals that print back exactly (<= 15 significant digits, <= 6 for float32)
        if kind not in FLOAT_KINDS:
            return True
        if "_" in txt or "x" in txt.lower() and txt.lower() != "+infinity x":
            return False     # strconv.ParseFloat's underscore / hexadecimal syntax is outside the model
        try:
            d = Decimal(txt.strip().lstrip("+"))
        except Exception:
            return True
        if not d.is_finite():
            return True
        return len(d.normalize().as_tuple().digits) <= (6 if kind == "float32" else 15)

    combos = [x for x in combos if fits(x[0], x[1])]
    for kind, txt, m in combos[:n]:
        rg = rng.choice([None, R("[0:10]"), R("(-1:300]"), R("[:1e39]"), R("[-1e39:)")])
        if m == "json-string":
            o = O(str=True, range=rg)
            c = {"mode": rng.choice(["json", "key"]), "type": St(F("a", P(kind) if rng.random() < 0.7 else Ptr(P(kind)), o)),
                 "doc": dobj([("a", ds(txt))])}
        elif m == "json-elem":
            c = {"mode": "json", "type": St(F("a", Sl(P(kind if kind != "uint8" else "uint16")))), "doc": dobj([("a", {"a": [ds(txt)]})])}
        else:
            if m in ("httpx-form",) and txt == "":
                continue
            o = O(range=rg) if rg else None
            c = {"mode": m, "type": St(F("a", P(kind), o)), "doc": dobj([("a", ds(txt))])}
        c["intent"] = "boundary"
        cases.append(finish(c))
    return cases


def zeros(rng):
    """sentinel data: a SUPPLIED zero value (0, -0, 0.0, "", false, empty array / object) is a supplied
    value — it satisfies "required", it is checked against range and options, and it is not replaced
    by the default"""
    cases = []
    zero_lits = {"bool": ["false", "0"], "string": [""], "float32": ["0", "0.0", "-0", "0e5"], "float64": ["0", "0.0", "-0", "0e5"]}
    for kind in KINDS:
        lits = zero_lits.get(kind, ["0", "-0", "00"] if kind in INT_KINDS else ["0", "00"])
        for o in (None, O(opt=True), O(**{"def": "3" if kind != "bool" else "true"}), O(opt=True, **{"def": "3" if kind != "bool" else "true"}),
                  O(range=R("[1:5]")), O(range=R("(0:5]")), O(range=R("[0:5]")), O(range=R("[-1:0)")),
                  O(options=["1", "2"] if kind not in ("bool", "string") else ["true", "x"]),
                  O(options=["0", "1"] if kind not in ("bool", "string") else ["false", ""]), O(opt=True, dep="b"), O(opt=True, dep="b", neg=True)):
            if o and o["range"] and not is_num(kind):
                continue
            for mode in ("json", "form", "path", "header", "key", "httpx-form", "httpx-json"):
                for wrap in ((lambda t: t), Ptr):
                    lit = rng.choice(lits)
                    if mode in STRINGY:
                        v = ds(lit)
                    elif kind == "bool":
                        if lit != "false":
                            continue
                        v = {"b": False}
                    elif kind == "string":
                        v = ds(lit)
                    else:
                        if not Gen.json_ok(lit):
                            lit = "0"
                        v = dn(lit)
                    if rng.random() < (0.82 if True else 0):
                        continue
                    fa = F("a", wrap(P(kind)), copy.deepcopy(o))
                    fb = F("b", P("int"), O(opt=True))
                    pairs = [("a", v)] + ([("b", ds("1") if mode in STRINGY else dn("1"))] if rng.random() < 0.5 else [])
                    cases.append(finish({"mode": mode, "type": St(fa, fb), "doc": dobj(pairs), "intent": "zero-value"}))
    # empty composites are supplied, too
    i = P("int")
    for mode in ("json", "key"):
        for t, v in ((Sl(i), {"a": []}), (Mp(i), dobj([])), (St(F("x", i, O(opt=True))), dobj([])), (St(F("x", i)), dobj([])),
                     (Ptr(St(F("x", i, O(**{"def": "2"})))), dobj([])), (Sl(St(F("x", i))), {"a": [dobj([])]}), (Sl(Sl(i)), {"a": [{"a": []}]})):
            for o in (None, O(opt=True), O(opt=True, dep="b"), O(opt=True, dep="b", neg=True)):
                for b_on in (False, True):
                    pairs = [("a", copy.deepcopy(v))] + ([("b", dn("1"))] if b_on else [])
                    cases.append(finish({"mode": mode, "type": St(F("a", copy.deepcopy(t), copy.deepcopy(o)), F("b", i, O(opt=True))),
                                         "doc": dobj(pairs), "intent": "zero-value"}))
    return cases


EMPTY_MAP_PRIVATE = [False]       # set by regen(): no package-level map is handed out as a field value (F31)


def scribbles(rng):
    """the caller writes into a map[string]any field of a struct it got back; later calls that
    leave a struct / map value out must not see those entries"""
    cases = []
    i = P("int")
    for k in range(12):
        a, b = fresh("a"), fresh("b")
        tag = ["json", "key", "form", "json"][k % 4]
        mode = {"json": rng.choice(["json", "httpx-json", "jsonmap"]), "key": "key", "form": rng.choice(["form", "httpx-form"])}[tag]
        inner = St(F(a, i, O(opt=True, range=R("[1:5]"))), F(b, P("string"), O(opt=True)))
        t = St(F(fresh("in"), Ptr(inner) if k % 3 == 0 else inner), F(fresh("m"), Mp(i)))
        before = {"mode": mode, "type": copy.deepcopy(t), "doc": dobj([])}
        scrib = {"mode": "scribble", "tag": tag, "entries": dobj([(a, dn(rng.choice(["3", "9"])) if tag != "form" else ds("9")),
                                                                   (b, ds("leak"))])}
        after = {"mode": mode, "type": copy.deepcopy(t), "doc": dobj([])}
        steps = [before, scrib, after] if k % 2 else [scrib, after]
        cases.append(finish({"mode": "seq", "procs1": False, "steps": steps, "intent": "scribble"}))
    return cases


DEFAULT_MEMO_FIXED = [False]      # set by regen(): core/mapping keys its memo of slice defaults by (reading, text)


def slice_defaults(rng):
    """default= on slice fields: cut into segments for string elements, read as a JSON array
    otherwise, then filled like a supplied array; the same default text on fields of both kinds
    in one process, in both orders"""
    cases = []
    elems = [P("int"), P("string"), P("float64"), P("bool"), Ptr(P("int")), Ptr(P("string")), P("int8"), P("uint"), Ptr(Ptr(P("bool")))]
    texts = ["[1,2,3]", "[]", "[1, 2]", "[1.5,2]", "[a,b]", "a", "[\"a\",\"b\"]", "[true,false]", "[null]", "[1,null,3]", "5", "[x]",
             "[300]", "[-1]", "[\"1\",\"2\"]", "[1,\"2\"]", "(a,b)", "[ a , b ]", "[1e2]", "[01]", "[1,]", "[,]", "[a,,b]", "[a\\,b,c]",
             "true", "null", "\"s\"", "[1] x", "[1.0,2.50]", "[-0]", "[+1]", "[ ]", "[[]]"]
    modes = ["json", "form", "key", "header", "path", "httpx-json", "httpx-form"]
    n = 0
    uniq = [0]

    def unique(d, string_elems):
        """no two cases of a run share a default text (what a process-wide memo keyed by the text
        remembers can only come from the case itself)"""
        uniq[0] += 1
        if d[0] in "[(":
            pad = "".join(" \t"[int(b)] for b in bin(uniq[0])[2:])      # white space spelling the number
            return d[0] + pad + d[1:]
        if d[-1].isalnum() and d not in ("true", "null"):
            return d + str(uniq[0])
        return None if string_elems else d       # read one way only

    for e in elems:
        for d in texts:
            n += 1
            mode = modes[n % len(modes)]
            if "\\" in d and deref(e)["k"] != "string":
                continue        # a backslash in a JSON default is outside the model's reader
            d = unique(d, deref(e)["k"] == "string")
            if d is None:
                continue
            for o in ((O(**{"def": d}), O(opt=True, **{"def": d})) if n % 3 == 0 else (O(**{"def": d}),)):
                fa = F("a", Sl(copy.deepcopy(e)), o)
                if "\\" in d:
                    fa["style"] = "plain"       # the tag text escapes nothing itself: written as is
                    fa.pop("style")
                fb = F("b", P("int"), O(opt=True))
                docs = [dobj([])]
                if n % 3 == 0:
                    docs.append(dobj([("b", scalar_for(mode, "1"))]))
                if n % 4 == 0 and mode not in ("path", "httpx-path"):
                    v = {"a": [ds("7")]} if mode in STRINGY else {"a": [dn("7")] if deref(e)["k"] != "string" else [ds("7")]}
                    docs.append(dobj([("a", v)]))
                for doc in docs:
                    cases.append(finish({"mode": mode, "type": St(copy.deepcopy(fa), copy.deepcopy(fb)), "doc": doc, "intent": "slice-default"}))
    if True:
        # one default text, two readings, one process (F30, repaired by 500358d)
        pads = [0]

        def salted(tmpl):
            pads[0] += 1
            return tmpl.replace("~", "".join("\t "[int(b)] for b in bin(pads[0])[2:]))

        for tmpl in ("[true,~false]", "[\"q\",~\"r\"]", "[1,~2]", "[null~]", "[1.50~]", "[a,~b]", "[\"1\",~\"2\"]"):
            for first, second in ((P("bool"), P("string")), (P("int"), P("string")), (P("string"), P("int")), (P("string"), P("bool")),
                                  (Ptr(P("string")), P("float64")), (P("float64"), Ptr(P("string")))):
                d = salted(tmpl)
                steps = []
                for e in (first, second, first):
                    mode = rng.choice(["json", "key", "form", "httpx-json"])
                    steps.append({"mode": mode, "type": St(F("a", Sl(copy.deepcopy(e)), O(**{"def": d}))), "doc": dobj([])})
                cases.append(finish({"mode": "seq", "procs1": rng.random() < 0.5, "steps": steps, "intent": "default-memo"}))
    return cases


def header_keys(rng):
    """header parameters: tag keys, dependency keys and request header names in different spellings
    of the same canonical name; members of embedded structs; through ParseHeaders and Parse"""
    cases = []
    i = P("int")
    names = [("x-trace-id", "X-TRACE-ID"), ("X-Trace-Id", "x-trace-id"), ("x-Trace-iD", "X-trace-Id"), ("ETag", "etag"),
             ("content-MD5", "Content-Md5"), ("x_under", "X_UNDER"), ("a.b-c", "A.B-C")]
    for tagkey, reqkey in names:
        for mode in ("header", "httpx-header"):
            for o in (O(range=R("[1:5]")), O(opt=True, range=R("[1:5]")), O(opt=True, dep="x-dep"), O(opt=True, dep="X-DEP", neg=True),
                      O(**{"def": "2"}), None):
                fs = [F(tagkey, i, copy.deepcopy(o)), F("x-Dep", i, O(opt=True))]
                for pairs in ([(reqkey, ds("3"))], [(reqkey, ds("9"))], [], [(reqkey, ds("3")), ("X-dep", ds("1"))], [("x-DEP", ds("1"))]):
                    cases.append(finish({"mode": mode, "type": St(*copy.deepcopy(fs)), "doc": dobj(pairs), "direct": len(pairs) % 2 == 0,
                                         "intent": "header-keys"}))
            inner = St(F(tagkey, P("uint8")), F("x-other", i, O(opt=True)))
            for optional in (False, True):
                for pairs in ([(reqkey, ds("2"))], [], [("X-Other", ds("4"))], [(reqkey, ds("2")), ("x-OTHER", ds("4"))]):
                    cases.append(finish({"mode": mode, "type": St(A(copy.deepcopy(inner), optional)), "doc": dobj(pairs),
                                         "intent": "header-keys"}))
    return cases


SLICE_TEXTS = ["[1,2,3]", "[]", " [ 1 , 2 ] ", "null", "[null]", "[1,null]", "[[1]]", "[[]]", "5", "\"a\"", "true", "", " ", "[", "[1,", "[1 2]",
               "[\"a\",\"b\"]", "[\"1\",\"2\"]", "[true,false]", "[1.5]", "[1e2]", "[300]", "[-1]", "[01]", "[1,]", "[a]", "[1] x", "[1]]",
               "[\"\"]", "[\"a b\"]", "[0]", "[1,\"2\",true]", "nul", "[nul]", "[-0]", "[1.0]", "[+1]", "[\"nan\"]", "[\"NaN\"]", "[\"1e400\"]"]


def slice_strings(rng):
    """a string (path variable, single header value, JSON string) given to a slice field is read as
    a JSON array by another routine than a supplied array: no null elements, no nested arrays,
    elements converted at the element's own kind"""
    cases = []
    elems = [P("int"), P("string"), P("float64"), P("bool"), P("int8"), P("uint"), Ptr(P("int")), Ptr(P("bool")), Ptr(Ptr(P("bool"))),
             Ptr(P("string")), Sl(P("int")), Mp(P("int")), St(F("x", P("int"), O(opt=True)))]
    modes = ["path", "header", "json", "key", "httpx-path", "httpx-header", "okey", "jsonmap"]
    n = 0
    for e in elems:
        for txt in SLICE_TEXTS:
            n += 1
            mode = modes[n % len(modes)]
            if txt == "" and mode == "httpx-header":
                pass
            for o in ((None, O(opt=True)) if n % 4 == 0 else (None,)):
                fa = F("a", Sl(copy.deepcopy(e)), copy.deepcopy(o))
                cases.append(finish({"mode": mode, "type": St(fa), "doc": dobj([("a", ds(txt))]), "intent": "slice-string"}))
    # a json.Number for a slice field is read the same way (and never is an array)
    for e in (P("int"), P("string")):
        for mode in ("json", "key"):
            cases.append(finish({"mode": mode, "type": St(F("a", Sl(e))), "doc": dobj([("a", dn("5"))]), "intent": "slice-string"}))
    return cases


def pointer_containers(rng):
    """containers whose elements are pointers (map[string]*T, []*T, deeper), *T fields: at least two
    DISTINCT supplied values per container; compared through the pointers, and no two positions may
    share one pointer (seeded C17-4: one scratch value for all number entries of a map)"""
    cases = []
    vals = {"bool": ["true", "false", "true"], "string": ["p", "q", "r"], "float32": ["0.5", "1.5", "-2.25"],
            "float64": ["0.5", "1.5", "-2.25"]}
    n = 0
    for kind in KINDS:
        lits = vals.get(kind, ["1", "2", "3"] if kind in UINT_KINDS else ["1", "-2", "3"])

        def sv(mode, lit, kind=kind):
            if mode in STRINGY:
                return ds(lit)
            if kind == "bool":
                return {"b": lit == "true"}
            if kind == "string":
                return ds(lit)
            if mode in ("key", "keyvaluer") and rng.random() < 0.3 and Gen.native_ok(kind, lit):
                return {"g": [kind, lit]}
            return dn(lit)

        T = P(kind)
        shapes = [
            ("map*", Mp(Ptr(T)), lambda m: dobj([("a", sv(m, lits[0])), ("b", sv(m, lits[1])), ("c", sv(m, lits[2]))])),
            ("map**", Mp(Ptr(Ptr(T))), lambda m: dobj([("a", sv(m, lits[0])), ("b", sv(m, lits[1]))])),
            ("map", Mp(T), lambda m: dobj([("a", sv(m, lits[0])), ("b", sv(m, lits[1])), ("c", sv(m, lits[2]))])),
            ("[]*", Sl(Ptr(T)), lambda m: {"a": [sv(m, lits[0]), sv(m, lits[1]), sv(m, lits[2])]}),
            ("[]**", Sl(Ptr(Ptr(T))), lambda m: {"a": [sv(m, lits[0]), sv(m, lits[1])]}),
            ("map[]*", Mp(Sl(Ptr(T))), lambda m: dobj([("a", {"a": [sv(m, lits[0]), sv(m, lits[1])]}), ("b", {"a": [sv(m, lits[2]), sv(m, lits[0])]})])),
            ("[]map*", Sl(Mp(Ptr(T))), lambda m: {"a": [dobj([("a", sv(m, lits[0])), ("b", sv(m, lits[1]))]), dobj([("a", sv(m, lits[2])), ("c", sv(m, lits[1]))])]}),
            ("mapmap*", Mp(Mp(Ptr(T))), lambda m: dobj([("x", dobj([("a", sv(m, lits[0])), ("b", sv(m, lits[1]))])), ("y", dobj([("a", sv(m, lits[2])), ("b", sv(m, lits[0]))]))])),
            ("[]struct", Sl(St(F("m", Mp(Ptr(T))), F("p", Ptr(T)))),
             lambda m: {"a": [dobj([("m", dobj([("a", sv(m, lits[0])), ("b", sv(m, lits[1]))])), ("p", sv(m, lits[2]))]),
                              dobj([("m", dobj([("a", sv(m, lits[1])), ("b", sv(m, lits[2]))])), ("p", sv(m, lits[0]))])]}),
            ("*map", Ptr(St(F("m", Mp(Ptr(T))))), lambda m: dobj([("m", dobj([("a", sv(m, lits[0])), ("b", sv(m, lits[1]))]))])),
        ]
        for name, t, mk in shapes:
            for mode in ("json", "key", "yaml", "toml", "httpx-json", "jsonmap", "keyvaluer"):
                n += 1
                if mode not in ("json", "key") and n % 3:
                    continue
                doc = dobj([("c", mk(mode)), ("p", sv(mode, lits[1])), ("q", sv(mode, lits[2]))])
                if mode in ("yaml", "toml") and not tame(doc):
                    continue
                fs = [F("c", copy.deepcopy(t)), F("p", Ptr(T)), F("q", Ptr(Ptr(T)), O(opt=True))]
                cases.append(finish({"mode": mode, "type": St(*fs), "doc": doc, "intent": "pointer-containers", "block": n % 2 == 0}))
        # parameter maps: []*T from repeated values, *T fields
        for mode in ("form", "httpx-form", "header", "httpx-header", "dform"):
            fs = [F("c", Sl(Ptr(T))), F("d", Sl(Ptr(Ptr(T))), O(opt=True)), F("p", Ptr(T)), F("q", Ptr(Ptr(T)), O(opt=True))]
            doc = dobj([("c", {"a": [ds(lits[0]), ds(lits[1]), ds(lits[2])]}), ("d", {"a": [ds(lits[1]), ds(lits[0])]}),
                        ("p", ds(lits[1])), ("q", ds(lits[2]))])
            cases.append(finish({"mode": mode, "type": St(*fs), "doc": doc, "intent": "pointer-containers"}))
        # defaults behind pointers, slice defaults with pointer elements
        for mode in ("json", "form", "key"):
            fs = [F("p", Ptr(T), O(**{"def": lits[0]})), F("q", Ptr(Ptr(T)), O(**{"def": lits[1]})), F("r", Ptr(T), O(**{"def": lits[0]})),
                  F("c", Sl(Ptr(T)), O(**{"def": "[" + ",".join(lits) + "]"}))]
            cases.append(finish({"mode": mode, "type": St(*fs), "doc": dobj([]), "intent": "pointer-containers"}))
    return cases


F32_RANGE_ON_TEXT = [False]     # set by regen(): float32 fields read from strings are range-checked on the text (F33)
DECIMAL_BOUNDS = ["0.1", "0.3", "2.7", "0.7", "1.1", "0.2", "-0.1", "-2.7", "100.01", "1e-7", "0.30000000000000004", "1e23",
                  "0.5", "3", "16777217", "9007199254740993"]


def decimal_bounds(rng):
    """range bounds and supplied numbers that are decimal fractions without a binary form: the
    supplied text equal to the bound (and other spellings of the same number), one float64 step
    below / above, one decimal digit below / above; both ends, open and closed; every source kind
    and numeric kind.  The declared bound is a decimal text: inside / outside is exact decimal
    comparison; go-zero compares float64(value) with float64(bound), which is the same thing unless
    two DIFFERENT decimals round to one float64 (a near tie: not generated)."""
    import math
    cases = []

    def f64(txt):
        return float(txt)

    def spellings(b):
        d = Decimal(b)
        out = [b]
        t = format(d, "f") if abs(d.as_tuple().exponent) < 30 else None
        if t and "." in t:
            out.append(t + "0")
        elif t:
            out.append(t + ".0")
        sign, digits, exp = d.as_tuple()
        out.append(("-" if sign else "") + "".join(map(str, digits)) + "e" + str(exp))      # 3e-1
        return [x for x in dict.fromkeys(out) if Gen.json_ok(x)]

    def neighbours(b):
        x = f64(b)
        d = Decimal(b)
        res = [repr(math.nextafter(x, math.inf)), repr(math.nextafter(x, -math.inf))]
        # one unit in the last written digit (or in the next one) below / above
        q = Decimal(1).scaleb(d.as_tuple().exponent)
        for step in (q, q / 10):
            for c in (d - step, d + step):
                txt = format(c, "f") if abs(c.as_tuple().exponent) < 30 else str(c)
                res.append(txt)
        out = []
        for v in res:
            if "e" in v and not Gen.json_ok(v):
                v = v.replace("e+", "e")
            if not Gen.json_ok(v):
                continue
            if Decimal(v) != d and f64(v) == x:
                continue            # near tie: two decimals, one float64
            out.append(v)
        return list(dict.fromkeys(out))

    sources = ["json", "key", "yaml", "toml", "httpx-json", "jsonmap", "form", "path", "header", "httpx-form", "json-string", "key-native"]
    kinds = ["float64", "float32", "int", "int64", "uint", "uint64", "int8"]
    n = 0
    for b in DECIMAL_BOUNDS:
        vals = [(v, "same") for v in spellings(b)] + [(v, "near") for v in neighbours(b)]
        for end in ("l", "r"):
            for incl in (True, False):
                far = (abs(Decimal(b)) + 1) * 1000
                other = (Decimal(b) + far) if end == "l" else (Decimal(b) - far)
                other = fmt_dec(other) if abs(other.as_tuple().exponent) < 30 else "%e" % other
                for open_other in (False, True):
                    rg = {"li": incl if end == "l" else True, "ri": incl if end == "r" else True,
                          "l": b if end == "l" else (None if open_other else other),
                          "r": b if end == "r" else (None if open_other else other)}
                    for v, how in vals:
                        n += 1
                        if any(x is not None and Decimal(v) != Decimal(x) and f64(v) == f64(x) for x in (rg["l"], rg["r"])):
                            continue        # near tie with a bound
                        src = sources[n % len(sources)]
                        kind = kinds[(n // 3) % len(kinds)] if Decimal(v) == Decimal(v).to_integral_value() and "e" not in v and "." not in v \
                            else ("float64" if n % 3 else "float32")
                        strsrc = src in ("form", "path", "header", "httpx-form", "json-string")
                        if kind == "float32":
                            if len(Decimal(v).normalize().as_tuple().digits) > 6:
                                kind = "float64"        # the stored float32 would not print back as the literal
                        if kind in BITS and (not (-2 ** 63 <= int(v) < 2 ** 63) or (kind in UINT_KINDS and int(v) < 0) or
                                             (kind == "int8" and not -128 <= int(v) < 128)):
                            kind = "float64"
                        if kind == "float64" and len(Decimal(v).normalize().as_tuple().digits) > 15 and Decimal(v) != Decimal(repr(f64(v))):
                            continue        # the stored float64 would not print back as the literal
                        if kind in BITS and abs(int(v)) >= 2 ** 53:
                            # beyond 2^53 integers are compared on their float64 roundings: near ties by construction
                            if f64(v) != int(v) or f64(b) != Decimal(b):
                                continue
                        mode, o = src, O(range=dict(rg), opt=n % 5 == 0)
                        if src == "json-string":
                            mode, o["str"], doc = rng.choice(["json", "key"]), True, dobj([("a", ds(v))])
                        elif src == "key-native":
                            if kind != "float64" or not Gen.native_ok("float64", v):
                                continue
                            mode, doc = "key", dobj([("a", {"g": ["float64", v]})])
                        elif strsrc:
                            doc = dobj([("a", ds(v))])
                        else:
                            doc = dobj([("a", dn(v))])
                            if src in ("yaml", "toml") and not tame(doc):
                                mode = "json"
                        t = P(kind) if n % 4 else Ptr(P(kind))
                        cases.append(finish({"mode": mode, "type": St(F("a", t, o)), "doc": doc, "intent": "decimal-bounds-" + how}))
    rng.shuffle(cases)
    return cases


def mutated_results(rng):
    """the caller overwrites its results in place (elements of slices, one more element within
    capacity, entries of maps, what pointers point to) and unmarshals again: defaults, empty
    composites and supplied values of later calls must not have changed, and no two targets (nor a
    target and the caller's input) may share storage"""
    cases = []
    i, st_ = P("int"), P("string")
    pad = [0]

    def salt(txt):
        pad[0] += 1
        return txt[0] + "".join(" \t"[int(b)] for b in bin(pad[0] + 4096)[2:]) + txt[1:]

    for k in range(40):
        ds_ = salt("[a,b,c]")
        dn_ = salt("[1,2,3]")
        dq_ = salt("[\"x\",\"y\"]")
        word = fresh("w")

        def family(tagkeys):
            fs = [F(tagkeys[0], Sl(st_), O(**{"def": ds_})), F(tagkeys[1], Sl(i), O(**{"def": dn_})),
                  F(tagkeys[2], Sl(Ptr(st_)), O(**{"def": dq_})), F(tagkeys[3], Ptr(i), O(**{"def": "5"})),
                  F(tagkeys[4], Ptr(Ptr(st_)), O(**{"def": word})), F(tagkeys[5], Mp(i)),
                  F(tagkeys[6], St(F("x", Sl(st_), O(**{"def": ds_})), F("y", Ptr(i), O(**{"def": "7"})))),
                  F(tagkeys[7], Sl(st_), O(opt=True)), F(tagkeys[8], Mp(Sl(i)), O(opt=True))]
            if k % 4 == 3:
                rng.shuffle(fs)
            return St(*fs)

        keys1 = ["a", "b", "c", "d", "e", "f2", "g", "h", "j"]
        keys2 = ["s1", "s2", "s3", "s4", "s5", "s6", "s7", "s8", "s9"]
        modes = [rng.choice(["json", "key", "jsonmap", "form", "httpx-json", "yaml", "keyvaluer", "okey"]) for _ in range(4)]

        def supplied(mode, keys):
            if mode in STRINGY:
                return dobj([(keys[7], {"a": [ds("p"), ds("q")]})])
            return dobj([(keys[7], {"a": [ds("p"), ds("q")]}), (keys[8], dobj([("m", {"a": [dn("1"), dn("2")]})]))])

        plan = [(modes[0], keys1, k % 2 == 0), (modes[1], keys1, k % 3 == 0), (modes[2], keys2, False), (modes[3], keys1, True)]
        steps = []
        for mode, keys, sup in plan:
            t = family(keys)
            if mode in STRINGY:
                # parameter maps cannot carry the nested shapes
                t = St(*[f for f in t["f"] if deref(f["t"])["k"] not in ("map", "struct")])
            doc = supplied(mode, keys) if sup else dobj([])
            if mode == "yaml" and not tame(doc):
                mode = "json"
            steps.append({"mode": mode, "type": t, "doc": doc, "mutate": True})
            if k % 3 == 0 and mode not in STRINGY:
                steps.append({"mode": "disturb", "type": copy.deepcopy(t), "tag": tag_of(mode), "doc": copy.deepcopy(doc)})
        cases.append(finish({"mode": "seq", "procs1": k % 2 == 1, "steps": steps, "intent": "mutated-results"}))
    return cases


def struct_containers(rng):
    """containers of structs (map[string]S, []S, map[string][]S, []map[string]S, map of maps, and
    their pointer forms): >= 3 elements whose supplied OPTIONAL member sets differ pairwise (element
    i supplies optional member i only; alternatives under optional=!dep; dependency pairs; nested
    structs, slices and maps as members), slices in both orders; every member of every element is
    compared (an optional member the element does not supply is zero) — per-element state that is
    not reset between elements shows up as a member nobody supplied (seeded C08-8)"""
    cases = []
    i, st_ = P("int"), P("string")
    S = [F("a", i),                                                        # required everywhere
         F("o1", i, O(opt=True, range=R("[1:9]"))), F("o2", st_, O(opt=True, options=["p", "q"])), F("o3", Ptr(i), O(opt=True)),
         F("x", i, O(opt=True, dep="y", neg=True)), F("y", st_, O(opt=True)),            # exactly one of x / y
         F("p", i, O(opt=True, dep="q")), F("q", i, O(opt=True)),                        # both or neither
         F("n", St(F("u", i, O(opt=True)), F("v", st_, O(opt=True))), O(opt=True)),
         F("l", Sl(i), O(opt=True)), F("m", Mp(st_), O(opt=True)), F("d", i, O(**{"def": "4"}))]

    def elem(which, alt):
        """the element that supplies the optional members named in `which` (and x or y)"""
        pairs = [("a", dn(str(1 + len(which))))]
        vals = {"o1": dn("5"), "o2": ds("p"), "o3": dn("7"), "n": dobj([("u", dn("3"))] if alt == "x" else [("v", ds("w"))]),
                "l": {"a": [dn("1"), dn("2")]}, "m": dobj([("k", ds("z"))]), "d": dn("6")}
        for k in which:
            if k == "pq":
                pairs += [("p", dn("2")), ("q", dn("3"))]
            else:
                pairs.append((k, vals[k]))
        pairs.append(("x", dn("8")) if alt == "x" else ("y", ds("alt")))
        return dobj(pairs)

    menus = [["o1"], ["o2"], ["o3"], ["pq"], ["n"], ["l"], ["m"], ["d"], [], ["o1", "o2", "o3", "pq", "n", "l", "m", "d"]]
    containers = [
        ("map", lambda T: Mp(T), lambda es: dobj([("k%d" % j, e) for j, e in enumerate(es)])),
        ("slice", lambda T: Sl(T), lambda es: {"a": es}),
        ("map*", lambda T: Mp(Ptr(T)), lambda es: dobj([("k%d" % j, e) for j, e in enumerate(es)])),
        ("slice*", lambda T: Sl(Ptr(T)), lambda es: {"a": es}),
        ("mapslice", lambda T: Mp(Sl(T)), lambda es: dobj([("g1", {"a": es[:2]}), ("g2", {"a": es[2:]})])),
        ("slicemap", lambda T: Sl(Mp(T)), lambda es: {"a": [dobj([("k%d" % j, e) for j, e in enumerate(es[:2])]),
                                                            dobj([("k%d" % j, e) for j, e in enumerate(es[2:])])]}),
        ("mapmap", lambda T: Mp(Mp(T)), lambda es: dobj([("g1", dobj([("k%d" % j, e) for j, e in enumerate(es[:2])])),
                                                         ("g2", dobj([("k%d" % j, e) for j, e in enumerate(es[2:])]))])),
        ("field", lambda T: St(F("c1", T), F("c2", T), F("c3", Ptr(T))), lambda es: dobj([("c1", es[0]), ("c2", es[1]), ("c3", es[2])])),
    ]
    n = 0
    for cname, mkT, mkD in containers:
        for r in range(6):
            n += 1
            menu = rng.sample(menus, 4)
            alts = [rng.choice("xy") for _ in menu]
            if len(set(alts)) == 1:
                alts[0] = "y" if alts[0] == "x" else "x"
            es = [elem(w, a) for w, a in zip(menu, alts)]
            for order in ((es, list(reversed(es))) if "slice" in cname else (es,)):
                for mode in ("json", "key", "httpx-json") if r < 2 else (rng.choice(["json", "key", "jsonmap", "keyvaluer", "yaml", "toml"]),):
                    doc = dobj([("c", mkD(copy.deepcopy(order)))])
                    if mode in ("yaml", "toml") and not tame(doc):
                        mode = "json"
                    t = St(F("c", mkT(St(*copy.deepcopy(S)))))
                    cases.append(finish({"mode": mode, "type": t, "doc": doc, "intent": "struct-containers", "block": n % 2 == 0}))
    # embedded structs as elements' members, and elements that fail a check after an earlier element set a member
    E = [F("a", i), A(St(F("e1", i, O(opt=True)), F("e2", st_, O(opt=True))), False), A(Ptr(St(F("f1", i), F("f2", st_, O(opt=True)))), True)]
    for cname, mkT, mkD in containers[:4]:
        es = [dobj([("a", dn("1")), ("e1", dn("2"))]), dobj([("a", dn("2")), ("e2", ds("s")), ("f1", dn("3"))]),
              dobj([("a", dn("3")), ("f1", dn("4")), ("f2", ds("t"))]), dobj([("a", dn("4"))])]
        for order in (es, list(reversed(es))):
            for mode in ("json", "key"):
                cases.append(finish({"mode": mode, "type": St(F("c", mkT(St(*copy.deepcopy(E))))), "doc": dobj([("c", mkD(copy.deepcopy(order)))]),
                                     "intent": "struct-containers"}))
    return cases


def overlapping(rng, n):
    """calls that OVERLAP on one shared unmarshaller, each into a fresh target, each judged on its
    own input (the model needs nothing new: calls are independent).
    canon: one Unmarshaler with WithCanonicalKeyFunc; the key function is the gate go-zero offers
      inside a call: step 0 is held at its Park-th key canonicalisation (first use of the type:
      per-case unique keys), the other steps run to completion meanwhile, then step 0 goes on.
    free: the package-level unmarshallers of mapping / rest from several goroutines released together."""
    cases = []
    i, st_ = P("int"), P("string")
    for k in range(n):
        s0 = fresh("u")
        lower = k % 4 == 3
        user, token, other = ("x-user-%s" % s0, "x-token-%s" % s0, "x-other-%s" % s0)
        spell = (lambda x: x) if lower else (lambda x: rng.choice([x, x.upper(), canon(x)]))
        neg = k % 3 == 2
        fs = [F(spell(user), st_, O(opt=True)),
              F(spell(token), st_, O(opt=True, dep=spell(user) if not lower else user, neg=neg)),
              F(spell(other), i, O(opt=True, range=R("[1:5]"), dep=spell(token) if not lower else token) if k % 2 else O(range=R("[1:5]")))]
        if k % 5 == 4:
            fs.reverse()
        mode = "cjson" if lower else "header"

        def val(x):
            return dn(x) if lower and x.isdigit() else ds(x)

        docs = {"both": [(user, val("alice")), (token, val("secret")), (other, val("3"))],
                "user": [(user, val("bob")), (other, val("3"))],
                "token": [(token, val("t")), (other, val("3"))],
                "none": [(other, val("3"))],
                "range": [(user, val("al")), (token, val("s")), (other, val("9"))]}
        order = rng.choice([["both", "user", "token"], ["user", "both", "none"], ["token", "both", "user"], ["none", "user", "both"],
                            ["both", "user"], ["range", "user", "both"], ["both", "token", "user", "none"]])
        steps = []
        for name in order:
            pairs = [(spell(kk) if not lower else kk, v) for kk, v in docs[name]]
            steps.append({"mode": mode, "type": St(*copy.deepcopy(fs)), "doc": dobj(pairs), "mutate": False})
        conc = {"kind": "canon", "park": 1 + k % 9, "tag": "json" if lower else "header", "strvals": not lower, "lower": lower}
        cases.append(finish({"mode": "seq", "procs1": False, "conc": conc, "steps": steps, "intent": "concurrent-gate"}))
    for k in range(max(4, n // 3)):
        s0 = fresh("v")
        key, dep = "x-a-%s" % s0, "x-b-%s" % s0
        fs_h = [F(key, i, O(opt=True, dep=dep.upper(), range=R("[1:5]"))), F(dep, st_, O(opt=True))]
        dotted_key = "%s.size" % s0
        steps = []
        for j in range(6):
            pick = (j + k) % 4
            if pick == 0:
                steps.append({"mode": "httpx-header", "type": St(*copy.deepcopy(fs_h)), "direct": j % 2 == 0,
                              "doc": dobj([(dep, ds("d"))] + ([(key, ds("3"))] if j % 3 else []))})
            elif pick == 1:
                steps.append({"mode": "httpx-form", "type": St(F(dotted_key, i, O(opt=True, range=R("[1:100]")))), "direct": True,
                              "doc": dobj([(dotted_key, ds("1000" if j % 2 else "7"))])})
            elif pick == 2:
                k0, v = nested_doc(dotted_key, dn("1000" if j % 2 else "7"))
                steps.append({"mode": rng.choice(["json", "httpx-json", "key"]), "type": St(F(dotted_key, i, O(opt=True, range=R("[1:100]")))),
                              "doc": dobj([(k0, v)])})
            else:
                steps.append({"mode": "httpx-path", "type": St(F(dotted_key, Sl(st_), O(**{"def": "[a,%s]" % s0}))), "doc": dobj([])})
        for st in steps:
            st["mutate"] = False
        cases.append(finish({"mode": "seq", "procs1": False, "conc": {"kind": "free"}, "steps": steps, "intent": "concurrent-free"}))
    return cases


def depchains(rng):
    """optional=dep / optional=!dep chains and cycles over three fields, self-dependencies,
    dependencies on keys that no field has, on dotted keys, on "-"; every subset of supplied fields"""
    import itertools
    cases = []
    i = P("int")
    keys = ["a", "b", "c"]
    modes = ["json", "form", "key", "header", "path", "httpx-json", "httpx-form", "httpx-header"]
    n = 0
    for negs in itertools.product((False, True, None), repeat=3):
        for shape in ("cycle", "chain", "star"):
            n += 1
            mode = modes[n % len(modes)]
            fs = []
            for j, key in enumerate(keys):
                if negs[j] is None:
                    o = O(opt=True) if j != 1 else None
                else:
                    dep = {"cycle": keys[(j + 1) % 3], "chain": keys[min(j + 1, 2)], "star": "a"}[shape]
                    o = O(opt=True, dep=dep, neg=negs[j], range=R("[1:5]") if j == 0 else None)
                fs.append(F(key, i if j else Ptr(i), o))
            subsets = [ks for r in range(4) for ks in itertools.combinations(keys, r)]
            if n % 2:
                subsets = subsets[::2]
            for ks in subsets:
                pairs = [(k, scalar_for(mode, "9" if (k == "a" and n % 5 == 0) else "3")) for k in ks]
                cases.append(finish({"mode": mode, "type": St(*copy.deepcopy(fs)), "doc": dobj(pairs), "intent": "dep-chain"}))
    for mode in ("json", "key", "form", "header"):
        for dep, extra in (("ghost", None), ("x.y", None), ("-", None), ("a", None), ("", None), ("x.y", "nested"), ("B", None)):
            if dep == "B" and mode == "header":
                continue        # header keys are compared in canonical form: B is b
            for neg in (False, True):
                fs = [F("a", i, O(opt=True, dep=dep, neg=neg)), F("b", i, O(opt=True))]
                for ks in ([], ["a"], ["b"], ["a", "b"], ["a", dep], [dep]):
                    pairs = []
                    for k in ks:
                        if not k:
                            continue
                        if k == "x.y" and extra == "nested" and mode not in STRINGY:
                            pairs.append(("x", dobj([("y", dn("1"))])))
                        else:
                            pairs.append((k, scalar_for(mode, "3")))
                    if len({k for k, _ in pairs}) != len(pairs):
                        continue
                    cases.append(finish({"mode": mode, "type": St(*copy.deepcopy(fs)), "doc": dobj(pairs), "intent": "dep-chain"}))
    return cases


def ctypes(rng):
    """ParseJsonBody / Parse: the body counts only when it is not empty and declared as JSON"""
    cases = []
    i = P("int")
    t = St(F("a", i, O(opt=True, range=R("[1:5]"))), F("b", i, O(**{"def": "2"})))
    for ct in ("application/json", "application/json; charset=utf-8", "APPLICATION/JSON", "text/plain", "", "application/x-json",
               "text/json", "application/jsonp", "multipart/form-data", "application/json, text/plain"):
        for doc in (dobj([("a", dn("3"))]), dobj([("a", dn("9"))]), dobj([])):
            for direct in (False, True):
                if not direct and ct in ("multipart/form-data", "application/json, text/plain"):
                    continue        # net/http refuses to read the form of such a request: not an input of the unmarshaller
                cases.append(finish({"mode": "httpx-json", "type": copy.deepcopy(t), "doc": copy.deepcopy(doc), "ctype": ct, "direct": direct,
                                     "intent": "content-type"}))
        c = {"mode": "httpx-json", "type": copy.deepcopy(t), "doc": None, "raw": "{\"a\":", "ctype": ct, "direct": True, "intent": "content-type"}
        cases.append(finish(c))
    return cases


def frontends(rng, n):
    """the same documents through the other text / map front ends of mapping"""
    g = Gen(rng, "quick")
    cases = []
    tries = 0
    while len(cases) < n and tries < 20 * n:
        tries += 1
        c = g.case(mode="json", depth=rng.choice([0, 1, 1, 2]))
        d = c.get("doc")
        if d is None or "o" not in d:
            continue
        mode = rng.choice(["yaml", "yamlreader", "toml", "tomlbytes", "jsonreader", "jsonmap", "keyvaluer"])
        if mode in ("yaml", "toml", "yamlreader", "tomlbytes") and not tame(d):
            continue
        if mode == "keyvaluer":
            c2 = g.case(mode="key", depth=rng.choice([0, 1, 1, 2]))
            if c2.get("doc") is None or "o" not in c2["doc"]:
                continue
            cases.append(finish({"mode": "keyvaluer", "type": c2["type"], "doc": c2["doc"], "intent": "frontend-keyvaluer"}))
            continue
        c = {"mode": mode, "type": c["type"], "doc": d, "intent": "frontend-" + mode, "block": rng.random() < 0.5}
        cases.append(finish(c))
    return cases


def broken_texts():
    """texts the YAML / TOML / JSON decoders refuse: an error, never a panic, never a success"""
    i = P("int")
    t = St(F("a", i, O(opt=True)))
    cs = []
    for mode, raws in (("yaml", ["a: [1", "a: 1\n b: 2", "\t a: 1", "a: &x 1\nb: *y", "{a: 1"]),
                       ("yamlreader", ["a: [1", "{"]),
                       ("toml", ["a = ", "a = 1\na = 2", "[t\na = 1", "a = 1e", "= 1"]),
                       ("tomlbytes", ["a = ", "a == 1"]),
                       ("jsonreader", ["{\"a\":", "", "{\"a\" 1}"]), ("ojson", ["{", "nul"])):
        for raw in raws:
            cs.append(finish({"mode": mode, "type": copy.deepcopy(t), "raw": raw, "doc": None, "intent": "broken-text"}))
    return cs


def self_validating(rng):
    """a declared type with a Validate method (harness selfReq): httpx.Parse runs it after the passes"""
    t = St(multi("a", P("int"), {"form": O(range=R("[1:5]"))}), multi("b", P("string"), {"json": O(opt=True)}),
           multi("c", Ptr(P("int8")), {"header": O(opt=True, options=["1", "2"])}))
    cases = []
    for a in ("3", "9", None):
        for b in ("fine", "bad", None):
            for c in ("2", "5", None):
                rq = {"form": dobj([("a", ds(a))] if a is not None else []),
                      "header": dobj([("c", ds(c))] if c is not None else []),
                      "bodydoc": dobj([("b", ds(b))]) if b is not None else None}
                cases.append(finish({"mode": "parse", "type": copy.deepcopy(t), "req": rq, "static": "self",
                                     "self_validator": "reject" if b == "bad" else "accept", "intent": "self-validating"}))
    return cases


def parse_cases(rng, n):
    """httpx.Parse on one struct fed from four sources at once: path variables, query (or posted
    form) parameters, headers and a JSON body; every field belongs to one source, a few to two;
    then the request validator"""
    g = Gen(rng, "quick")
    cases = []
    for k in range(n):
        per = {}
        pools = {"path": ["pa", "pb"], "form": ["fa", "fb", "fc"], "header": ["ha", "hb"], "json": ["ja", "jb", "jc"]}
        fields = []
        for src in PARSE_ORDER:
            cnt = rng.choice([0, 1, 1, 2]) if src != "json" else rng.choice([0, 1, 2, 3])
            if cnt == 0:
                per[src] = []
                continue
            st = g.gen_struct(1 if src == "json" else 0, "httpx-" + src, cnt, keys=pools[src][:cnt], allow_embed=False)
            per[src] = st["f"]
            for f in st["f"]:
                fields.append((src, f))
        if not fields:
            continue
        rng.shuffle(fields)
        mfields = [{"key": f["key"], "t": f["t"], "o": None, "tags": {src: {"key": f["key"], "o": f["o"]}}} for src, f in fields]
        c = {"mode": "parse", "type": St(*mfields), "req": {}, "intent": "parse"}
        bad_src = rng.choice(PARSE_ORDER + [None, None])
        for src in PARSE_ORDER:
            fs = [f for s2, f in fields if s2 == src]      # the order of the struct
            bad = None
            if src == bad_src and fs:
                bad = (rng.randrange(g.count_fields(fs)), rng.choice(["missing", "range", "option", "type", "overflow", "null"]))
                if bad[1] == "null" and src != "json":
                    bad = (bad[0], "range")
            d = g.object_for(fs, "httpx-" + src, bad) if fs or rng.random() < 0.3 else None
            if src == "json":
                c["req"]["bodydoc"] = d
                if d is not None and rng.random() < 0.08:
                    c["req"]["ctype"] = rng.choice(["text/plain", "application/json; charset=utf-8", "", "application/x-json"])
            else:
                c["req"][src] = d
        if c["req"].get("bodydoc") is None and rng.random() < 0.4:
            c["req"]["postform"] = True
        # a field that may come from the query or from the body (optional in both): supplied by one, or by none
        if rng.random() < 0.5:
            s0 = fresh("p")
            key = rng.choice([s0, s0 + ".size", s0 + ".size"])
            o = O(opt=True, range=R("[1:100]"))
            idx = rng.randrange(len(mfields) + 1)
            mfields.insert(idx, multi(key, P("int"), {"json": o, "form": o}))
            c["type"] = St(*mfields)
            owner = rng.choice(["json", "form", "json", None])
            lit = rng.choice(["10", "1000"])
            if owner == "form" or (owner == "json" and c["req"].get("postform")):
                owner = "form"
                c["req"].setdefault("form", None)
                if c["req"]["form"] is None:
                    c["req"]["form"] = dobj([])
                c["req"]["form"]["o"].append({"k": key, "v": {"a": [ds(lit)]}})
            elif owner == "json":
                if c["req"].get("bodydoc") is None or c["req"].get("ctype") is not None:
                    c["req"]["bodydoc"] = c["req"].get("bodydoc") or dobj([])
                    c["req"].pop("ctype", None)
                k0, v = nested_doc(key, dn(lit))
                c["req"]["bodydoc"]["o"].append({"k": k0, "v": v})
            c["dual"] = {str(idx): owner or "json"}
        c["validator"] = rng.choice([None, None, "accept", "reject"])
        cases.append(finish(c))
    return cases


# ---------------------------------------------------------------------------- round 4 generators

EMPTY_POSITIONS = [["", "2"], ["2", ""], ["", "2", "3"], ["2", "", "3"], ["2", "3", ""], ["", "", "7"], ["", "7", ""],
                   ["7", "", ""], ["", ""], [""], ["", "2", "", "3"], ["2", "3"]]
TRANSPORTS = ["query", "postform", "multipart", "postform+query", "multipart+query"]
REQUEST_ENTRIES = ["Parse", "ParseForm", "GetFormValues", "ParseHeaders", "ParsePath", "ParseJsonBody"]


def shared_request(steps_of, rq, rid="r0", **kw):
    """a sequence whose steps all look at ONE request object of the caller"""
    steps = []
    for entry, t, extra in steps_of:
        st = {"mode": "parse", "type": copy.deepcopy(t), "req": copy.deepcopy(rq), "entry": entry, "reqid": rid, "mutate": True}
        st.update(extra or {})
        steps.append(st)
    c = {"mode": "seq", "steps": steps}
    c.update(kw)
    return c


def transported(rq, transport, split=None):
    """send the form parameters of rq by the given transport; with "+query" the parameters named in
    `split` travel in the URL and the others in the body"""
    rq = copy.deepcopy(rq)
    if transport == "query":
        return rq
    rq.pop("bodydoc", None)
    rq.pop("body", None)
    rq["postform"] = True
    if transport.startswith("multipart"):
        rq["multipart"] = True
    if transport.endswith("+query"):
        form = rq.get("form") or dobj([])
        rq["query"] = dobj([(kv["k"], kv["v"]) for kv in form["o"] if kv["k"] in (split or ())])
        rq["form"] = dobj([(kv["k"], kv["v"]) for kv in form["o"] if kv["k"] not in (split or ())])
    return rq


def reparse_corpus():
    """ONE request looked at several times (a validator or middleware and then the handler; two
    structs parsed out of one request), through every REST entry point in different orders; a
    repeated parameter with empty values in every position, sent in the URL, as a posted form, as a
    multipart form, or split between URL and body.  Every look must give what a fresh request gives
    (the model knows no request object: each call is judged on the parameters the client sent), and
    the request must hold afterwards what it held before (executor: `changed`)."""
    i, st_ = P("int"), P("string")
    full = St(multi("ids", Sl(i), {"form": O(opt=True)}), multi("tags", Sl(st_), {"form": O(opt=True)}),
              multi("n", i, {"form": O(opt=True, range=R("[1:9]"))}), multi("name", st_, {"form": O(opt=True)}),
              multi("id", i, {"path": None}), multi("X-Ids", Sl(st_), {"header": O(opt=True)}),
              multi("b", i, {"json": O(opt=True)}))
    filt = St(multi("ids", Sl(i), {"form": None}))
    brk = St(multi("ids", Sl(i), {"form": O(opt=True)}), multi("tags", Sl(Ptr(st_)), {"form": O(opt=True)}))
    cases = []
    k = 0
    for vals in EMPTY_POSITIONS:
        for transport in TRANSPORTS:
            k += 1
            words = [{"2": "x", "3": "y", "7": "z"}.get(v, v) for v in vals]
            rq = {"form": dobj([("ids", {"a": [ds(v) for v in vals]}), ("tags", {"a": [ds(w) for w in words]}),
                                ("n", {"a": [ds(v) for v in vals]}), ("name", {"a": [ds("nm")]})]),
                  "path": dobj([("id", ds("5"))]),
                  "header": dobj([("X-Ids", {"a": [ds(h) for h in [["a", "b"], ["", "a"], [" a", "b "], ["a", "", "b"], ["a"]][k % 5]]})]),
                  "bodydoc": dobj([("b", dn("3"))])}
            rq = transported(rq, transport, split=("ids", "name") if k % 2 else ("tags", "n"))
            order = [("ParseForm", filt), ("Parse", full), ("Parse", full), ("GetFormValues", full), ("ParseForm", full),
                     ("ParseHeaders", full), ("ParsePath", full), ("ParseJsonBody", full)]
            order = order[k % 4:] + order[:k % 4]
            steps = [(e, t, {"validator": "accept"} if (e == "Parse" and k % 3 == 0) else None) for e, t in order[:5]]
            cases.append(finish(shared_request(steps, rq, intent="reparse", procs1=k % 5 == 0)))
    # bracket notation, a caller that has looked at the form itself first, two requests taking turns
    for vals in (["", "2", "3"], ["", "", "7"], ["2", "", "3"]):
        for pre in (False, True):
            rq = {"form": dobj([("ids[]", {"a": [ds(v) for v in vals]}), ("tags[]", {"a": [ds(v) for v in vals]})])}
            steps = [(e, brk, {"preparse": pre}) for e in ("ParseForm", "GetFormValues", "Parse", "ParseForm")]
            cases.append(finish(shared_request(steps, rq, intent="reparse")))
        rq1 = {"form": dobj([("ids", {"a": [ds(v) for v in vals]})])}
        rq2 = {"form": dobj([("ids", {"a": [ds(v) for v in reversed(vals)]})]), "postform": True}
        a = shared_request([("ParseForm", filt, None)] * 3, rq1, rid="r0")["steps"]
        b = shared_request([("Parse", filt, None)] * 3, rq2, rid="r1")["steps"]
        cases.append(finish({"mode": "seq", "steps": [a[0], b[0], a[1], b[1], b[2], a[2]], "intent": "reparse"}))
    # as many values as GetFormValues admits, behind an empty one: every look admits them
    rq = {"form": dobj([("ids", {"a": [ds("")] + [ds("1")] * MAX_FORM_VALUES})])}
    cases.append(finish(shared_request([("ParseForm", filt, None), ("Parse", filt, None)], rq, intent="reparse")))
    return cases


def with_empties(rng, d):
    """a parameter document with empty values put in front of, between and behind the values"""
    if d is None:
        return d
    for kv in d["o"]:
        v = kv["v"]
        vals = [v] if "s" in v else v["a"]
        for _ in range(rng.choice([0, 1, 1, 2])):
            vals = list(vals)
            vals.insert(rng.randrange(len(vals) + 1), ds(""))
        if rng.random() < 0.3 and vals:
            vals = vals + [copy.deepcopy(rng.choice(vals))]
        kv["v"] = {"a": vals}
    return d


def reparsed(rng, n):
    """random requests of the httpx.Parse family, each looked at 2-5 times through randomly chosen
    entry points on the same request object, empty values in random positions of the form parameters"""
    cases = []
    for c in parse_cases(rng, 3 * n):
        if len(cases) >= n:
            break
        if c.get("dual"):
            continue
        rq = c["req"]
        rq["form"] = with_empties(rng, rq.get("form"))
        if rng.random() < 0.5:
            rq["header"] = with_empties(rng, rq.get("header"))
        if rq.get("postform") and rng.random() < 0.5:
            rq["multipart"] = True
            if any(not all(32 < ord(ch) < 127 and ch not in '"\\' for ch in kv["k"]) for kv in (rq.get("form") or dobj([]))["o"]):
                rq["multipart"] = False
        entries = [rng.choice(REQUEST_ENTRIES) for _ in range(rng.choice([2, 3, 3, 4, 5]))]
        if "Parse" not in entries:
            entries[rng.randrange(len(entries))] = "Parse"
        steps = [(e, c["type"], {"validator": c.get("validator") if e == "Parse" else rng.choice([None, "accept"]),
                                 "preparse": False}) for e in entries]
        sq = shared_request(steps, rq, intent="reparse-random", procs1=rng.random() < 0.2)
        if rng.random() < 0.3:
            for st in sq["steps"]:
                st["preparse"] = True
        cases.append(finish(sq))
    return cases


def reused_inputs(rng, n):
    """core/mapping entry points that take a map / bytes of the caller: the SAME object handed in two
    or three times (and a second object in between), the caller overwriting its targets between the
    calls; every call gives what a fresh input gives and the input holds afterwards what it held"""
    g = Gen(rng, "quick")
    cases = []
    tries = 0
    while len(cases) < n and tries < 30 * n:
        tries += 1
        mode = rng.choice(["key", "jsonmap", "keyvaluer", "okey", "form", "path", "header", "json", "jsonreader", "yaml", "toml"])
        gm = {"jsonmap": "json", "keyvaluer": "key", "okey": "key", "jsonreader": "json", "yaml": "json", "toml": "json"}.get(mode, mode)
        a = g.case(mode=gm, depth=rng.choice([0, 1, 1, 2]))
        b = g.case(mode=gm, depth=rng.choice([0, 1]))
        if any(x.get("doc") is None or "o" not in x["doc"] for x in (a, b)):
            continue
        if mode in ("yaml", "toml") and not (tame(a["doc"]) and tame(b["doc"])):
            continue
        if completion_prone(a["doc"]) or completion_prone(b["doc"]):
            continue

        def step(x, rid):
            return {"mode": mode, "type": copy.deepcopy(x["type"]), "doc": copy.deepcopy(x["doc"]), "reqid": rid, "mutate": True}
        plan = rng.choice(["aa", "aba", "aab", "abab", "aaa"])
        steps = [step(a if ch == "a" else b, "i0" if ch == "a" else "i1") for ch in plan]
        cases.append(finish({"mode": "seq", "steps": steps, "intent": "reused-input", "procs1": rng.random() < 0.2}))
    return cases


# ---------------------------------------------------------------------------- type shapes at the REST entry points

def _static_types():
    i, st_ = P("int"), P("string")
    paging = St(multi("page", i, {"form": None}), multi("size", i, {"form": O(range=R("[1:100]"))}),
                multi("sort", st_, {"form": O(options=["asc", "desc"], **{"def": "asc"})}))
    ident = St(multi("id", i, {"path": O(range=R("[1:999]"))}))
    trace = St(multi("X-Trace", st_, {"header": None}), multi("X-Level", i, {"header": O(opt=True, range=R("[0:5]"))}))
    body = St(multi("filter", st_, {"json": O(opt=True)}), multi("limit", i, {"json": O(range=R("[1:50]"), **{"def": "10"})}))
    filt = multi("filter", st_, {"json": O(opt=True)})
    c = copy.deepcopy
    return {
        "reqFormU": St(A(c(paging)), c(filt)), "reqFormE": St(A(c(paging)), c(filt)), "reqFormPE": St(A(Ptr(c(paging))), c(filt)),
        "reqFormUC": St(A(c(paging)), multi("keyword", st_, {"form": O(opt=True)})),
        "reqPathU": St(A(c(ident)), c(filt)), "reqHeaderU": St(A(c(trace)), c(filt)),
        "reqNestedF": St(A(St(A(c(paging)))), c(filt)), "reqNestedH": St(c(filt), A(St(A(c(trace))))),
        "reqAllU": St(A(c(ident)), A(c(paging)), A(c(trace)), A(c(body))),
        "reqMixed": St(multi("id", i, {"path": None}), A(c(paging)), A(St(A(c(trace)))), c(filt)),
    }


STATIC_TYPES = _static_types()          # harness/cmd/c08/types.go declares the same types in Go
STATIC_SOURCES = {"reqFormU": "f", "reqFormE": "f", "reqFormPE": "f", "reqFormUC": "f", "reqPathU": "p", "reqHeaderU": "h",
                  "reqNestedF": "f", "reqNestedH": "h", "reqAllU": "pfhj", "reqMixed": "pfh"}


def parse_shapes():
    """TYPE SHAPES handed to httpx.Parse: embedded structs (type name exported / unexported — only a
    declared Go type can have the latter —, by value / by pointer, nested two levels, the only carrier
    of a source's tag key or beside another field carrying it) x sources (path, form, header, body),
    each source alone and combined; valid input and one constraint missed per source; through Parse
    (with and without a request validator) and through the entry point of the source alone"""
    forms = [("ok", [("page", "2"), ("size", "50")]), ("range", [("page", "2"), ("size", "500")]),
             ("option", [("page", "2"), ("size", "50"), ("sort", "random")]), ("missing", [("size", "50")]),
             ("ok2", [("page", "1"), ("size", "100"), ("sort", "desc")])]
    paths = [("ok", [("id", "5")]), ("range", [("id", "5000")]), ("missing", [])]
    heads = [("ok", [("X-Trace", "t1")]), ("range", [("X-Trace", "t1"), ("X-Level", "9")]), ("missing", [("X-Level", "3")]),
             ("ok2", [("X-Trace", "t2"), ("X-Level", "5")])]
    bodies = [("ok", dobj([("filter", ds("q"))])), ("range", dobj([("limit", dn("77"))])), ("ok2", None)]
    cases = []
    k = 0
    for name, srcs in STATIC_SOURCES.items():
        grids = {"f": forms if "f" in srcs else [("none", [])], "p": paths if "p" in srcs else [("none", [])],
                 "h": heads if "h" in srcs else [("none", [])], "j": bodies if "j" in srcs else [("ok", dobj([("filter", ds("q"))]))]}
        combos = []
        # one source varies at a time, the others are fine
        for which in "pfhj":
            for idx in range(len(grids[which])):
                pick = {w: (idx if w == which else 0) for w in "pfhj"}
                if pick not in combos:
                    combos.append(pick)
        for pick in combos:
            k += 1
            rq = {"form": dobj([(a, {"a": [ds(b)]}) for a, b in grids["f"][pick["f"]][1]]),
                  "path": dobj([(a, ds(b)) for a, b in grids["p"][pick["p"]][1]]),
                  "header": dobj([(a, ds(b)) for a, b in grids["h"][pick["h"]][1]])}
            bd = grids["j"][pick["j"]][1]
            if bd is not None:
                rq["bodydoc"] = copy.deepcopy(bd)
            intents = [grids[w][pick[w]][0] for w in "pfhj"]
            entries = ["Parse"]
            if k % 3 == 0:
                entries += [{"f": "ParseForm", "p": "ParsePath", "h": "ParseHeaders", "j": "ParseJsonBody"}[w] for w in srcs]
            for e in entries:
                c = {"mode": "parse", "type": copy.deepcopy(STATIC_TYPES[name]), "static": name, "req": copy.deepcopy(rq), "entry": e,
                     "intent": "shape-" + name + ":" + "/".join(intents)}
                if e == "Parse" and k % 4 == 0:
                    c["validator"] = "accept" if k % 8 else "reject"
                cases.append(finish(c))
    # a type that reads only the body, sent more form values than GetFormValues admits: Parse refuses the request
    t = St(multi("filter", P("string"), {"json": O(opt=True)}))
    rq = {"form": dobj([("x", {"a": [ds("1")] * (MAX_FORM_VALUES + 1)})]), "bodydoc": dobj([("filter", ds("q"))])}
    cases.append(finish({"mode": "parse", "type": t, "req": rq, "intent": "shape-json-only-too-many-form-values"}))
    return cases


class C08(Property):
    id = "C08"
    title = "Declarative validation: accepted input always satisfies the field constraints"
    quick_cases = 700
    thorough_cases = 12000
    search_factor = 4
    design_ref = "DESIGN.md §6/C08"
    level_text = ("Unbounded Rocq theorems over a deep embedding of struct types (all primitive kinds, pointers, nested and "
                  "embedded structs, slices, maps; optional / optional=dep / optional=!dep / default (also on slices) / range / "
                  "options / string; keys with dots, the key '-') and document trees, for every unmarshaller configuration AND "
                  "every key look-up semantics (opaque parameter names of form/path, chained dotted keys of json/yaml/toml/conf/"
                  "header with scope fall-back): the model accepts a document iff it is well-typed and meets every declared "
                  "constraint, the result then is exactly the typed decoding with defaults, no input yields a panic; every field at "
                  "any depth of an accepted document meets its constraints; a call of httpx.Parse is accepted iff each of its four "
                  "passes is and the validator agrees; calls served by one process are independent; any number of looks at one "
                  "request object through any REST entry points each return what a fresh request returns and leave the request "
                  "as it was (GetFormValues modelled: a form parameter is supplied iff it has a non-empty value). The model is tied to "
                  "core/mapping and rest/httpx by differential execution on reflect.StructOf types, single calls and sequences of "
                  "calls of different unmarshaller kinds in one process.")
    level_note = ("Trusted: Coq kernel + vm_compute; hand-written model; correspondence only on generated types/documents; "
                  "encoding/json, yaml.v2, go-toml, net/http and strconv are outside the model (number syntax and float rounding "
                  "are modelled exactly only for decimal literals of <= 15 significant digits); the projection of an httpx.Parse "
                  "target onto its passes is done by tools/props/c08.py.")
    rule = ("cases: (1) struct types of 1-4 fields (depth <= 2 quick, <= 3 thorough) over 14 kinds with every combination of "
            "optional/optional=dep/optional=!dep/default/range/options/string, documents valid or with one violation, through 20 "
            "entry points (json bytes/reader/map, yaml, toml, key, valuer, form, path, header, opaque/dotted variants, "
            "httpx.ParseJsonBody/ParseForm/ParsePath/ParseHeaders/Parse); (2) sequences of 2-6 calls of different kinds in one "
            "process on the same key text / tag text / struct type / default text, both orders, with per-case unique texts; "
            "(3) httpx.Parse on multi-tagged structs fed from four sources + request validator; (4) dotted keys with scope "
            "fall-back and object completion, '-' keys, tag syntax variants and malformed tags, boundary spellings of numbers, "
            "supplied zero values, slice defaults, dependency chains and cycles, content types, broken texts; "
            "(5) ONE request object looked at 2-6 times through Parse / ParseForm / GetFormValues / ParseHeaders / ParsePath / "
            "ParseJsonBody in rotating orders (empty form values in every position; URL, posted, multipart and split transports), "
            "the same input map / bytes handed to several core/mapping calls; after every call of every case the caller's objects "
            "are compared with what they held before. "
            "non-trivial = the type has a field combining >= 2 option kinds or a composite type and the document supplies a "
            "constrained or nested field; for sequences: an earlier call carries a key the last one omits, or one object of the caller is looked at more "
            "than once; distinct = canonical hash")
    trusted_base = [
        "models theories/C08/Model.v + KModel.v are hand-written; tie = correspondence run (harness/cmd/c08) on generated types, "
        "documents and call sequences; constants and unmarshaller constructions re-extracted from the source on every run "
        "(coq/gen/C08Consts.v, obligations GenProofs.v)",
        "encoding/json, yaml.v2, go-toml (document decoding), net/http + rest/httpx.GetFormValues (request pre-processing, mirrored "
        "in tools/props/c08.py: form_doc / header_doc / body_doc), strconv (number parsing/rounding) and reflect are not modelled",
        "the JSON tree handed to the model is produced by the generator, not re-parsed from the text sent to Go; the view of a "
        "multi-tagged struct per unmarshaller kind and the projection of the observed target (view_type / project_val) are Python",
    ]
    assumptions = [
        "decimal literals with <= 15 significant digits (<= 6 for float32) and |n| < 2^53: exact comparison and float64 "
        "comparison coincide, and the decoded float prints back to the literal",
        "keys are non-empty, contain no ',' and are distinct after header canonicalisation; a field tagged for several passes of "
        "httpx.Parse is optional without default in each and supplied by at most one source",
        "object completion from an outer scope (recursiveValuer) mutates the document in place: generated only where no other "
        "field reads the completed object",
        "outside the fragment (never generated): env=, inherit, TextUnmarshaler/json.Unmarshaler fields, time.Duration, "
        "pointers to slices/maps, []byte from base64, strings holding JSON for map fields (or objects / escapes / non-ASCII for "
        "slice fields), map[string]any, hexadecimal or "
        "'_'-separated float strings, fillDefault mode, '-' or slice defaults inside an embedded ',optional' struct, default texts "
        "for non-string slices outside printable ASCII without { } \\ :",
    ]

    proof_targets = ["theories/C08/Props.vo", "theories/C08/Pinned.vo", "theories/C08/PinnedK.vo",
                     "theories/C08/GenProofs.vo"]

    def regen(self, ctx):
        """constants re-extracted from the Go sources -> coq/gen/C08Consts.v (obligations: GenProofs.v);
        the front-end limits and the order of the passes that the generator mirrors follow the source"""
        global MAX_FORM_VALUES, MAX_BODY, PARSE_ORDER
        c, notes = c08consts.regen()
        DEFAULT_MEMO_FIXED[0] = bool(c["default_memo_per_reading"])
        F32_RANGE_ON_TEXT[0] = bool(c["f32_range_on_text"])
        import os
        EMPTY_MAP_PRIVATE[0] = bool(c["empty_map_private"]) or os.environ.get("C08_FORCE_SCRIBBLE") == "1"
        MAX_FORM_VALUES = c["maxFormParamCount"]
        MAX_BODY = c["maxBodyLen"]
        order = [{"ParsePath": "path", "ParseForm": "form", "ParseHeaders": "header", "ParseJsonBody": "json"}[x]
                 for x in c["parse_order"]]
        if sorted(order) == sorted(PARSE_ORDER):
            PARSE_ORDER = order
        return notes

    def prepare(self, ctx):
        ok, res = vlib.go_build("c08")
        self.bin = res if ok else None
        return ok, ("" if ok else res)

    # ---- thorough tier: overlapping calls under the race detector ------------------------------
    def extra(self, ctx):
        if ctx.tier != "thorough":
            return []
        import os
        out_bin = os.path.join(vlib.HARNESS, "bin", "c08race")
        rc, out = vlib.sh(["go", "build", "-modfile", vlib.harness_modfile(), "-tags", "verif", "-race", "-o", out_bin, "./cmd/c08"],
                          cwd=vlib.HARNESS, env=vlib.goenv(), timeout=900)
        if rc != 0:
            raise ExecError("c08 does not build with -race: %s" % out[-2000:])
        rng = random.Random(ctx.seed * 131 + 9)
        cases = overlapping(rng, 240)
        ctx.checker_cmds.append("harness/bin/c08race (go build -race ./cmd/c08): %d histories of overlapping calls on shared "
                                "unmarshallers (gate in the canonical key function / free-running)" % len(cases))
        old_bin, self.bin = self.bin, out_bin
        try:
            payload = None
            rc, out, res = vlib.go_run(out_bin, [self._wire(c, i) for i, c in enumerate(cases)], tag="c08race", timeout=900,
                                       env={"GORACE": "halt_on_error=1 exitcode=66"})
        finally:
            self.bin = old_bin
        if "DATA RACE" in out or rc == 66:
            return [{"what": "data race in core/mapping / rest/httpx under overlapping unmarshal calls", "replay": out[-4000:]}]
        if rc != 0 or len(res) != len(cases):
            raise ExecError("c08race rc=%s: %s" % (rc, out[-2000:]))
        one = lambda x: {"verdict": x["verdict"], "val": x.get("val"), "err": x.get("err", ""), "tag": x.get("tag", ""),
                         "called": bool(x.get("called")), "alias": x.get("alias", ""), "changed": x.get("changed", "")}
        obs = [{"verdict": "seq", "steps": [one(x) for x in r["steps"]]} for r in res]
        rs = vlib.coq_eval_cases(self.id, self.check_module, [self.coq_case(c, o) for c, o in zip(cases, obs)])
        bad = [(c, o) for c, o, (a, p) in zip(cases, obs, rs) if not p]
        ctx.notes.append("race monitor: %d histories of overlapping calls, no data race, %d property failures" % (len(cases), len(bad)))
        return [{"what": self.describe_failure(c, o), "replay": {"case": c, "observed": o}} for c, o in bad[:3]]

    # ---- cases -----------------------------------------------------------------
    def corpus(self):
        i, f64 = P("int"), P("float64")
        cs = [
            # F2: range with optional=dep / optional=!dep
            {"mode": "json", "type": St(F("a", i, O(opt=True, dep="b", range=R("[1:5]"))), F("b", i, O(opt=True))),
             "doc": dobj([("a", dn("100")), ("b", dn("1"))])},
            {"mode": "json", "type": St(F("a", i, O(opt=True, dep="b", neg=True, range=R("[1:5]"))), F("b", i, O(opt=True))),
             "doc": dobj([("a", dn("100"))])},
            {"mode": "json", "type": St(F("a", i, O(opt=True, dep="b", range=R("[1:5]"))), F("b", i, O(opt=True))),
             "doc": dobj([("a", dn("5")), ("b", dn("1"))])},
            # NaN against a range
            {"mode": "form", "type": St(F("a", f64, O(range=R("[1:5]")))), "doc": dobj([("a", {"a": [ds("NaN")]})])},
            {"mode": "json", "type": St(F("a", f64, O(range=R("[1:5]"), str=True))), "doc": dobj([("a", ds("nan"))])},
            {"mode": "key", "type": St(F("a", f64, O(range=R("(:5]")))), "doc": dobj([("a", {"g": ["float64", "NaN"]})])},
            {"mode": "path", "type": St(F("a", f64)), "doc": dobj([("a", ds("NaN"))])},
            # panics
            {"mode": "json", "type": St(F("m", Mp(Sl(i)))), "doc": dobj([("m", dobj([("x", NULL)]))])},
            {"mode": "json", "type": St(F("m", Mp(Ptr(i)))), "doc": dobj([("m", dobj([("x", dn("5"))]))])},
            {"mode": "json", "type": St(F("m", Mp(Ptr(P("bool"))))), "doc": dobj([("m", dobj([("x", {"b": True})]))])},
            {"mode": "json", "type": St(F("m", Mp(Ptr(Ptr(P("string")))))), "doc": dobj([("m", dobj([("x", ds("q"))]))])},
            # open / closed ends
            {"mode": "json", "type": St(F("a", f64, O(range=R("(1:5]")))), "doc": dobj([("a", dn("1"))])},
            {"mode": "json", "type": St(F("a", f64, O(range=R("(1:5]")))), "doc": dobj([("a", dn("5"))])},
            {"mode": "json", "type": St(F("a", f64, O(range=R("[1:5)")))), "doc": dobj([("a", dn("5.0"))])},
            {"mode": "json", "type": St(F("a", f64, O(range=R("[1:5)")))), "doc": dobj([("a", dn("1.000"))])},
            {"mode": "path", "type": St(F("a", P("uint8"), O(range=R("[:255]")))), "doc": dobj([("a", ds("256"))])},
            # nested: absent struct whose fields are all defaulted / optional
            {"mode": "json", "type": St(F("s", St(F("x", i, O(**{"def": "7"})), F("y", i, O(opt=True))))), "doc": dobj([])},
            {"mode": "json", "type": St(F("s", St(F("x", i, O(opt=True, dep="y", neg=True)), F("y", i, O(opt=True))))), "doc": dobj([])},
            {"mode": "json", "type": St(F("s", Sl(St(F("x", i))))), "doc": dobj([("s", {"a": [dobj([("x", dn("1"))]), NULL, dobj([])]})])},
            # streams
            {"mode": "json", "type": St(F("a", i)), "raw": '{"a":1', "doc": None},
            {"mode": "json", "type": St(F("a", i)), "raw": "", "doc": None},
            {"mode": "json", "type": St(F("a", i)), "raw": "{a:1}", "doc": None},
            {"mode": "json", "type": St(F("a", i)), "raw": "[1]", "doc": {"a": [dn("1")]}},
            {"mode": "json", "type": St(F("a", i)), "raw": "null", "doc": NULL},
            {"mode": "json", "type": St(F("a", i)), "raw": '{"a":1,"a":2}', "doc": dobj([("a", dn("2"))])},
            {"mode": "httpx-json", "type": St(F("a", i, O(opt=True)), F("b", i, O(**{"def": "3"}))), "raw": "", "doc": None},
            {"mode": "httpx-form", "type": St(F("a", i, O(opt=True)), F("c", P("string"), O(opt=True))),
             "doc": dobj([("a", ds("")), ("c", ds("v"))])},
            # optional embedded struct: defaulted member omitted / optional+default member omitted
            {"mode": "json", "type": St(A(St(F("a", i), F("b", i, O(**{"def": "5"})), F("c", i, O(opt=True, **{"def": "7"}))), True)),
             "doc": dobj([("a", dn("1"))])},
            {"mode": "json", "type": St(A(Ptr(St(F("a", i), F("b", i, O(**{"def": "5"})), F("c", i, O(opt=True, **{"def": "7"})))), True)),
             "doc": dobj([("a", dn("1")), ("b", dn("2"))])},
            {"mode": "json", "type": St(A(Ptr(St(F("a", i), F("b", i, O(**{"def": "5"})))), True)), "doc": dobj([])},
            {"mode": "json", "type": St(A(St(F("a", i), F("b", i, O(**{"def": "5"}))), True)), "doc": dobj([("b", dn("6"))])},
            # header: member without options inside an optional embedded struct
            {"mode": "header", "type": St(A(St(F("p", P("uint8"))), True)), "doc": dobj([("p", ds("2"))])},
            {"mode": "httpx-header", "type": St(A(Ptr(St(F("p", P("uint8")), F("q", i, O(opt=True)))), True)),
             "doc": dobj([("p", ds("2")), ("q", ds("3"))])},
        ]
        # one request looked at several times comes first (seeded C08-10)
        return reparse_corpus() + parse_shapes() + [finish(c) for c in cs]

    def gen(self, rng, n, tier):
        # sequences first: a state leak between requests is then reported as a self-contained
        # sequence rather than as a later single request polluted by its predecessors
        big = tier == "thorough"
        _SALT[0] = 0
        cases = reparsed(rng, 50 if not big else 700)
        cases += reused_inputs(rng, 40 if not big else 600)
        cases += crosskind(rng, 40 if not big else 400)
        cases += overlapping(rng, 60 if not big else 600)
        cases += scribbles(rng)
        cases += mutated_results(rng)
        cases += sequences(rng, 120 if not big else 1200)
        cases += parse_cases(rng, 200 if not big else 3000)
        cases += self_validating(rng)
        if tier in ("quick", "thorough"):
            cases += systematic(rng)
            cases += dotted(rng)
            cases += tagsyntax(rng)
            cases += tag_lexemes(rng, 150 if not big else 2500)
            cases += zeros(rng)
            cases += slice_defaults(rng)
            cases += depchains(rng)
            cases += struct_containers(rng)
            cases += decimal_bounds(rng)[:1200 if not big else 100000]
            cases += pointer_containers(rng)
            cases += slice_strings(rng)
            cases += header_keys(rng)
            cases += ctypes(rng)
        cases += boundaries(rng, 380 if not big else 6000)
        cases += frontends(rng, 150 if not big else 1500)
        cases += broken_texts()
        g = Gen(rng, "thorough" if tier == "thorough" else "quick")
        for _ in range(n):
            cases.append(g.case())
        return cases

    # ---- execution ----------------------------------------------------------------
    def _wire(self, c, i):
        return self._wire_fn()(c, i)

    def _wire_fn(self):
        def wire(c, i):
            if c["mode"] == "seq":
                return {"id": i, "mode": "seq", "procs1": bool(c.get("procs1")), "conc": c.get("conc"),
                        "steps": [wire(st, j) for j, st in enumerate(c["steps"])]}
            if c["mode"] == "scribble":
                return {"id": i, "mode": "scribble", "type": St(), "ctype": c["tag"], "entries": c["entries"]}
            if c["mode"] == "disturb":
                return {"id": i, "mode": "disturb", "type": c["type"], "ctype": c["tag"], "doc": c.get("doc")}
            w = {"id": i, "mode": c["mode"], "type": c["type"], "doc": c.get("doc"), "raw": c.get("raw"),
                 "direct": bool(c.get("direct")), "pad": int(c.get("pad") or 0), "repeat": c.get("repeat"),
                 "validator": c.get("validator"), "ctype": c.get("ctype"), "static": c.get("static") or "",
                 "mutate": bool(c.get("mutate")), "entry": c.get("entry") or "", "reqid": c.get("reqid") or "",
                 "preparse": bool(c.get("preparse"))}
            if c["mode"] == "parse":
                rq = c["req"]
                w["req"] = {"path": rq.get("path"), "form": rq.get("form"), "header": rq.get("header"),
                            "body": rq.get("body"), "ctype": rq.get("ctype"), "postform": bool(rq.get("postform")),
                            "multipart": bool(rq.get("multipart")), "query": rq.get("query")}
            return w

        return wire

    def execute(self, cases, ctx):
        wire = self._wire_fn()
        payload = [wire(c, i) for i, c in enumerate(cases)]
        if len(payload) <= 320:
            # small batches (shrink candidates, replays): one process per case, so that state the
            # implementation might keep between requests cannot leak from one candidate into another
            import concurrent.futures

            def one(i):
                rc, out, res = vlib.go_run(self.bin, [payload[i]], tag="c08i%d" % i, timeout=300)
                if rc != 0 or len(res) != 1:
                    raise ExecError("c08 executor rc=%s: %s" % (rc, out[-2000:]))
                return res[0]

            with concurrent.futures.ThreadPoolExecutor(max_workers=8) as ex:
                res = list(ex.map(one, range(len(payload))))
        else:
            rc, out, res = vlib.go_run(self.bin, payload, tag="c08", timeout=900)
            if rc != 0 or len(res) != len(cases):
                raise ExecError("c08 executor rc=%s: %s" % (rc, out[-2000:]))
        obs = []
        for r in res:
            if r.get("fail"):
                raise ExecError("c08 executor: case %s: %s" % (r.get("id"), r["fail"]))
            one = lambda x: {"verdict": x["verdict"], "val": x.get("val"), "err": x.get("err", ""), "tag": x.get("tag", ""),
                             "called": bool(x.get("called")), "alias": x.get("alias", ""), "changed": x.get("changed", "")}
            if r["verdict"] == "seq":
                obs.append({"verdict": "seq", "steps": [one(x) for x in r["steps"]]})
            else:
                obs.append(one(r))
        return obs

    def coq_case(self, case, obs):
        if case["mode"] == "seq":
            # what the caller does with its own structs between two calls is not a call
            return clist([self.coq_step(st, o) for st, o in zip(case["steps"], obs["steps"])
                          if st["mode"] not in ("scribble", "disturb")])
        return clist([self.coq_step(case, obs)])

    def coq_step(self, case, obs):
        ps = []
        for p in passes_of(case, obs):
            doc = "None" if p["doc"] is None else "(Some %s)" % cdoc(p["doc"])
            val = "None" if p["val"] is None or obs["verdict"] != "ok" else "(Some %s)" % cval(p["val"])
            ps.append("mkOPass (mkPass %s %s %s) %s" % (p["kc"], cfields(p["type"]["f"]), doc, val))
        claims = []
        if case["mode"] != "parse":
            collect_claims(view_type(case["type"], tag_of(case["mode"])), claims)
        verdict = {"ok": "VOk", "error": "VErr", "panic": "VPanic"}[obs["verdict"]]
        if obs.get("alias"):
            # two positions of the target share one pointer: not a value of the type's value space at all
            # (writing through one position changes the other); judged like a crash
            verdict = "VPanic"
        # the call wrote into an object of its caller (the request's form / header / URL / path variables /
        # body, the input map or text): the next look at the same object sees values nobody supplied
        intact = not (obs.get("changed") and input_judged(case))
        vd = case.get("validator") or case.get("self_validator")
        if (case.get("entry") or "Parse") != "Parse":
            vd = None           # the request validator belongs to httpx.Parse alone
        validator = "None" if vd is None else "(Some %s)" % cbool(vd == "accept")
        tags = clist(["(%s, %s, %s)" % (cstr(raw), cstr(key), copts(o)) for raw, key, o in claims])
        forms = clist(["(%s, %s)" % (crform(f, rep), "None" if d is None else "(Some %s)" % cdoc(d)) for f, rep, d in form_claims(case)])
        return "mkOCall %s %s %s %s %s %s %s" % (clist(ps), validator, cbool(bool(obs.get("called"))), verdict, tags, forms,
                                                 cbool(intact))

    # ---- evidence -------------------------------------------------------------------
    @staticmethod
    def _field_stats(fields, acc):
        for f in fields:
            o = f["o"]
            n = 0
            if o:
                n = sum(1 for x in (o["opt"], o["def"] is not None, o["range"], o["options"], o["str"]) if x)
                if o["dep"]:
                    acc["dep"] = True
            t0 = deref(f["t"])
            if n >= 2:
                acc["combo"] = True
            if t0["k"] not in KINDS:
                acc["composite"] = True
            if t0["k"] == "struct":
                C08._field_stats(t0["f"], acc)
        return acc

    def nontrivial(self, case, obs):
        if case["mode"] == "seq":
            # an earlier request carries a key that the last one omits
            def keys(st):
                d = model_doc(st) if st.get("doc") is not None else st.get("doc")
                d = d or st.get("doc")
                return set(kv["k"] for kv in d["o"]) if d and "o" in d else set()
            last = keys(case["steps"][-1])
            ids = [st.get("reqid") for st in case["steps"] if st.get("reqid")]
            if len(ids) != len(set(ids)):
                return True         # one object of the caller looked at more than once
            return len(case["steps"]) > 1 and any(keys(st) - last for st in case["steps"][:-1])
        acc = self._field_stats(case["type"]["f"], {})
        d = model_doc(case)
        supplied = bool(d and "o" in d and any(kv["k"] != "extra" for kv in d["o"]))
        return bool((acc.get("combo") or acc.get("composite")) and supplied)

    def features(self, case, obs):
        if case["mode"] == "seq":
            fs = ["mode=seq", "seq:" + case["steps"][-1]["mode"], "seq:len=%d" % len(case["steps"]),
                  "seq:procs1=%s" % bool(case.get("procs1")), "seq:direct=%s" % bool(case["steps"][0].get("direct"))]
            fs += ["seq:earlier=" + o["verdict"] for o in obs["steps"][:-1]]
            fs.append("seq:last=" + obs["steps"][-1]["verdict"])
            if any(st.get("reqid") for st in case["steps"]):
                fs.append("seq:shared-request" if any(st["mode"] == "parse" for st in case["steps"]) else "seq:reused-input")
                fs += ["seq:entry=" + (st.get("entry") or st["mode"]) for st in case["steps"]]
            if any(st.get("repeat") for st in case["steps"]):
                fs.append("seq:too-many-form-values")
            if any(st.get("pad") for st in case["steps"]):
                fs.append("seq:oversized-body")
            return fs
        acc = self._field_stats(case["type"]["f"], {})
        fs = ["mode=" + case["mode"], "verdict=" + obs["verdict"], "intent=" + str(case.get("intent", "corpus"))]
        fs += ["type:" + k for k in sorted(acc)]
        return fs

    def describe_failure(self, case, obs):
        if case["mode"] == "seq":
            extra = ["call %d: %s" % (i, o.get("changed") or o.get("alias")) for i, o in enumerate(obs["steps"])
                     if o.get("changed") or o.get("alias")]
            return ("a request of a sequence served by one process was not decided on its own document alone "
                    "(verdicts: %s)%s" % ([o["verdict"] for o in obs["steps"]], "; " + "; ".join(extra[:3]) if extra else ""))
        if obs.get("changed"):
            return "the call changed an object of its caller: %s" % obs["changed"]
        if obs.get("alias"):
            return "accepted, but two positions of the target share storage: %s" % obs["alias"]
        if obs["verdict"] == "panic":
            return "the unmarshaller panicked: %s" % obs.get("err", "")
        if case.get("validator") or case.get("self_validator"):
            return ("httpx.Parse with a request validator: the verdict / the validator call does not follow from the passes "
                    "(verdict %s, validator %s, ran: %s): %s" % (obs["verdict"], case.get("validator") or case.get("self_validator"),
                                                                 obs.get("called"), obs.get("err", "")))
        if obs["verdict"] == "ok":
            return ("input was accepted although a declared constraint does not hold (or the decoded value is not the "
                    "supplied one with defaults); tag of first field: %s" % obs.get("tag", ""))
        return "well-typed input meeting every declared constraint was rejected: %s" % obs.get("err", "")

    # ---- shrinking ---------------------------------------------------------------------
    def shrink_candidates(self, case):
        res = []
        if case["mode"] == "seq":
            steps = case["steps"]
            for i in range(len(steps)):
                if len(steps) > 1:
                    c = copy.deepcopy(case)
                    c.pop("id", None)
                    del c["steps"][i]
                    res.append(c)
            for i, st in enumerate(steps):
                if st.get("doc") and "o" in st["doc"]:
                    for j in range(len(st["doc"]["o"])):
                        c = copy.deepcopy(case)
                        c.pop("id", None)
                        del c["steps"][i]["doc"]["o"][j]
                        c["steps"][i].pop("raw", None)
                        try:
                            res.append(finish(c))
                        except ValueError:
                            pass
            return res[:100]

        def variant(mut):
            c = copy.deepcopy(case)
            c.pop("id", None)
            keep_raw = c.get("doc") is None
            try:
                if mut(c) is False:
                    return
            except (KeyError, IndexError, TypeError):
                return
            if not keep_raw:
                c.pop("raw", None)
            try:
                res.append(finish(c))
            except ValueError:
                pass

        def struct_paths(fields, path):
            yield path, fields
            for i, f in enumerate(fields):
                t0 = deref(f["t"])
                if t0["k"] == "struct":
                    yield from struct_paths(t0["f"], path + [i])

        def get_fields(c, path):
            fs = c["type"]["f"]
            for i in path:
                fs = deref(fs[i]["t"])["f"]
            return fs

        for path, fields in list(struct_paths(case["type"]["f"], [])):
            for i in range(len(fields)):
                def rm(c, path=path, i=i):
                    fs = get_fields(c, path)
                    if len(fs) <= 1 and not path:
                        return False
                    key = fs[i]["key"]
                    del fs[i]
                    if not path and c.get("dual"):
                        # the fields tagged for two passes are named by position
                        c["dual"] = {str(int(j) - (1 if int(j) > i else 0)): owner for j, owner in c["dual"].items() if int(j) != i}
                    if not path and c.get("doc") and "o" in c["doc"]:
                        c["doc"]["o"] = [kv for kv in c["doc"]["o"] if kv["k"] != key]
                variant(rm)
                o = fields[i]["o"]
                if o and not fields[i].get("rawfixed"):
                    for comp, empty in (("opt", False), ("def", None), ("range", None), ("options", None), ("str", False)):
                        if o[comp]:
                            def drop(c, path=path, i=i, comp=comp, empty=empty):
                                oo = get_fields(c, path)[i]["o"]
                                oo[comp] = empty
                                if comp == "opt":
                                    oo["dep"], oo["neg"] = None, False
                                if not any([oo["opt"], oo["def"], oo["range"], oo["options"], oo["str"]]):
                                    get_fields(c, path)[i]["o"] = None
                            variant(drop)
                t = fields[i]["t"]
                if t["k"] in ("ptr", "slice", "map"):
                    def unwrap(c, path=path, i=i):
                        f = get_fields(c, path)[i]
                        f["t"] = f["t"]["e"]
                    variant(unwrap)

        def doc_nodes(d, path):
            yield path, d
            if d and "o" in d:
                for i, kv in enumerate(d["o"]):
                    yield from doc_nodes(kv["v"], path + [("o", i)])
            if d and "a" in d:
                for i, e in enumerate(d["a"]):
                    yield from doc_nodes(e, path + [("a", i)])

        def get_doc(c, path):
            d = c["doc"]
            for kind, i in path:
                d = d["o"][i]["v"] if kind == "o" else d["a"][i]
            return d

        if case.get("doc"):
            for path, d in list(doc_nodes(case["doc"], [])):
                n = len(d["o"]) if "o" in d else len(d["a"]) if "a" in d else 0
                for i in range(n):
                    def rmk(c, path=path, i=i):
                        dd = get_doc(c, path)
                        del dd["o" if "o" in dd else "a"][i]
                    variant(rmk)
        return res[:300]


PROPERTY = C08()
