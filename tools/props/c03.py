"""C03 — rate limiters (periodscript.lua / tokenscript.lua translated, Go wrappers modelled)."""
import vlib
from runner import Property, ExecError
from vlib import cz, clist, cbool
from props.c19 import regen_scripts, cbulk

PCODES = ["Unknown", "Allowed", "HitQuota", "OverQuota"]
OVERLAY = {"core/limit/verif_c03_test.go": "/verif/harness/overlay/limit/verif_c03_test.go"}
BASE = 1700000000000


class C03(Property):
    id = "C03"
    title = "Rate limiters never grant more than the configured quota"
    quick_cases = 420
    thorough_cases = 6000
    design_ref = "DESIGN.md §6/C03"
    level_text = ("Unbounded Rocq theorems over the Gallina translation of periodscript.lua/tokenscript.lua (regenerated from the "
                  "tree on every run) plus the Go wrappers (TakeCtx reply mapping; reserveN alive flag, error classification, "
                  "rescue fallback, monitor): exact quota per key and period for every interleaving; errors never grant; the "
                  "token script (TTL expiry included) refines the ideal bucket min(burst, T+rate*whole seconds); all instances "
                  "on a reachable store jointly grant <= burst + rate*elapsed over every interval and grant n iff the bucket "
                  "holds n; an ideal in-process bucket bound for outages. Tied to the code by the translator and by differential "
                  "execution on miniredis (real Lua) incl. outages; x/time/rate decisions are checked against the local bound.")
    level_note = ("Trusted: Coq kernel + vm_compute; translate/lua2coq.py and Lib/RedisStore.v (GET/SETEX/INCRBY/EXPIRE, TTL, Lua "
                  "numbers as exact rationals); hand-written Go wrapper model; atomicity of EVAL; golang.org/x/time/rate is "
                  "not modelled (its observed decisions are checked against the proven ideal-bucket bound); PeriodLimit.Align "
                  "(wall clock, time zone) is outside the model; hypotheses: caller-supplied now = store clock, non-decreasing.")
    rule = ("period histories: (period 1..5 s, quota 0..8), 1..3 callers, 1..3 keys, 10..50 ops, advances at period-1/period/"
            "period+1 ms, outages, garbage counters; token histories: (rate,burst) incl. 2*burst<rate, 1..4 instances, request "
            "sizes 0..burst+1, advances across second and TTL boundaries, outages at every position of short histories; "
            "non-trivial = period: HitQuota and OverQuota both observed; token: a grant and a refusal by the shared bucket and "
            "(>=2 instances that both got an answer, or an outage with a rescue-mode answer)")
    trusted_base = [
        "translate/lua2coq.py (Lua subset -> Gallina) and theories/Lib/RedisStore.v (Redis commands, TTL, Lua value conversions)",
        "Go wrapper model in theories/C03/Model.v is hand-written; tie = correspondence run (harness/overlay/limit) on miniredis",
        "Redis executes scripts atomically (concurrent callers / instances = some sequential history)",
        "golang.org/x/time/rate (rescue limiter) is third party: checked against the ideal local bucket bound, not modelled",
        "the executor reads TokenLimiter.redisAlive/monitorStarted (white-box, read-only) to synchronise with the 100 ms monitor",
    ]
    assumptions = ["caller-supplied now equals the store clock and does not decrease; request sizes >= 0; rate >= 1; period >= 1",
                   "nobody else writes the limiter keys (foreign garbage is modelled for PeriodLimit only)"]

    def regen(self, ctx):
        return regen_scripts([("core/limit/periodscript.lua", "Lua_period"),
                              ("core/limit/tokenscript.lua", "Lua_token")], ctx.tier)

    # ------------------------------------------------------------------ cases
    def corpus(self):
        A = lambda i, n=1: ["allow", i, n]
        return [
            # F5: 2*burst < rate (ttl computed as 0 on the pinned script)
            {"kind": "token", "rate": 5, "burst": 2, "n": 2, "base_ms": BASE, "ops": [A(0), A(0), A(1), A(1), A(0), A(1)]},
            {"kind": "token", "rate": 10, "burst": 1, "n": 3, "base_ms": BASE + 400, "ops": [A(0), A(1), A(2), ["adv", 600], A(2), A(1), ["adv", 1000], A(0), A(0)]},
            # refill per whole second, TTL expiry = full bucket
            {"kind": "token", "rate": 2, "burst": 3, "n": 2, "base_ms": BASE + 250, "ops": [A(0), A(0), A(1), A(1), ["adv", 749], A(1), ["adv", 1], A(1, 2), A(0), ["adv", 2999], A(0, 3), ["adv", 1], A(1, 3), A(0, 4), A(1, 0)]},
            # outage: every instance falls back to its own bucket, then recovers
            {"kind": "token", "rate": 2, "burst": 3, "n": 2, "base_ms": BASE, "ops": [A(0), A(0), A(1), A(1), ["adv", 1000], A(1, 2), A(0), ["down"], A(0), A(0), A(0), A(0), A(1), ["adv", 500], A(0), ["up"], A(0), A(1), ["adv", 1000], A(0), A(1)]},
            # exact quota, period boundary, error, garbage
            {"kind": "period", "period": 2, "quota": 3, "lims": 2, "keys": ["a", "b"],
             "ops": [["take", 0, 0], ["ttl", 0], ["take", 1, 0], ["take", 0, 1], ["take", 0, 0], ["take", 1, 0], ["adv", 1999], ["ttl", 0], ["take", 0, 0], ["adv", 1],
                     ["ttl", 0], ["take", 0, 0], ["down"], ["take", 0, 0], ["up"], ["take", 0, 0], ["poke", 1, "zz"], ["take", 0, 1], ["ttl", 1],
                     ["poke", 1, "0"], ["take", 0, 1], ["ttl", 1], ["poke", 1, "7"], ["take", 1, 1], ["ttl", 1]]},
            # Align(): window = distance to the next multiple of the period on the local clock
            {"kind": "period", "period": 86400, "quota": 2, "lims": 1, "keys": ["a", "b"], "align": True,
             "ops": [["take", 0, 0], ["ttl", 0], ["adv", 500], ["take", 0, 0], ["ttl", 0], ["take", 0, 0], ["take", 0, 1], ["ttl", 1]]},
            {"kind": "period", "period": 60, "quota": 1, "lims": 2, "keys": ["a"], "align": True,
             "ops": [["take", 1, 0], ["ttl", 0], ["take", 0, 0]]},
            # a long outage: the circuit breaker opens and keeps failing calls after recovery
            {"kind": "period", "period": 5, "quota": 3, "lims": 2, "keys": ["a"], "breaker": True,
             "ops": [["take", 0, 0], ["down"]] + [["take", 1, 0]] * 9 + [["up"]] + [["take", 0, 0]] * 6},
            {"kind": "token", "rate": 2, "burst": 3, "n": 3, "base_ms": BASE, "breaker": True,
             "ops": [A(0), ["down"], A(0), A(1), A(2), ["up"], ["down"], A(0), A(1), A(2), ["up"], ["down"], A(0), A(1), A(2), ["up"],
                     A(0), A(1), A(2), A(0), A(1), A(2)]},
            {"kind": "period", "period": 1, "quota": 1, "lims": 1, "keys": ["a"], "ops": [["take", 0, 0], ["take", 0, 0], ["adv", 1000], ["take", 0, 0]]},
            {"kind": "period", "period": 3, "quota": 0, "lims": 1, "keys": ["a"], "ops": [["take", 0, 0], ["take", 0, 0]]},
        ]

    # go-zero's redis client wraps every command in a circuit breaker (one per address) that
    # starts rejecting at random once more than 5 (+ ~accepts/2) commands failed in its 10 s
    # window; that is outside the model, so generated histories stay below it.  Measured on
    # miniredis: a call during an outage = 1 failing command, a call on a garbage counter = 2
    # (EVALSHA -> NOSCRIPT, then EVAL -> error), the first call of a run = 1 (NOSCRIPT); a monitor
    # ping during an outage would be 1 more.
    FAIL_BUDGET = 4
    TOKEN_FAIL_BUDGET = 3

    def _period_case(self, rng, breaker=False, align=False):
        period = rng.choice([60, 3600, 86400, 7 * 86400]) if align else rng.choice([1, 1, 2, 3, 5])
        quota = rng.choice([0, 1, 1, 2, 3, 3, 5, 8])
        lims = rng.randint(1, 3)
        keys = ["a", "b", "c:d"][:rng.randint(1, 3)]
        budget = 14 if breaker else self.FAIL_BUDGET
        ops = []
        down = False
        outages = 0
        fails = 0
        advanced = 0
        garbage = set()
        for _ in range(rng.randint(10, 50)):
            r = rng.random()
            if r < 0.60:
                k = rng.randrange(len(keys))
                if down or k in garbage:
                    cost = 1 if down else 2
                    if fails + cost > budget:
                        continue
                    fails += cost
                ops.append(["take", rng.randrange(lims), k])
            elif r < 0.70:
                ops.append(["ttl", rng.randrange(len(keys))])
            elif r < 0.90:
                p = period * 1000
                d = max(0, rng.choice([1, 500, 999, 1000, 1001, p - 1, p, p + 1, p // 2, rng.randint(0, p + 500)]))
                if align:
                    # the wall clock read by Align() does not follow FastForward: stay inside the
                    # first window (>= 1 s) so that no second period is started
                    d = rng.choice([1, 50, 200])
                    if advanced + d > 900:
                        continue
                    advanced += d
                ops.append(["adv", d])
            elif r < 0.96:
                if down:
                    ops.append(["up"])
                    down = False
                elif outages < (4 if breaker else 2):
                    ops.append(["down"])
                    down = True
                    outages += 1
            elif not down:
                k = rng.randrange(len(keys))
                v = rng.choice(["zz", "x1", "0", "7", "-1"])
                if v in ("zz", "x1"):
                    garbage.add(k)
                else:
                    garbage.discard(k)
                ops.append(["poke", k, v])
        c = {"kind": "period", "period": period, "quota": quota, "lims": lims, "keys": keys, "ops": ops}
        if align:
            c["align"] = True
        if breaker:
            c["breaker"] = True
        return c

    def _token_case(self, rng, outages_allowed, skew, breaker=False):
        rate, burst = rng.choice([(1, 1), (1, 3), (2, 3), (2, 1), (3, 2), (3, 10), (5, 2), (5, 10), (7, 3), (10, 1), (10, 4),
                                  (10, 20), (50, 20), (50, 100), (4, 0), (3, 1)])
        n = rng.choice([1, 2, 2, 3, 4])
        ttl = max(1, (2 * burst) // rate)
        base = BASE + rng.randrange(1000)
        clock = base
        ops = []
        down = False
        outages = 0
        fails = 0
        budget = 12 if breaker else self.TOKEN_FAIL_BUDGET
        alive = [True] * n
        nops = rng.randint(8, 60)
        for _ in range(4 * nops):
            if len(ops) >= nops:
                break
            r = rng.random()
            if r < 0.66:
                size = rng.choice([1, 1, 1, 1, 0, 2, burst, burst + 1, rng.randint(0, burst + 1)])
                i = rng.randrange(n)
                if down and alive[i]:
                    if fails >= budget:
                        continue
                    fails += 1
                    alive[i] = False
                o = ["allow", i, size]
                if skew and rng.random() < 0.2:
                    o.append(rng.choice([-1500, -1000, 1000, 2500]))
                ops.append(o)
            elif r < 0.92:
                tosec = 1000 - clock % 1000
                d = rng.choice([1, 200, 999, 1000, 1001, tosec, max(0, tosec - 1), ttl * 1000 - 1, ttl * 1000, ttl * 1000 + 1,
                                rng.randint(0, 2 * ttl * 1000), rng.randint(0, 1500)])
                clock += d
                ops.append(["adv", d])
            elif outages_allowed:
                if down:
                    ops.append(["up"])
                    down = False
                    alive = [True] * n
                elif outages < outages_allowed and fails < budget:
                    ops.append(["down"])
                    down = True
                    outages += 1
        c = {"kind": "token", "rate": rate, "burst": burst, "n": n, "base_ms": base, "ops": ops}
        if breaker:
            c["breaker"] = True
        return c

    def _outage_placements(self, rng, count):
        """a short history with one outage window placed at every pair of positions"""
        cases = []
        while len(cases) < count:
            rate, burst = rng.choice([(2, 2), (1, 2), (3, 1), (5, 2), (2, 3)])
            n = rng.choice([1, 2, 3])
            body = []
            for _ in range(rng.randint(4, 7)):
                if rng.random() < 0.7:
                    body.append(["allow", rng.randrange(n), rng.choice([1, 1, 2])])
                else:
                    body.append(["adv", rng.choice([400, 1000, 1500])])
            for a in range(len(body) + 1):
                for b in range(a, len(body) + 1):
                    if len(cases) >= count:
                        break
                    ops = body[:a] + [["down"]] + body[a:b] + [["up"]] + body[b:] + [["allow", 0, 1]]
                    cases.append({"kind": "token", "rate": rate, "burst": burst, "n": n, "base_ms": BASE + 100, "ops": ops})
        return cases

    def gen(self, rng, n, tier):
        cases = []
        n_out = max(12, n // 12)           # each recovery waits for a real 100 ms monitor tick
        n_place = max(12, n // 14)
        n_period = n // 3
        for j in range(n_period):
            # a share of the histories may push go-zero's circuit breaker over its threshold
            # (answers then depend on its random drops: taken as oracle, validated in Check.v),
            # a share uses Align()
            cases.append(self._period_case(rng, breaker=(j % 8 == 0), align=(j % 8 == 1)))
        for _ in range(max(6, n // 50)):
            cases.append(self._token_case(rng, 4, False, breaker=True))
        cases += self._outage_placements(rng, n_place)
        for _ in range(n_out):
            cases.append(self._token_case(rng, rng.choice([1, 2]), False))
        if tier == "thorough":
            for _ in range(20):
                c = self._token_case(rng, 1, False)
                c["hard"] = True
                cases.append(c)
        while len(cases) < n:
            cases.append(self._token_case(rng, 0, rng.random() < 0.06))
        rng.shuffle(cases)
        return cases

    # ------------------------------------------------------------------ execution
    # every case keeps its miniredis server (and go-zero's cached client) until the executor
    # process ends (see harness/overlay/limit): run it on chunks of cases
    CHUNK = 300

    def execute(self, cases, ctx):
        res = []
        for k in range(0, len(cases), self.CHUNK):
            part = cases[k:k + self.CHUNK]
            rc, out, r = vlib.go_test_overlay("./core/limit", OVERLAY, run="TestVerifC03", cases=part, tag="c03", timeout=600)
            if rc != 0 or len(r) != len(part):
                raise ExecError("c03 executor rc=%s: %s" % (rc, out[-2500:]))
            res += r
        for r in res:
            if r.get("err"):
                raise ExecError("c03 executor: case %s: %s" % (r.get("id"), r["err"]))
        return [{"obs": r["obs"], "disturbed": bool(r.get("disturbed")), "base_ms": r.get("base_ms", 0),
                 "offset": r.get("offset", 0)} for r in res]

    # ------------------------------------------------------------------ rendering
    def coq_case(self, case, obs):
        if case["kind"] == "period":
            ops, ob = [], []
            for o, x in zip(case["ops"], obs["obs"]):
                if o[0] == "take":
                    ops.append("PTake %s %s" % (cbulk("p:" + case["keys"][o[2]]), cbool(x[2])))
                    ob.append("PAns %s %s" % (PCODES[x[0]] if 0 <= x[0] <= 3 else "Unknown", cbool(x[1])))
                    continue
                if o[0] == "ttl":
                    ops.append("PTtl %s" % cbulk("p:" + case["keys"][o[1]]))
                    t = x["ttl"]
                    ob.append("PTtlIs %s" % ("None" if t == -2 else "(Some None)" if t == -1 else "(Some (Some %s))" % cz(t)))
                    continue
                ob.append("PNone")
                if o[0] == "adv":
                    ops.append("PAdvance %s" % cz(o[1]))
                elif o[0] == "down":
                    ops.append("PDown")
                elif o[0] == "up":
                    ops.append("PUp")
                else:
                    ops.append("PPoke %s %s" % (cbulk("p:" + case["keys"][o[1]]), cbulk(o[2])))
            cfg = "(mkPC %s %s %s %s)" % (cz(case["quota"]), cz(case["period"]), cbool(case.get("align", False)),
                                          cz(obs.get("offset", 0)))
            return "CPeriod %s %s %s %s" % (cfg, cz(obs.get("base_ms", 0)), clist(ops), clist(ob))
        ops, ob = [], []
        clock = case["base_ms"]
        pings = ["TPing %d" % i for i in range(case["n"])]
        for o, x in zip(case["ops"], obs["obs"]):
            if o[0] == "allow":
                now = clock + (o[3] if len(o) > 3 else 0)
                ops.append("TAllow %d %s %s %s %s" % (o[1], cz(now), cz(o[2]), cbool(x[0]), cbool(x[3])))
                ob.append("OA %s %s %s" % (cbool(x[0]), cbool(x[1]), cbool(x[2])))
            elif o[0] == "adv":
                clock += o[1]
                ops.append("TAdvance %s" % cz(o[1]))
                ob.append("ON")
            elif o[0] == "down":
                ops.append("TDown")
                ob.append("ON")
            else:
                # executor: store reachable again (if "up"), then every running monitor has ticked
                seq = (["TUp"] if o[0] == "up" else []) + pings
                ops += seq
                ob += ["ON"] * len(seq)
        return "CToken %s %s %s %d %s %s" % (cz(case["rate"]), cz(case["burst"]), cz(case["base_ms"]), case["n"],
                                             clist(ops), clist(ob))

    # ------------------------------------------------------------------ evidence
    def nontrivial(self, case, obs):
        if case["kind"] == "period":
            codes = set(x[0] for x in obs["obs"] if isinstance(x, list))
            return 2 in codes and 3 in codes
        shared = [(o, x) for o, x in zip(case["ops"], obs["obs"]) if o[0] == "allow" and x[1] and x[2]]
        rescue = [(o, x) for o, x in zip(case["ops"], obs["obs"]) if o[0] == "allow" and not x[2]]
        g = any(x[0] for o, x in shared)
        d = any(not x[0] for o, x in shared)
        return g and d and (len(set(o[1] for o, x in shared)) >= 2 or bool(rescue))

    def features(self, case, obs):
        fs = [case["kind"]]
        if obs.get("disturbed"):
            fs.append("timing_disturbed")
        if case["kind"] == "period":
            fs += ["quota=%d" % case["quota"], "period=%d" % case["period"]]
            fs += ["code=%s%s" % (PCODES[x[0]], "+err" if x[1] else "") for x in obs["obs"] if isinstance(x, list)]
            if case.get("align"):
                fs.append("aligned")
            if any(isinstance(x, list) and not x[2] for x in obs["obs"]):
                fs.append("breaker_open_answer")
            if any(isinstance(x, dict) for x in obs["obs"]):
                fs.append("has_ttl_read")
        else:
            fs += ["rate/burst=%d/%d" % (case["rate"], case["burst"]), "instances=%d" % case["n"]]
            if 2 * case["burst"] < case["rate"]:
                fs.append("2*burst<rate")
            if case.get("hard"):
                fs.append("outage_by_close_restart")
            if case.get("breaker"):
                fs.append("may_cross_breaker_threshold")
            for o, x in zip(case["ops"], obs["obs"]):
                if o[0] == "allow":
                    mode = "shared" if (x[1] and x[2]) else ("fallback_now" if x[1] else "rescue")
                    fs.append("%s:%s" % (mode, "grant" if x[0] else "deny"))
                    if len(o) > 3:
                        fs.append("clock_skew(out of scope)")
                    if not x[3]:
                        fs.append("breaker_open_answer")
                elif o[0] in ("down", "up"):
                    fs.append("has_" + o[0])
        fs.append("ops<=%d" % (10 * (1 + len(case["ops"]) // 10)))
        return sorted(set(fs))

    def describe_failure(self, case, obs):
        if case["kind"] == "period":
            return "PeriodLimit answers differ from 'first quota requests of a period are granted, the quota-th flagged, errors never grant'"
        return ("TokenLimiter: a decision taken with a reachable store differs from the single shared bucket (or the instance fell "
                "back to its private bucket although the store answered), or rescue-mode grants exceed burst + elapsed/interval")


PROPERTY = C03()
