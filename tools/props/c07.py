"""C07 — SingleFlight / LockedCalls / ResourceManager."""
import itertools

import vlib
from runner import Property, ExecError
from vlib import cz, clist, cbool

# adds VerifWrapFlight to core/syncx (decorate ResourceManager.singleFlight with a gate)
OVERLAY = {"core/syncx/verif_hooks.go": "/verif/harness/overlay/syncx/verif_hooks.go"}

KIND = {0: "GSF", 1: "GLC", 2: "GRM", 3: "GSF", 4: "GSF", 5: "GSF", 6: "GSF", 7: "GSF"}
EK = {"inv": 0, "fs": 1, "fe": 2, "ret": 3, "del": 5}


def is_cache(case):
    return any(o[0] >= 4 for sc in case["scripts"] for o in sc)


def interleavings(counts):
    """all sequences containing tid t exactly counts[t] times"""
    items = []
    for t, n in enumerate(counts):
        items += [t] * n
    seen = set()
    for p in itertools.permutations(items):
        if p not in seen:
            seen.add(p)
            yield list(p)


class C07(Property):
    id = "C07"
    title = "SingleFlight/LockedCalls: de-duplication without staleness, per-key exclusion"
    quick_cases = 500
    thorough_cases = 8000
    design_ref = "DESIGN.md §6/C07"
    level_text = ("Unbounded Rocq theorems over an interleaving model (any number of threads, any scripts of "
                  "SingleFlight.Do/DoEx, LockedCalls.Do, ResourceManager.GetResource calls on any keys with any "
                  "function results, every schedule of the atomic actions): at most one function execution per key "
                  "at every step; every result is the caller's own execution's or that of an execution whose "
                  "leader's call interval contains the caller's join point; fresh exactly for the leader; "
                  "LockedCalls runs each caller's own function exactly once; threads are only ever blocked behind "
                  "their own key; each resource is created successfully at most once and shared. The model is tied "
                  "to core/syncx by forced schedules (gates in the user functions + quiescence detection).")
    level_note = ("Trusted: Coq kernel + vm_compute; hand-written LTS (one action per mutex section / WaitGroup "
                  "operation / fn start and end); the atomicity assumption (supported by the -race free-run in the "
                  "thorough tier); gate-level control reaches only the schedules in which library-internal actions "
                  "run to the next gate/block; fn panics are outside the property's quantifier.")
    rule = ("cases: 1..5 threads, scripts of 1..3 calls on 1..3 keys (kinds SingleFlight.DoEx/Do, LockedCalls.Do, "
            "ResourceManager.GetResource), forced schedule = list of thread ids (all interleavings of start/finish "
            "for <=3 threads x <=2 keys enumerated, random otherwise); non-trivial = some thread was observed "
            "blocked behind another thread's execution (a join / a wait) at some step; distinct = canonical JSON hash")
    trusted_base = [
        "model theories/C07/Model.v is hand-written; tie = forced-schedule correspondence (harness/cmd/c07, harness/sched)",
        "quiescence detection via runtime.Stack decides 'blocked'; atomicity of mutex sections is assumed (race-checked free runs in the thorough tier)",
        "Go runtime (sync.Mutex, sync.WaitGroup, map) is not modelled",
    ]
    assumptions = ["user functions do not panic (outside the property's quantifier)",
                   "ResourceManager: no Inject/Close during the history; create() does not re-enter the manager"]

    race_bin = None

    def prepare(self, ctx):
        ok, res = vlib.go_build("c07", overlay=OVERLAY)
        self.bin = res if ok else None
        return ok, ("" if ok else res)

    # ---- generation -----------------------------------------------------------------
    @staticmethod
    def _mk_scripts(kinds_keys_errs):
        """kinds_keys_errs: per thread list of (kind, key, err); values are made unique"""
        scripts = []
        for t, sc in enumerate(kinds_keys_errs):
            scripts.append([[k, key, 100 * (t + 1) + i + 1, e] for i, (k, key, e) in enumerate(sc)])
        return scripts

    def corpus(self):
        cs = []
        # leader, joiner, late caller after completion (must start a new execution)
        cs.append({"scripts": self._mk_scripts([[(0, 1, 0)], [(0, 1, 0)], [(0, 1, 0)]]), "sched": [0, 1, 0, 2, 2]})
        # same thread calls twice: the second call must not see the first result
        cs.append({"scripts": self._mk_scripts([[(0, 1, 0), (0, 1, 0)], [(0, 1, 5)]]), "sched": [0, 0, 0, 1, 0, 1]})
        cs.append({"scripts": self._mk_scripts([[(3, 1, 0), (3, 1, 2)], [(3, 1, 0)]]), "sched": [0, 1, 0, 0, 1, 0]})
        # locked calls: three waiters
        cs.append({"scripts": self._mk_scripts([[(1, 1, 0)], [(1, 1, 7)], [(1, 1, 0)], [(1, 2, 0)]]), "sched": [0, 1, 2, 3, 0, 3]})
        # resource manager: failed creation, retry, then shared
        cs.append({"scripts": self._mk_scripts([[(2, 1, 5)], [(2, 1, 0)], [(2, 1, 0)], [(2, 1, 0)]]), "sched": [0, 1, 0, 2, 2, 3]})
        cs.append({"scripts": self._mk_scripts([[(2, 1, 0), (2, 1, 0)], [(2, 1, 0)], [(2, 2, 3)]]), "sched": [0, 1, 2, 0, 2, 0]})
        # users of the barrier: join while loading, reload after completion / after invalidation, two keys
        for take in (4, 5):
            cs.append({"scripts": self._mk_scripts([[(take, 1, 0), (take, 1, 0)], [(take, 1, 0)], [(take, 2, 0)]]),
                       "sched": [0, 1, 2, 0, 2, 0, 1]})
            cs.append({"scripts": self._mk_scripts([[(take, 1, 0), (take + 2, 1, 0), (take, 1, 0)], [(take, 1, 0), (take, 1, 0)]]),
                       "sched": [0, 0, 0, 1, 0, 1, 0, 1]})
        # GetResource: X is invoked and stops in front of singleflight; Y completes a whole call; X goes on
        cs.append({"scripts": self._mk_scripts([[(2, 1, 0)], [(2, 1, 0)]]), "sched": [0, 1, 1, 1, 0, 0]})
        cs.append({"scripts": self._mk_scripts([[(2, 1, 0)], [(2, 1, 4)], [(2, 1, 0)]]), "sched": [0, 2, 1, 1, 1, 2, 2, 2, 0, 0]})
        return cs

    def _enumerated(self, rng, tier):
        cases = []
        pats = {2: [(1, 1), (1, 2)], 3: [(1, 1, 1), (1, 1, 2), (1, 2, 1), (1, 2, 2)]}
        for n in (2, 3):
            for keys in pats[n]:
                for sch in interleavings([2] * n):
                    kind = 0
                    cases.append({"scripts": self._mk_scripts([[(kind, k, 0)] for k in keys]), "sched": sch})
        # ResourceManager: three gate-level steps per call (invoke / enter singleflight / create returns)
        for keys in pats[2]:
            for sch in interleavings([3, 3]):
                for errs in ((0, 0), (3, 0)):
                    cases.append({"scripts": self._mk_scripts([[(2, k, e)] for k, e in zip(keys, errs)]), "sched": sch})
        if tier != "quick":
            rm3 = [s for s in interleavings([3, 3, 3])]
            rng.shuffle(rm3)
            for sch in rm3[:500]:
                cases.append({"scripts": self._mk_scripts([[(2, 1, 0)], [(2, 1, 0)], [(2, 1, rng.choice([0, 0, 2]))]]), "sched": sch})
        if tier != "quick":
            for keys in [(1, 1, 1, 1), (1, 1, 2, 2), (1, 1, 1, 2)]:
                for sch in interleavings([2] * 4):
                    cases.append({"scripts": self._mk_scripts([[(0, k, 0)] for k in keys]), "sched": sch})
            for keys in pats[3]:
                for sch in interleavings([2] * 3):
                    for kind in (1, 2):
                        cases.append({"scripts": self._mk_scripts([[(kind, k, 0)] for k in keys]), "sched": sch})
        return cases

    def _cache_case(self, rng):
        """the anchored users of the barrier: collection.Cache.Take (4) / cache node Take (5), with
        invalidations (6 / 7) so that reloads happen"""
        take = rng.choice([4, 4, 5])
        dele = take + 2
        nthreads = rng.choice([2, 3, 3, 4])
        nkeys = rng.choice([1, 2, 2])
        sc = []
        for _ in range(nthreads):
            ops = []
            for _ in range(rng.choice([1, 2, 2, 3])):
                if rng.random() < 0.2:
                    ops.append((dele, rng.randint(1, nkeys), 0))
                else:
                    ops.append((take, rng.randint(1, nkeys), rng.choice([0, 0, 0, 0, 2]) if take == 4 else 0))
            sc.append(ops)
        total = sum(len(x) for x in sc)
        sched = [rng.randrange(nthreads) for _ in range(rng.randint(total, 3 * total))]
        return {"scripts": self._mk_scripts(sc), "sched": sched}

    def _random(self, rng):
        if rng.random() < 0.12:
            return self._cache_case(rng)
        nthreads = rng.choice([1, 2, 2, 3, 3, 4, 4, 5])
        nkeys = rng.choice([1, 1, 2, 2, 3])
        mode = rng.choice([0, 0, 0, 3, 1, 1, 2, 2, "mix"])
        sc = []
        for _ in range(nthreads):
            ops = []
            for _ in range(rng.choice([1, 1, 2, 2, 3])):
                kind = rng.choice([0, 1, 2, 3]) if mode == "mix" else mode
                err = rng.choice([0, 0, 0, 1, 2])
                ops.append((kind, rng.randint(1, nkeys), err))
            sc.append(ops)
        total = sum(len(x) for x in sc)
        sched = [rng.randrange(nthreads) for _ in range(rng.randint(total, 3 * total))]
        return {"scripts": self._mk_scripts(sc), "sched": sched}

    def gen(self, rng, n, tier):
        cases = [] if tier == "search" else self._enumerated(rng, tier)
        if tier == "quick" and len(cases) > n * 3 // 5:
            rng.shuffle(cases)
            # keep all 2-thread cases (first found) by sorting small first
            cases.sort(key=lambda c: len(c["scripts"]))
            cases = cases[: n * 3 // 5]
        while len(cases) < n:
            cases.append(self._random(rng))
        return cases

    # ---- execution ---------------------------------------------------------------------
    def execute(self, cases, ctx):
        rc, out, res = vlib.go_run(self.bin, cases, tag="c07", timeout=900)
        if rc != 0 or len(res) != len(cases):
            raise ExecError("c07 executor rc=%s: %s" % (rc, out[-2000:]))
        return [self._digest(c, r) for c, r in zip(cases, res)]

    @staticmethod
    def _digest(case, r):
        """controller output -> observation: steps (actor, skip, order, statuses) and event log"""
        nt = len(case["scripts"])
        if r.get("err"):
            return {"err": r["err"], "steps": [], "log": [], "forced": not case.get("free")}
        if case.get("free"):
            log = [[e["t"], e["a"], EK[e["k"]], e["op"]] + ((e.get("v") or []) + [0, 0, 0])[:3] for e in r.get("events") or []]
            return {"steps": [], "log": log, "forced": False, "monitor": r.get("monitor") or []}
        steps, log = [], []
        lastt = 0
        for s in r["steps"]:
            order = []
            for e in s["ev"]:
                if e["a"] not in order:
                    order.append(e["a"])
                v = (e.get("v") or [0, 0, 0]) + [0, 0]
                log.append([e["t"], e["a"], EK[e["k"]], e["op"]] + v[:3])
                lastt = e["t"]
            order += [t for t in range(nt) if t not in order]
            stat = {x["a"]: x for x in s["st"]}
            sts = []
            for t in range(nt):
                x = stat.get(t)
                if x is None or x["st"] == 2:
                    sts.append([2, 0])
                elif x["st"] == 0:
                    sts.append([{"call": 0, "pre": 4}.get(x.get("l"), 3), x["op"]])
                else:
                    sts.append([1, x["op"]])
                    if not s["skip"] and not is_cache(case):
                        log.append([lastt, t, 4, x["op"], 0, 0, 0])
            steps.append({"a": s["a"], "skip": s["skip"], "order": order, "st": sts})
        return {"steps": steps, "log": log, "forced": not is_cache(case)}

    # ---- Coq rendering --------------------------------------------------------------------
    def coq_case(self, case, obs):
        scripts = clist([clist(["mkOp %s %s %s %s" % (KIND[o[0]], cz(o[1]), cz(o[2]), cz(o[3])) for o in sc])
                         for sc in case["scripts"]])
        steps = clist(["mkOStep %d%%nat %s %s %s" % (s["a"], cbool(s["skip"]),
                                                 clist(["%d%%nat" % t for t in s["order"]]),
                                                 clist(["(%s, %s)" % (cz(a), cz(b)) for a, b in s["st"]]))
                       for s in obs["steps"]])
        log = clist(["mkEv %s %d%%nat %s %d%%nat %s %s %s" % (cz(e[0]), e[1], cz(e[2]), e[3], cz(e[4]), cz(e[5]), cz(e[6]))
                     for e in obs["log"]])
        ok = "true" if obs.get("forced") and not obs.get("err") else "false"
        if obs.get("err"):
            # the implementation hung / did not quiesce: not a history of the model; make both fail
            return "mkCase %s false true [mkOStep 0%%nat false [] []] [mkEv 0 0%%nat 2 0%%nat 0 0 0]" % scripts
        return "mkCase %s %s %s %s %s" % (scripts, cbool(is_cache(case)), ok, steps, log)

    def coq_preamble(self):
        return "Open Scope nat_scope.\nOpen Scope Z_scope.\n"

    def nontrivial(self, case, obs):
        if any(e[2] == 4 for e in obs.get("log", [])):
            return True
        # cache call sites: some caller got a value it did not load itself
        return is_cache(case) and any(e[2] == 3 and e[6] != -2 and e[4] >= 0 and
                                      e[4] != case["scripts"][e[1]][e[3]][2] for e in obs.get("log", []))

    def features(self, case, obs):
        fs = ["threads=%d" % len(case["scripts"])]
        kinds = set(o[0] for sc in case["scripts"] for o in sc)
        fs += ["kind=%s" % {0: "sf.DoEx", 1: "lc.Do", 2: "rm.Get", 3: "sf.Do", 4: "collection.Cache.Take",
                            5: "cachenode.Take", 6: "collection.Cache.Del", 7: "cachenode.Del"}[k] for k in sorted(kinds)]
        fs.append("keys=%d" % len(set(o[1] for sc in case["scripts"] for o in sc)))
        fs.append("steps<=%d" % (10 * (1 + len(obs.get("steps", [])) // 10)))
        if any(e[2] == 4 for e in obs.get("log", [])):
            fs.append("has_blocked")
        if any(e[2] == 3 and e[6] == 0 for e in obs.get("log", [])):
            fs.append("has_shared_result")
        if any(e[2] == 3 and e[5] != 0 for e in obs.get("log", [])):
            fs.append("has_error_result")
        if any(s["skip"] for s in obs.get("steps", [])):
            fs.append("has_stutter")
        return fs

    def shrink_candidates(self, case):
        res = []
        sc, sched = case["scripts"], case["sched"]
        for t in range(len(sc)):
            if len(sc) > 1:
                c = dict(case)
                c["scripts"] = sc[:t] + sc[t + 1:]
                c["sched"] = [x - (1 if x > t else 0) for x in sched if x != t]
                res.append(c)
            if len(sc[t]) > 1:
                c = dict(case)
                c["scripts"] = sc[:t] + [sc[t][:-1]] + sc[t + 1:]
                res.append(c)
        for i in range(len(sched)):
            c = dict(case)
            c["sched"] = sched[:i] + sched[i + 1:]
            res.append(c)
        return res[:150]

    def describe_failure(self, case, obs):
        if obs.get("err"):
            return "the implementation did not reach quiescence / hung under the forced schedule: %s" % obs["err"]
        return ("the observed event log violates C07: overlapping executions for one key, a stale or foreign result, "
                "fresh reported wrongly, a LockedCalls caller whose own function did not run exactly once, a thread "
                "blocked behind another key, or a resource created twice")

    # ---- free-running -race monitor (thorough tier) -------------------------------------------
    def extra(self, ctx):
        if ctx.tier != "thorough":
            return []
        import random
        ok, res = vlib.go_build("c07", overlay=OVERLAY, race=True)
        if not ok:
            raise ExecError("c07 -race build failed: %s" % res[-1500:])
        rng = random.Random(ctx.seed * 31 + 7)
        cases = []
        for i in range(400):
            c = self._random(rng)
            # more threads, same keys: contention
            c["scripts"] = c["scripts"] * rng.choice([1, 2, 3])
            c["scripts"] = self._mk_scripts([[(o[0], o[1], o[3]) for o in sc] for sc in c["scripts"]])
            c["sched"] = []
            c["free"] = True
            c["spin"] = rng.choice([0, 1, 5, 20])
            c["id"] = i
            cases.append(c)
        rc, out, rs = vlib.go_run(res, cases, tag="c07race", timeout=900)
        fails = []
        if "DATA RACE" in out:
            fails.append({"what": "data race reported by the Go race detector in the free-running C07 harness",
                          "replay": {"output": out[-4000:]}})
        if rc != 0 and not fails:
            raise ExecError("c07 race run rc=%s: %s" % (rc, out[-2000:]))
        obs = [self._digest(c, r) for c, r in zip(cases, rs)]
        for c, o, r in zip(cases, obs, rs):
            if r.get("err") or o.get("monitor"):
                fails.append({"what": "free-running monitor: %s" % (r.get("err") or o["monitor"][:3]),
                              "replay": {"case": c, "observed": o}})
        good = [(c, o) for c, o, r in zip(cases, obs, rs) if not r.get("err")]
        terms = [self.coq_case(c, o) for c, o in good]
        rs2 = vlib.coq_eval_cases(self.id, self.check_module, terms, preamble=self.coq_preamble())
        for (c, o), (a, p) in zip(good, rs2):
            if not p:
                fails.append({"what": "free-running log violates the interval property", "replay": {"case": c, "observed": o}})
        ctx.notes.append("free-running -race monitor: %d cases, %d failures" % (len(cases), len(fails)))
        return fails[:5]


PROPERTY = C07()
