"""C07 — SingleFlight / LockedCalls / ResourceManager."""
import itertools

import vlib
from runner import Property, ExecError
from vlib import cz, clist, cbool

# adds VerifWrapFlight to core/syncx (decorate ResourceManager.singleFlight with a gate)
# ... and VerifC07WrapBarrier to core/collection (the same for collection.Cache.barrier)
OVERLAY = {"core/syncx/verif_hooks.go": "/verif/harness/overlay/syncx/verif_hooks.go",
           "core/collection/zz_verif_c07.go": "/verif/harness/overlay/collection/zz_verif_c07.go"}

KIND = {0: "GSF", 1: "GLC", 2: "GRM", 3: "GSF", 4: "GSF", 5: "GSF", 6: "GSF", 7: "GSF", 8: "GSF", 9: "GSF", 10: "GSF", 11: "GSF"}
KNAME = {0: "sf.DoEx", 1: "lc.Do", 2: "rm.Get", 3: "sf.Do", 4: "collection.Cache.Take", 5: "cachenode.Take",
         6: "collection.Cache.Del", 7: "cachenode.Del", 8: "cachenode.TakeWithExpire", 9: "cachenode.storefault", 10: "cachenode.corrupt-entry",
         11: "sf.Forget-if-any"}
EK = {"inv": 0, "fs": 1, "fe": 2, "ret": 3, "del": 5, "fault": 6, "ctxdone": 7}
CANCELED, DEADLINE, WCANCELED, WDEADLINE = 30, 31, 32, 33   # context.Canceled / DeadlineExceeded as outcomes, bare and %w-wrapped
# the caller's own context (5th component of a cache node Take op)
CTX_NONE, CTX_LIVE, CTX_CANCEL_IN_LOAD, CTX_DEADLINE_IN_LOAD, CTX_DONE = 0, 1, 2, 3, 4
CTX_CANCEL_IN_STORE, CTX_DEADLINE_IN_STORE = 5, 6    # done DURING the store GET of the flight (gate inside a go-redis hook)
PANIC = -2      # err code: the user function panics (Model.epanic)
GOEXIT = -3     # err code: the user function ends its goroutine with runtime.Goexit (last op of a script only); for the
                # model the same as a panic: the deferred epilogue runs, the call does not return, the thread is over
NOTFOUND = 9    # err code: the cache node's not-found error (Check.enotfound)
WNOTFOUND = 19  # the same, wrapped with %w by the loader: the node must treat it as not found (rendered as 9 for Coq)
NIL = -1        # val: the user function returns a nil value (Model.vnil)
COQ_ERR = {WNOTFOUND: NOTFOUND, WCANCELED: CANCELED, WDEADLINE: DEADLINE, GOEXIT: PANIC}   # what the wrapped sentinels must be taken for
INST = 1000     # key // INST = instance of the primitive / cache (two instances per case)


def is_cache(case):
    return any(4 <= o[0] <= 10 for sc in case.get("scripts", []) for o in sc)


def is_node(case):
    """the case talks to a (mini)redis over TCP: a goroutine in [IO wait] may look blocked for a moment"""
    return any(o[0] in (5, 7, 8, 9, 10) for sc in case.get("scripts", []) for o in sc)


def interleavings(counts):
    """all sequences containing tid t exactly counts[t] times"""
    items = []
    for t, n in enumerate(counts):
        items += [t] * n
    seen = set()
    for p in itertools.permutations(items):
        if p not in seen:
            seen.add(p)
            yield list(p)


class C07(Property):
    id = "C07"
    title = "SingleFlight/LockedCalls: de-duplication without staleness, per-key exclusion"
    quick_cases = 650      # + 319 fixed corpus cases
    thorough_cases = 7000
    design_ref = "DESIGN.md §6/C07"
    level_text = ("Unbounded Rocq theorems over an interleaving model (any number of threads, any scripts of "
                  "SingleFlight.Do/DoEx, LockedCalls.Do, ResourceManager.GetResource calls on any keys with any "
                  "function results, errors or panics, every schedule of the atomic actions): at most one function "
                  "execution per key at every step; every result is the caller's own execution's or that of an "
                  "execution whose leader's call interval contains the caller's join point; fresh exactly for the "
                  "leader; LockedCalls runs each caller's own function exactly once; threads are only ever blocked "
                  "behind their own key, behind a leader that can move (no deadlock, also after a panic); each resource "
                  "is created successfully at most once and shared; a waiter of a finished call stays able to move whatever "
                  "the other threads do (no lost wake-up) and an arrival on a key nobody executes on leads at once. The decidable log checker scan is proved sound "
                  "(no overlap, blocked only behind own key) and to accept the log of every run of the model. The model "
                  "is tied to core/syncx by forced schedules (gates in the user functions + quiescence detection); the "
                  "two barrier call sites (collection.Cache.Take, cache node Take) are judged on their event logs.")
    level_note = ("Trusted: Coq kernel + vm_compute; hand-written LTS (one action per mutex section / WaitGroup "
                  "operation / fn start and end); the atomicity assumption (supported by the -race free-run in the "
                  "thorough tier); gate-level control reaches only the schedules in which library-internal actions "
                  "run to the next gate/block; ret_ok/fresh_once/created_once are transcriptions with reflection lemmas "
                  "(not proved complete w.r.t. the model).")
    rule = ("cases: 1..5 threads, scripts of 1..3 calls on 1..3 keys x 2 instances (kinds SingleFlight.DoEx/Do, "
            "LockedCalls.Do, ResourceManager.GetResource, collection.Cache.Take/Del, cache node Take/TakeWithExpire/"
            "Del/store fault/corrupt entry; results: value, nil, error, not-found, panic), forced schedule = list of "
            "thread ids (all gate-level interleavings for 2 callers and for 3 callers of one key enumerated, random "
            "otherwise), plus ResourceManager Get/Inject/Close sequences; 319 fixed cases first: every parking order of "
            "waiters on 2-3 busy keys x every finisher, 24 held keys + 600 sequential keys, 300 keys held at once by nested "
            "calls 50 deep in 6 threads, invalidation (Del / Forget-if-any) during a flight with callers before and after, an "
            "earlier uncontended call followed by a panicking / exiting / failing leader with waiters; non-trivial = some thread was observed "
            "blocked behind another thread's execution / a cache reader got a value it did not load / a GetResource "
            "answered without create; distinct = canonical JSON hash")
    trusted_base = [
        "model theories/C07/Model.v is hand-written; tie = forced-schedule correspondence (harness/cmd/c07, harness/sched)",
        "quiescence detection via runtime.Stack decides 'blocked'; atomicity of mutex sections is assumed (race-checked free runs in the thorough tier)",
        "Go runtime (sync.Mutex, sync.WaitGroup, map) is not modelled",
        "build-time overlays ADD harness/overlay/syncx/verif_hooks.go and harness/overlay/collection/zz_verif_c07.go (a setter that decorates an unexported SingleFlight field with a gate); nothing is replaced",
    ]
    assumptions = ["a panicking user function is modelled (deferred clean-up; SingleFlight waiters get (nil, nil)) although the property's quantifier does not list panics; that (nil, nil) is accepted by prop_ok (Check.panic_share)",
                   "ResourceManager: Inject/Close only in sequential histories (rmseq cases), never used after Close; create() does not re-enter the manager and does not return a nil resource without error"]

    race_bin = None

    # The two hook files only assign to the unexported SingleFlight field of ResourceManager / collection.Cache.  The NAME
    # of that field is read from today's source (a renamed field or a struct moved to another file of the package must not
    # make the executor fail to build); when no such field is found the hook does nothing: the "pre" schedule point is
    # then missing, the model disagrees and the runner searches for a failing input.
    HOOKS = (("core/syncx", "ResourceManager", r"SingleFlight", "verif_hooks.go",
              "package syncx\n\n// generated by tools/props/c07.py from harness/overlay/syncx/verif_hooks.go\n"
              "func (manager *ResourceManager) VerifWrapFlight(wrap func(SingleFlight) SingleFlight) {\n%s}\n",
              "\tmanager.%s = wrap(manager.%s)\n"),
             ("core/collection", "Cache", r"syncx\.SingleFlight", "zz_verif_c07.go",
              "package collection\n\nimport \"github.com/zeromicro/go-zero/core/syncx\"\n\n"
              "// generated by tools/props/c07.py from harness/overlay/collection/zz_verif_c07.go\n"
              "func (c *Cache) VerifC07WrapBarrier(wrap func(syncx.SingleFlight) syncx.SingleFlight) {\n%s}\n",
              "\tc.%s = wrap(c.%s)\n"))

    @staticmethod
    def _struct_field(pkgdir, struct, type_re):
        """name of the field of `struct` (declared in any non-test file of the package) whose type matches type_re"""
        import glob
        import os
        import re
        for f in sorted(glob.glob(os.path.join(pkgdir, "*.go"))):
            if f.endswith("_test.go"):
                continue
            try:
                src = open(f, encoding="utf-8", errors="replace").read()
            except OSError:
                continue
            src = re.sub(r"//[^\n]*", "", src)
            m = re.search(r"\b%s\s+struct\s*\{" % re.escape(struct), src)
            if not m:
                continue
            depth, i = 1, m.end()
            while i < len(src) and depth:
                depth += {"{": 1, "}": -1}.get(src[i], 0)
                i += 1
            for line in src[m.end():i - 1].split("\n"):
                fm = re.match(r"\s*([A-Za-z_]\w*)\s+%s\s*(`[^`]*`)?\s*$" % type_re, line)
                if fm:
                    return fm.group(1)
        return None

    def _overlay(self):
        import hashlib
        import os
        d = os.path.join(vlib.ROOT, ".run", "c07-hooks-" + hashlib.sha1(vlib.REPO.encode()).hexdigest()[:10])
        os.makedirs(d, exist_ok=True)
        ov = {}
        for pkg, struct, type_re, fname, tmpl, body in self.HOOKS:
            field = self._struct_field(os.path.join(vlib.REPO, pkg), struct, type_re)
            text = tmpl % ((body % (field, field)) if field else "")
            path = os.path.join(d, fname)
            tmp = "%s.%d" % (path, os.getpid())
            with open(tmp, "w") as f:
                f.write(text)
            os.replace(tmp, path)
            ov["%s/%s" % (pkg, fname)] = path
        return ov

    def prepare(self, ctx):
        self.overlay = self._overlay()
        ok, res = vlib.go_build("c07", overlay=self.overlay)
        self.bin = res if ok else None
        return ok, ("" if ok else res)

    # ---- generation -----------------------------------------------------------------
    @staticmethod
    def _mk_scripts(kinds_keys_errs):
        """kinds_keys_errs: per thread list of (kind, key, err[, val]); values are made unique unless given"""
        scripts = []
        for t, sc in enumerate(kinds_keys_errs):
            scripts.append([[x[0], x[1], (x[3] if len(x) > 3 and x[3] is not None else 100 * (t + 1) + i + 1), x[2]]
                            + ([x[4]] if len(x) > 4 else []) for i, x in enumerate(sc)])
        return scripts

    # ---- keys are independent: fixed families (run first in every tier) ---------------------------------
    @staticmethod
    def _uniq(scripts):
        """values unique over the whole case also for long scripts"""
        for t, sc in enumerate(scripts):
            for i, o in enumerate(sc):
                o[2] = 10000 * (t + 1) + i + 1
        return scripts

    def _wake_order_cases(self):
        """Several keys are busy, each with parked callers; the callers parked in EVERY order; then each of the running
        functions returns first: the callers parked behind THAT key must go on at once, whoever parked first (a wake-up
        channel shared by all keys - one sync.Cond + Signal, one semaphore, a FIFO of waiters - hands the single wake-up to
        the oldest waiter, which may belong to a key that is still busy: seeded C07-6)."""
        cs = []
        for kind in (1, 0, 2):
            shapes = [(2, 1), (3, 1)] + ([(2, 2)] if kind == 1 else [])
            for nk, nw in shapes:
                leaders = list(range(nk))
                waiters = list(range(nk, nk + nk * nw))           # waiter w waits for key (w - nk) % nk + 1
                scripts = self._mk_scripts([[(kind, t % nk + 1, 0)] for t in leaders + waiters])
                g = 2 if kind == 2 else 1                          # gate-level steps up to the function / the block
                for order in itertools.permutations(waiters):
                    if kind == 2 and nk == 3 and order[0] != waiters[0] and order[-1] != waiters[0]:
                        continue                                   # (GetResource: a third of the 3-key orders)
                    for f in leaders:
                        sched = [t for t in leaders for _ in range(g)] + [t for t in order for _ in range(g)] + [f]
                        cs.append({"scripts": [[list(o) for o in sc] for sc in scripts], "sched": sched})
        return cs

    def _many_keys_cases(self):
        """Different keys never wait for each other - for ANY set of keys, not just for a handful: HELD functions on 24
        distinct keys are parked at their gates while 12 more threads, one after the other, run 600 calls (SingleFlight: 150,
        GetResource: 80) on further distinct keys (each thread in ONE step of the controller: run-through ops); and one thread makes a call on another key from INSIDE its function,
        50 levels deep, in 6 threads (300 keys are then held at once, 50 by each goroutine; SingleFlight.DoEx 160, Do and
        GetResource 75).  Anything that maps keys onto
        fewer lock / slot / shard identities than there are keys (striped mutexes chosen by a seeded hash: seeded C07-9; a
        map keyed by a truncated hash) makes two of the keys collide: 300 keys held at once collide in any table of < 300
        slots by pigeonhole and in one of 4096 slots with probability 1 - 2e-5; the 600 sequential keys miss 24 held slots
        out of 256 with probability 1e-26.  Judged on the event log alone (logonly: the LTS has no nested calls and the
        status table of 1200 steps would be a megabyte)."""
        cs = []
        NEST, THROUGH = 1, 2        # flags (5th component): called from inside the previous op's function / no gates
        # (scripts are kept <= 50 ops: call indices are unary numbers in Check.v; the SingleFlight / GetResource cases are
        # smaller: the cost is the size of the Coq term, 2 s of parsing per 100 KB)
        for kind, nthr, per in ((1, 12, 50), (0, 6, 25), (2, 4, 20)):
            held = [[(kind, k + 1, 0)] for k in range(24)]
            runners = [[(kind, 25 + r * per + j, (0 if (r + j) % 7 else 2), None) + ((THROUGH,) if j else ()) for j in range(per)]
                       for r in range(nthr)]
            g = 2 if kind == 2 else 1
            sched = [t for t in range(24) for _ in range(g)] + [24 + r for r in range(nthr) for _ in range(g + 1)]
            cs.append({"scripts": self._uniq(self._mk_scripts(held + runners)), "sched": sched, "logonly": True})
        for kind, nthr, depth in ((1, 6, 50), (0, 4, 40), (2, 3, 25), (3, 3, 25)):
            # the last level parks inside its function: nthr * depth keys are held at once, depth of them by each goroutine,
            # while one more thread makes its calls
            chains = [[(kind, r * depth + k + 1, 0, None) + (() if k == 0 else (NEST,) if k == depth - 1 else (NEST | THROUGH,))
                       for k in range(depth)] for r in range(nthr)]
            other = [(kind, 900, 0), (kind, 901, 2), (kind, 902, 0)]
            g = 2 if kind == 2 else 1
            sched = [nthr] * g + [r for r in range(nthr) for _ in range(2 * g)] + [nthr] * (2 * g + 3)
            cs.append({"scripts": self._uniq(self._mk_scripts(chains + [other])), "sched": sched, "logonly": True})
        # mixed primitives in one chain (each has its own key space), a panic and an error coming out of nested calls,
        # every level gated
        chain = [((1, 0, 2, 3)[k % 4], k // 4 + 1 + (500 if k % 4 == 3 else 0), (0, 0, 0, 0, 2, 0, PANIC)[k % 7] if k else 0, None)
                 + ((NEST,) if k else ()) for k in range(40)]
        cs.append({"scripts": self._uniq(self._mk_scripts([chain, [(1, 900, 0)]])), "sched": [1] + [0] * 60, "logonly": True})
        return cs

    def _invalidation_cases(self):
        """A key is invalidated WHILE a load of it is in flight (collection.Cache.Del, cache node Del; for the primitive: a
        Forget(key) method if the SingleFlight has one - today it has not and the op does nothing), and further callers
        arrive before / after the invalidation, before / after the first load returns, while a second load runs.  Whatever
        the invalidation is meant to do to the entry, the barrier still has to keep executions of one key apart and to hand
        out results of overlapping executions only (seeded C07-5: a 'forgotten' call is replaced in the map by its
        successor, the old call's clean-up then deletes the successor's entry: two loads at once).  Six fixed schedules per
        call site + a fixed sample (own generator, not VERIF_SEED) of all orders."""
        import random
        rng = random.Random(707)
        cs = []
        for take, dele, nsample in ((4, 6, 30), (5, 7, 12), (8, 7, 12), (0, 11, 20), (3, 11, 10)):
            g = 2 if take == 4 else 1           # gate-level steps from the call gate into the function (or to the block)
            A, D, C, E, F = 0, 1, 2, 3, 4
            scr = [[(take, 1, 0)], [(dele, 1, 0), (dele, 1, 0)], [(take, 1, 0)], [(take, 1, 0)], [(take, 1, 0), (take, 1, 0)]]
            scheds = [
                [A] * g + [D] + [C] * g + [A] + [E] * g + [F] * g,                 # the demonstration of C07-5
                [A] * g + [C] * g + [D] + [E] * g + [A] + [F] * g,                 # a joiner from before the invalidation
                [A] * g + [D] + [A] + [C] * g + [E] * g + [C] + [F] * g,           # nobody arrives before the load ends
                [D] + [A] * g + [C] * g + [A] + [E] * g,                           # invalidation of nothing
                [A] * g + [D] + [C] * g + [E] * g + [A] + [F] * g + [C, E],        # two successors waiting
                [A] * g + [D] + [C] * g + [D] + [A] + [E] * g + [F] * g,           # invalidated twice
            ]
            for sch in scheds:
                cs.append({"scripts": self._mk_scripts(scr), "sched": sch, "logonly": True})
            pool = [A] * (g + 1) + [D] * 2 + [C] * (g + 1) + [E] * (g + 1) + [F] * (2 * g + 2)
            for _ in range(nsample):
                sch = [A] * g + rng.sample(pool, len(pool))
                errs = [rng.choice([0, 0, 0, 2]) for _ in range(5)]
                sc2 = [[(o[0], o[1], (errs[t] if o[0] == take else 0)) for o in sc] for t, sc in enumerate(scr)]
                cs.append({"scripts": self._mk_scripts(sc2), "sched": sch, "logonly": True})
        return cs

    def _leftover_cases(self):
        """What an EARLIER call that has long returned left behind must not reach the callers of a later flight: thread 0
        completes a call alone (on another key / the same key; value / error), then leads a flight whose function panics,
        exits its goroutine or fails while two callers wait in it (a recycled call object that is not cleared - seeded
        C07-8 - shows the earlier result to exactly these waiters: nothing is assigned on the panic path)."""
        cs = []
        for kind in (0, 3, 4, 5):
            c, g = (3, 2) if kind == 4 else (2, 1)
            for k0, e0 in ((2, 0), (1, 0), (2, 5)):
                for e1 in (PANIC, GOEXIT, 2):
                    if kind == 5 and (k0, e0) == (1, 0):
                        continue      # (cache node: a cached value of the same key answers the second call)
                    cs.append({"scripts": self._mk_scripts([[(kind, k0, e0), (kind, 1, e1)], [(kind, 1, 0)], [(kind, 1, 0)]]),
                               "sched": [0] * c + [0] * g + [1] * g + [2] * g + [0]})
        return cs

    def _crashed_leader_cases(self):
        """The leader's function panics / exits its goroutine while TWO callers are parked in its flight, and a new caller
        arrives right after (while - in a variant that lets the waiters run their own function - a waiter's execution is in
        progress): SingleFlight DoEx / Do, GetResource, collection.Cache.Take, cache node Take / TakeWithExpire.  The
        waiters must come out without a second execution of the key overlapping anything (seeded C07-10: waiters of a
        crashed leader get an UNREGISTERED call and run their own function outside the per-key exclusion; its clean-up
        deletes whatever call is registered)."""
        cs = []
        for kind in (0, 3, 2, 4, 5, 8):
            g = 2 if kind in (2, 4) else 1
            for e in (PANIC, GOEXIT):
                # ... and the same with a third arrival while the second one's (legitimate) execution runs
                cs.append({"scripts": self._mk_scripts([[(kind, 1, e)], [(kind, 1, 0)], [(kind, 1, 0)], [(kind, 1, 0)], [(kind, 1, 0)]]),
                           "sched": [0] * g + [1] * g + [2] * g + [0] + [3] * g + [4] * g})
        return cs

    def corpus(self):
        wake, many = self._wake_order_cases(), self._many_keys_cases()
        # (the big many-keys terms are spread over the first shards of the Coq evaluation)
        cs = many[:1] + wake[:64] + many[1:4] + wake[64:] + many[4:] + self._invalidation_cases() + self._leftover_cases() + self._crashed_leader_cases()
        # leader, joiner, late caller after completion (must start a new execution)
        cs.append({"scripts": self._mk_scripts([[(0, 1, 0)], [(0, 1, 0)], [(0, 1, 0)]]), "sched": [0, 1, 0, 2, 2]})
        # same thread calls twice: the second call must not see the first result
        cs.append({"scripts": self._mk_scripts([[(0, 1, 0), (0, 1, 0)], [(0, 1, 5)]]), "sched": [0, 0, 0, 1, 0, 1]})
        cs.append({"scripts": self._mk_scripts([[(3, 1, 0), (3, 1, 2)], [(3, 1, 0)]]), "sched": [0, 1, 0, 0, 1, 0]})
        # locked calls: three waiters
        cs.append({"scripts": self._mk_scripts([[(1, 1, 0)], [(1, 1, 7)], [(1, 1, 0)], [(1, 2, 0)]]), "sched": [0, 1, 2, 3, 0, 3]})
        # resource manager: failed creation, retry, then shared
        cs.append({"scripts": self._mk_scripts([[(2, 1, 5)], [(2, 1, 0)], [(2, 1, 0)], [(2, 1, 0)]]), "sched": [0, 1, 0, 2, 2, 3]})
        cs.append({"scripts": self._mk_scripts([[(2, 1, 0), (2, 1, 0)], [(2, 1, 0)], [(2, 2, 3)]]), "sched": [0, 1, 2, 0, 2, 0]})
        # users of the barrier: join while loading, reload after completion / after invalidation, two keys
        for take in (4, 5):
            cs.append({"scripts": self._mk_scripts([[(take, 1, 0), (take, 1, 0)], [(take, 1, 0)], [(take, 2, 0)]]),
                       "sched": [0, 1, 2, 0, 2, 0, 1]})
            cs.append({"scripts": self._mk_scripts([[(take, 1, 0), (take + 2, 1, 0), (take, 1, 0)], [(take, 1, 0), (take, 1, 0)]]),
                       "sched": [0, 0, 0, 1, 0, 1, 0, 1]})
        # GetResource: X is invoked and stops in front of singleflight; Y completes a whole call; X goes on
        cs.append({"scripts": self._mk_scripts([[(2, 1, 0)], [(2, 1, 0)]]), "sched": [0, 1, 1, 1, 0, 0]})
        cs.append({"scripts": self._mk_scripts([[(2, 1, 0)], [(2, 1, 4)], [(2, 1, 0)]]), "sched": [0, 2, 1, 1, 1, 2, 2, 2, 0, 0]})
        # collection.Cache: X misses and stops in front of the barrier; Y completes a whole Take; X goes on: the
        # double check inside the flight finds Y's value, X's loader does not run
        cs.append({"scripts": self._mk_scripts([[(4, 1, 0)], [(4, 1, 0)]]), "sched": [0, 1, 1, 1, 0, 0]})
        # cache node: the store goes down while the loader runs (the result cannot be written: logged, still returned)
        cs.append({"scripts": self._mk_scripts([[(5, 1, 0), (5, 1, 0)], [(9, 1, 0, 1), (9, 1, 0, 0)], [(8, 2, NOTFOUND)]]),
                   "sched": [0, 2, 1, 0, 2, 1, 0, 0]})
        # cache node: the stored entry does not unmarshal: dropped and reloaded inside the flight, joiners share the reload
        cs.append({"scripts": self._mk_scripts([[(5, 1, 0), (10, 1, 0), (5, 1, 0)], [(5, 1, 0)]]), "sched": [0, 0, 0, 0, 1, 0, 1]})
        # cache node, callers with their own contexts: A leads and its context is cancelled / its deadline passes while its
        # loader runs, B and C (live contexts / none) share the flight and must share A's context error without loading
        for kind in (5, 8):
            for cm, e in ((CTX_CANCEL_IN_LOAD, CANCELED), (CTX_DEADLINE_IN_LOAD, WDEADLINE), (CTX_LIVE, WCANCELED), (CTX_NONE, DEADLINE)):
                cs.append({"scripts": self._mk_scripts([[(kind, 1, e, None, cm)], [(kind, 1, 0, None, CTX_LIVE)], [(5, 1, 0)],
                                                        [(kind, 1, 0, None, CTX_LIVE)]]),
                           "sched": [0, 1, 2, 0, 3, 1, 2, 3]})
        # cache node promises every caller a COPY in its own destination: the joiner is held where DoEx hands it the shared
        # result ("post" gate of the executor's barrier wrapper) while the leader returns, blanks its variable and reuses it for
        # another key; the joiner must still receive what the overlapping execution PRODUCED (101)
        for kind in (5, 8):
            cs.append({"scripts": self._mk_scripts([[(kind, 1, 0), (kind, 2, 0)], [(kind, 1, 0, None, CTX_LIVE)], [(5, 1, 0)]]),
                       "sched": [0, 1, 2, 0, 0, 0, 2, 1]})
        # the leader's context becomes done DURING the store call of its flight (held inside the redis GET), followers joined
        for cm in (CTX_CANCEL_IN_STORE, CTX_DEADLINE_IN_STORE):
            cs.append({"scripts": self._mk_scripts([[(5, 1, 0, None, cm)], [(5, 1, 0, None, CTX_LIVE)], [(8, 1, 0)], [(5, 1, 0)]]),
                       "sched": [0, 1, 2, 0, 3, 1, 2, 3]})
        # the leader's goroutine exits inside the function (runtime.Goexit): epilogue as for a panic, waiters released
        for kind in (0, 1, 2, 4, 5):
            cs.append({"scripts": self._mk_scripts([[(kind, 1, 0), (kind, 1, GOEXIT)], [(kind, 1, 0)], [(kind, 1, 0)]]),
                       "sched": [0, 0, 0, 0, 1, 2, 0, 1, 2] if kind != 2 else [0, 0, 0, 0, 0, 0, 1, 1, 2, 0, 1, 2, 2, 2]})
        # ... and a caller whose context is already done: fails before any loader runs
        cs.append({"scripts": self._mk_scripts([[(5, 1, 0, None, CTX_DONE), (5, 1, 0, None, CTX_LIVE)], [(8, 1, 0, None, CTX_DONE)]]),
                   "sched": [0, 1, 0, 0]})
        # the context errors as plain outcomes of the function for the primitives and collection.Cache
        for kind in (0, 1, 2, 4):
            cs.append({"scripts": self._mk_scripts([[(kind, 1, CANCELED)], [(kind, 1, WDEADLINE)], [(kind, 1, 0)]]), "sched": [0, 1, 2, 0, 1, 2, 1, 2]})
        # LockedCalls: A runs, B queues, A finishes (B runs), C arrives while B runs, D arrives when all is over
        cs.append({"scripts": self._mk_scripts([[(1, 1, 0)], [(1, 1, 0)], [(1, 1, 0)], [(1, 1, 0)]]), "sched": [0, 1, 0, 2, 1, 2, 3, 3]})
        # a panicking leader with a waiter, then a fresh call: every primitive and both cache call sites
        for kind in (0, 3, 1, 4, 5, 8):
            cs.append({"scripts": self._mk_scripts([[(kind, 1, PANIC)], [(kind, 1, 0)], [(kind, 1, 0)]]), "sched": [0, 1, 0, 2, 2, 1]})
        cs.append({"scripts": self._mk_scripts([[(2, 1, PANIC)], [(2, 1, 0)], [(2, 1, 0)]]), "sched": [0, 1, 0, 1, 0, 2, 2, 2, 1]})
        # two instances: the same key string in the second instance is independent
        for kind in (0, 1, 2, 4, 5):
            cs.append({"scripts": self._mk_scripts([[(kind, 1, 0)], [(kind, INST + 1, 0)], [(kind, 1, 0)]]),
                       "sched": [0, 0, 1, 1, 2, 2, 0, 1]})
        # cache node: not-found placeholder, query error (not cached), store down (fails fast), reload after del
        cs.append({"scripts": self._mk_scripts([[(5, 1, NOTFOUND)], [(8, 1, 0)], [(5, 1, 0), (7, 1, 0), (8, 1, 0)]]),
                   "sched": [0, 1, 0, 2, 2, 2, 2]})
        cs.append({"scripts": self._mk_scripts([[(8, INST + 1, WNOTFOUND)], [(5, INST + 1, 0)], [(5, 1, 0)]]), "sched": [0, 1, 0, 2, 2, 1]})
        # a function that returns (nil, nil), the empty key
        cs.append({"scripts": self._mk_scripts([[(0, 0, 0, NIL)], [(0, 0, 0)], [(1, 0, 0, NIL)], [(1, 0, 0)]]),
                   "sched": [0, 1, 2, 3, 0, 2, 3, 3]})
        cs.append({"scripts": self._mk_scripts([[(4, 0, 0, NIL), (4, 0, 0)], [(4, 0, 0)]]), "sched": [0, 1, 0, 0, 1]})
        cs.append({"scripts": self._mk_scripts([[(5, 1, 3), (5, 1, 0)], [(5, 1, 0), (9, 1, 0, 1), (5, 1, 0), (5, 2, 0), (9, 1, 0, 0), (5, 2, 0)]]),
                   "sched": [0, 1, 0, 0, 0, 1, 1, 1, 1, 1, 1, 1]})
        # ResourceManager as a sequential object: share, failed create retried, Inject, Close
        cs.append({"rmseq": [[0, 1, 11, 0], [0, 1, 12, 0], [1, 1, 15, 0], [0, 1, 13, 0], [0, 2, 21, 3], [0, 2, 22, 0],
                             [1, 3, 31, 0], [2, 0, 0, 0]]})
        return cs

    def _enumerated(self, rng, tier):
        """forced schedules enumerated exhaustively at gate level.  A call has two gate-level steps
        (enter the call up to the gate inside the user function or up to a block / leave the function and
        return), GetResource three (invoke / enter singleflight / create returns).  With three callers of one
        key every order of arrival is there: before the leader registered, while its function runs, after it
        returned (the points between the function's return, the delete and wg.Done are not separable by user
        callbacks: covered by the theorems only)."""
        quick = tier == "quick"
        cases = []
        pats = {2: [(1, 1), (1, 2)], 3: [(1, 1, 1), (1, 1, 2), (1, 2, 1), (1, 2, 2)]}

        def errs(n, allow):
            return [rng.choice(allow) for _ in range(n)]

        # SingleFlight.DoEx / Do and LockedCalls.Do
        for kind in (0, 1, 3):
            for keys in pats[2]:
                for sch in interleavings([2, 2]):
                    for es in ((0, 0), (2, 0), (PANIC, 0)):
                        cases.append({"scripts": self._mk_scripts([[(kind, k, e)] for k, e in zip(keys, es)]), "sched": sch})
        for kind in (0, 1):
            for keys in (pats[3][:2] if quick else pats[3]):
                for sch in interleavings([2, 2, 2]):
                    if quick and keys != (1, 1, 1) and rng.random() < 0.5:
                        continue
                    k2 = 3 if (kind == 0 and rng.random() < 0.3) else kind
                    cases.append({"scripts": self._mk_scripts([[(k2, k, 0)] for k in keys]), "sched": sch})
                    if not quick or rng.random() < 0.35:
                        es = errs(3, [0, 0, 2, PANIC])
                        cases.append({"scripts": self._mk_scripts([[(k2, k, e)] for k, e in zip(keys, es)]), "sched": sch})
        # ResourceManager: three gate-level steps per call
        for keys in pats[2]:
            for sch in interleavings([3, 3]):
                for es in (((0, 0), rng.choice([(3, 0), (PANIC, 0)])) if quick else ((0, 0), (3, 0), (PANIC, 0))):
                    cases.append({"scripts": self._mk_scripts([[(2, k, e)] for k, e in zip(keys, es)]), "sched": sch})
        rm3 = [s for s in interleavings([3, 3, 3])]
        rng.shuffle(rm3)
        for sch in rm3[:60 if quick else 600]:
            keys = rng.choice([(1, 1, 1), (1, 1, 1), (1, 1, 2)])
            cases.append({"scripts": self._mk_scripts([[(2, k, e)] for k, e in zip(keys, errs(3, [0, 0, 0, 2, PANIC]))]), "sched": sch})
        # the two users of the barrier: three readers of one key
        c3 = [s for s in interleavings([2, 2, 2])]
        # (collection.Cache.Take has three gate-level steps: invoke / enter the barrier after the miss / loader returns)
        for sch in rm3[60:100] if quick else rm3[600:900]:
            cases.append({"scripts": self._mk_scripts([[(4, 1, e)] for e in errs(3, [0, 0, 0, 2, PANIC])]), "sched": sch})
        rng.shuffle(c3)
        for sch in c3[:25 if quick else 90]:
            def node_op():
                cm = rng.choice([CTX_NONE, CTX_LIVE, CTX_LIVE, CTX_CANCEL_IN_LOAD, CTX_DEADLINE_IN_LOAD, CTX_CANCEL_IN_STORE,
                                 CTX_DEADLINE_IN_STORE])
                if cm == CTX_CANCEL_IN_LOAD:
                    e = rng.choice([CANCELED, WCANCELED])
                elif cm == CTX_DEADLINE_IN_LOAD:
                    e = rng.choice([DEADLINE, WDEADLINE])
                else:
                    e = rng.choice([0, 0, 0, 2, NOTFOUND, PANIC, CANCELED, WDEADLINE])
                return (rng.choice([5, 8]), 1, e, None, cm)
            cases.append({"scripts": self._mk_scripts([[node_op()] for _ in range(3)]), "sched": sch})
        # two instances of the primitive, same key string
        rng.shuffle(c3)
        for sch in c3[:30 if quick else 90]:
            kind = rng.choice([0, 1, 3, 4])
            cases.append({"scripts": self._mk_scripts([[(kind, k, 0)] for k in (1, INST + 1, rng.choice([1, INST + 1]))]), "sched": sch})
        if not quick:
            # four callers: 2520 gate-level interleavings per key pattern; a third of them each run
            for keys in [(1, 1, 1, 1), (1, 1, 2, 2), (1, 1, 1, 2)]:
                for sch in interleavings([2] * 4):
                    if rng.random() < 0.33:
                        cases.append({"scripts": self._mk_scripts([[(rng.choice([0, 1]), k, 0)] for k in keys]), "sched": sch})
        return cases

    def _rmseq_case(self, rng):
        ops = []
        nkeys = rng.choice([1, 2, 3])
        n = rng.randint(2, 9)
        for i in range(n):
            r = rng.random()
            v = 10 * (i + 1) + rng.randint(1, 9)     # ids divisible by 5 fail to Close
            if r < 0.65:
                ops.append([0, rng.randint(1, nkeys), v, rng.choice([0, 0, 0, 3])])
            else:
                ops.append([1, rng.randint(1, nkeys), v, 0])
        ops.append([2, 0, 0, 0])
        return {"rmseq": ops}

    def _cache_case(self, rng):
        """the anchored users of the barrier: collection.Cache.Take (4) / cache node Take, TakeWithExpire
        (5, 8), with invalidations (6 / 7) so that reloads happen, loader errors, not-found (node: kept as a
        placeholder), panicking loaders, a store that is down for a while (node), two instances"""
        node = rng.random() < 0.4
        nthreads = rng.choice([2, 3, 3, 4])
        nkeys = rng.choice([1, 2, 2])
        two = rng.random() < 0.2
        faulty = node and rng.random() < 0.25
        sc = []
        for t in range(nthreads):
            ops = []
            for _ in range(rng.choice([1, 2, 2, 3])):
                key = rng.randint(1, nkeys) + (INST if two and rng.random() < 0.4 else 0)
                if rng.random() < 0.2:
                    ops.append((rng.choice([7, 7, 10]) if node else 6, key, 0))
                elif node:
                    cm = rng.choice([CTX_NONE, CTX_NONE, CTX_LIVE, CTX_LIVE, CTX_CANCEL_IN_LOAD, CTX_DEADLINE_IN_LOAD, CTX_DONE,
                                     CTX_CANCEL_IN_STORE, CTX_DEADLINE_IN_STORE])
                    if cm == CTX_CANCEL_IN_LOAD:
                        e = rng.choice([CANCELED, WCANCELED])
                    elif cm == CTX_DEADLINE_IN_LOAD:
                        e = rng.choice([DEADLINE, WDEADLINE])
                    else:
                        e = rng.choice([0, 0, 0, 0, 2, NOTFOUND, NOTFOUND, WNOTFOUND, PANIC, CANCELED, WDEADLINE])
                    ops.append((rng.choice([5, 5, 8]), key, e, None, cm))
                elif rng.random() < 0.1 and not any(len(x) > 3 and x[3] == NIL for y in sc for x in y) and not any(len(x) > 3 and x[3] == NIL for x in ops):
                    ops.append((4, key, 0, NIL))          # the loader returns (nil, nil): a cacheable value
                else:
                    ops.append((4, key - (1 if rng.random() < 0.15 else 0), rng.choice([0, 0, 0, 0, 2, 2, PANIC, CANCELED, WDEADLINE])))
            sc.append(ops)
        if faulty:
            # one thread switches the store off and on again
            sc.append([(9, 1, 0, 1), (9, 1, 0, 0)])
            nthreads += 1
        total = sum(len(x) for x in sc)
        sched = [rng.randrange(nthreads) for _ in range(rng.randint(total, 3 * total))]
        return {"scripts": self._mk_scripts(sc), "sched": sched}

    def _random(self, rng):
        r = rng.random()
        if r < 0.22:
            return self._cache_case(rng)
        if r < 0.30:
            return self._rmseq_case(rng)
        nthreads = rng.choice([1, 2, 3, 3, 4, 4, 5])
        nkeys = rng.choice([1, 1, 2, 2, 3])
        mode = rng.choice([0, 0, 0, 3, 1, 1, 2, 2, "mix"])
        two = rng.random() < 0.25
        sc = []
        for _ in range(nthreads):
            ops = []
            for _ in range(rng.choice([1, 1, 2, 2, 3])):
                kind = rng.choice([0, 1, 2, 3]) if mode == "mix" else mode
                err = rng.choice([0, 0, 0, 0, 0, 1, 2, PANIC, PANIC, rng.choice([CANCELED, DEADLINE, WCANCELED, WDEADLINE])])
                key = rng.randint(0 if rng.random() < 0.2 else 1, nkeys)     # key 0 = the empty string
                op = (kind, key + (INST if two and rng.random() < 0.4 else 0), err)
                if kind != 2 and err == 0 and rng.random() < 0.08 and not any(len(x) > 3 and x[3] == NIL for y in sc for x in y) \
                        and not any(len(x) > 3 and x[3] == NIL for x in ops):
                    op = op + (NIL,)                       # a function that returns (nil, nil)
                ops.append(op)
            if rng.random() < 0.12:
                ops[-1] = (ops[-1][0], ops[-1][1], GOEXIT)       # the thread's last function ends its goroutine
            sc.append(ops)
        total = sum(len(x) for x in sc)
        sched = [rng.randrange(nthreads) for _ in range(rng.randint(total, 3 * total))]
        return {"scripts": self._mk_scripts(sc), "sched": sched}

    def gen(self, rng, n, tier):
        cases = [] if tier == "search" else self._enumerated(rng, tier)
        if tier == "quick" and len(cases) > n * 4 // 5:
            rng.shuffle(cases)
            # keep all 2-thread cases (first found) by sorting small first
            cases.sort(key=lambda c: len(c["scripts"]))
            cases = cases[: n * 4 // 5]
        while len(cases) < n:
            cases.append(self._random(rng))
        return cases

    # ---- execution ---------------------------------------------------------------------
    def execute(self, cases, ctx):
        # one executor process per chunk (at most 2000 cases), three processes at a time: the executor is a single
        # controller loop (one step = a few scheduler round trips), so the wall time is what the chunks take side by side
        import concurrent.futures
        n = len(cases)
        k = max(3, -(-n // 2000))
        if n < 120:
            k = 1
        chunks = [cases[j::k] for j in range(k)]      # round robin: the fixed families (first) are spread over the processes

        def run(ix):
            chunk = chunks[ix]
            try:
                rc, out, rs = vlib.go_run(self.bin, chunk, tag="c07x%d" % ix, timeout=900)
            except ValueError as e:                  # output cut off in the middle of a line: the executor was killed
                raise ExecError("c07 executor output unreadable (killed at the time limit?): %s" % e)
            if rc != 0 or len(rs) != len(chunk):
                raise ExecError("c07 executor rc=%s: %s" % (rc, out[-2000:]))
            return rs

        with concurrent.futures.ThreadPoolExecutor(max_workers=3) as ex:
            parts = list(ex.map(run, range(len(chunks))))
        res = [None] * n
        for j, p in enumerate(parts):
            res[j::k] = p
        return [self._digest(c, r) for c, r in zip(cases, res)]

    @staticmethod
    def _digest(case, r):
        """controller output -> observation: steps (actor, skip, order, statuses) and event log"""
        if "rmseq" in case:
            if r.get("err") or len(r.get("rmobs") or []) != len(case["rmseq"]):
                return {"err": r.get("err") or "short rmobs", "rmobs": r.get("rmobs") or []}
            return {"rmobs": r["rmobs"]}
        nt = len(case["scripts"])
        if r.get("err") == "skipped":
            # the executor gave up after spending its hang budget on earlier cases (those are the findings)
            return {"skipped": True, "steps": [], "log": [], "forced": False}
        if r.get("err"):
            return {"err": r["err"], "steps": [], "log": [], "forced": not case.get("free")}
        if case.get("free"):
            log = [[e["t"], e["a"], EK[e["k"]], e["op"]] + ((e.get("v") or []) + [0, 0, 0])[:3] for e in r.get("events") or []]
            return {"steps": [], "log": log, "forced": False, "monitor": r.get("monitor") or []}
        steps, log = [], []
        lastt = 0
        node = is_node(case)   # no "seen blocked" judgement where network I/O is involved
        posts = set()
        for s in r["steps"]:
            order = []
            for e in s["ev"]:
                if e["a"] not in order:
                    order.append(e["a"])
                v = (e.get("v") or [0, 0, 0]) + [0, 0]
                log.append([e["t"], e["a"], EK[e["k"]], e["op"]] + v[:3])
                lastt = e["t"]
            order += [t for t in range(nt) if t not in order]
            stat = {x["a"]: x for x in s["st"]}
            sts = []
            for t in range(nt):
                x = stat.get(t)
                if x is None or x["st"] == 2:
                    sts.append([2, 0])
                elif x["st"] == 0:
                    sts.append([{"call": 0, "pre": 4}.get(x.get("l"), 3), x["op"]])
                    if x.get("l") == "post":
                        posts.add(t)
                else:
                    sts.append([1, x["op"]])
                    if not s["skip"] and not node:
                        log.append([lastt, t, 4, x["op"], 0, 0, 0])
            steps.append({"a": s["a"], "skip": s["skip"], "order": order, "st": sts,
                          "lab": [{"post": t in posts} for t in range(nt)]})
            posts = set()
        # whoever is still blocked when the run is over (nothing parked any more) waits for ever
        if steps and not node:
            for t, st in enumerate(steps[-1]["st"]):
                if st[0] == 1:
                    log.append([lastt + 1, t, 4, st[1], 0, 0, 0])
        return {"steps": steps, "log": log, "forced": not is_cache(case) and not case.get("logonly")}

    # ---- Coq rendering --------------------------------------------------------------------
    def coq_case(self, case, obs):
        if "rmseq" in case:
            ops = clist(["mkRmOp %s %s %s %s" % tuple(cz(x) for x in o) for o in case["rmseq"]])
            ob = clist(["(%s, %s, %s)" % tuple(cz(x) for x in o) for o in obs.get("rmobs", [])])
            return "RmSeq %s %s" % (ops, ob)
        if obs.get("skipped"):
            return "Conc (mkCase [] false false [] [])"
        scripts = clist([clist(["mkOp %s %s %s %s" % (KIND[o[0]], cz(o[1]), cz(o[2]), cz(COQ_ERR.get(o[3], o[3])))
                                for o in sc]) for sc in case["scripts"]])
        steps = clist(["mkOStep %d%%nat %s %s %s" % (s["a"], cbool(s["skip"]),
                                                 clist(["%d%%nat" % t for t in s["order"]]),
                                                 clist(["(%s, %s)" % (cz(a), cz(b)) for a, b in s["st"]]))
                       for s in obs["steps"]])
        log = clist(["mkEvZ %s %d %s %d %s %s %s" % (cz(e[0]), e[1], cz(e[2]), e[3], cz(e[4]), cz(e[5]), cz(e[6]))
                     for e in obs["log"]])
        ok = "true" if obs.get("forced") and not obs.get("err") else "false"
        if obs.get("err"):
            # the implementation hung / did not quiesce: not a history of the model; make both fail
            return "Conc (mkCase %s false true [mkOStep 0%%nat false [] []] [mkEv 0 0%%nat 2 0%%nat 0 0 0])" % scripts
        if is_cache(case) or case.get("logonly"):
            steps = "[]"     # the LTS is not driven for the cache call sites / nested calls: only the event log is judged
        return "Conc (mkCase %s %s %s %s %s)" % (scripts, cbool(is_cache(case)), ok, steps, log)

    def coq_preamble(self):
        return "Open Scope nat_scope.\nOpen Scope Z_scope.\n"

    def nontrivial(self, case, obs):
        if "rmseq" in case:
            # some GetResource was answered without calling create
            return any(o[0] == 0 and b[2] == 0 for o, b in zip(case["rmseq"], obs.get("rmobs", [])))
        if any(e[2] == 4 for e in obs.get("log", [])):
            return True
        # cache call sites: some caller got a value it did not load itself
        return is_cache(case) and any(e[2] == 3 and e[6] != -2 and e[4] >= 0 and
                                      e[4] != case["scripts"][e[1]][e[3]][2] for e in obs.get("log", []))

    def features(self, case, obs):
        if "rmseq" in case:
            ks = set(o[0] for o in case["rmseq"])
            return ["rmseq"] + ["rmseq.%s" % {0: "get", 1: "inject", 2: "close"}[k] for k in sorted(ks)]
        fs = ["threads=%d" % len(case["scripts"])]
        kinds = set(o[0] for sc in case["scripts"] for o in sc)
        fs += ["kind=%s" % KNAME[k] for k in sorted(kinds)]
        fs.append("keys=%d" % len(set(o[1] % INST for sc in case["scripts"] for o in sc)))
        if any(o[1] >= INST for sc in case["scripts"] for o in sc):
            fs.append("two_instances")
        if any(o[3] == PANIC and o[0] not in (6, 7, 9, 10, 11) for sc in case["scripts"] for o in sc):
            fs.append("has_panicking_fn")
        if any(o[3] == GOEXIT for sc in case["scripts"] for o in sc):
            fs.append("has_goexit_fn")
        if any(e[2] == 3 and e[5] == NOTFOUND for e in obs.get("log", [])):
            fs.append("has_notfound")
        if any(e[2] == 6 for e in obs.get("log", [])):
            fs.append("has_store_fault")
        if any(st[0] == 3 and x.get("post") for s_ in obs.get("steps", []) for st, x in zip(s_["st"], s_.get("lab", []))):
            fs.append("joiner_held_after_doex")
        for m in sorted(set(o[4] for sc in case["scripts"] for o in sc if len(o) > 4 and o[4])):
            fs.append("ctx=%s" % {1: "live", 2: "cancelled-in-load", 3: "deadline-in-load", 4: "already-done",
                                  5: "cancelled-in-store-call", 6: "deadline-in-store-call"}[m])
        if any(o[3] in (CANCELED, DEADLINE, WCANCELED, WDEADLINE) for sc in case["scripts"] for o in sc):
            fs.append("has_context_error_outcome")
        fs.append("steps<=%d" % (10 * (1 + len(obs.get("steps", [])) // 10)))
        if any(e[2] == 4 for e in obs.get("log", [])):
            fs.append("has_blocked")
        if any(e[2] == 3 and e[6] == 0 for e in obs.get("log", [])):
            fs.append("has_shared_result")
        if any(e[2] == 3 and e[5] != 0 for e in obs.get("log", [])):
            fs.append("has_error_result")
        if any(s["skip"] for s in obs.get("steps", [])):
            fs.append("has_stutter")
        return fs

    def shrink_candidates(self, case):
        if "rmseq" in case:
            ops = case["rmseq"]
            return [{"rmseq": ops[:i] + ops[i + 1:]} for i in range(len(ops))]
        res = []
        sc, sched = case["scripts"], case["sched"]
        # big cases (many threads / long scripts): halves first
        if len(sc) > 8:
            for keep in (set(range(len(sc) // 2)), set(range(len(sc) // 2, len(sc))), set(range(0, len(sc), 2))):
                ren = {t: j for j, t in enumerate(sorted(keep))}
                c = dict(case)
                c["scripts"] = [sc[t] for t in sorted(keep)]
                c["sched"] = [ren[x] for x in sched if x in ren]
                res.append(c)
        longest = sorted(range(len(sc)), key=lambda t: -len(sc[t]))[:6]
        for t in longest:
            if len(sc[t]) > 4:
                for part in (sc[t][:len(sc[t]) // 2], sc[t][len(sc[t]) // 2:]):
                    c = dict(case)
                    c["scripts"] = sc[:t] + [part] + sc[t + 1:]
                    res.append(c)
        if case.get("logonly") and (len(sc) > 8 or sum(len(x) for x in sc) > 40):
            # a big many-keys case: which keys collide is decided anew in every run of a variant that hashes keys with a
            # random seed, so small candidates seldom fail again; only the cheap big cuts are tried
            return res
        for t in range(len(sc)):
            if len(sc) > 1:
                c = dict(case)
                c["scripts"] = sc[:t] + sc[t + 1:]
                c["sched"] = [x - (1 if x > t else 0) for x in sched if x != t]
                res.append(c)
            if len(sc[t]) > 1:
                c = dict(case)
                c["scripts"] = sc[:t] + [sc[t][:-1]] + sc[t + 1:]
                res.append(c)
        for i in range(len(sched)):
            c = dict(case)
            c["sched"] = sched[:i] + sched[i + 1:]
            res.append(c)
        return res[:150]

    def describe_failure(self, case, obs):
        if "rmseq" in case:
            return ("ResourceManager used sequentially: create called although the key had an instance, a second "
                    "successful creation, a GetResource that did not hand out the current instance, or Close did not "
                    "close every resource exactly once (%s)" % (obs.get("err") or obs.get("rmobs")))
        if obs.get("err"):
            return "the implementation did not reach quiescence / hung under the forced schedule: %s" % obs["err"]
        return ("the observed event log violates C07: overlapping executions for one key, a stale or foreign result, "
                "fresh reported wrongly, a LockedCalls caller whose own function did not run exactly once, a thread "
                "blocked behind another key / another instance or left blocked for ever, or a resource created twice")

    # ---- free-running -race monitor (thorough tier) -------------------------------------------
    def extra(self, ctx):
        if ctx.tier != "thorough":
            return []
        import random
        ok, res = vlib.go_build("c07", overlay=getattr(self, "overlay", None) or self._overlay(), race=True)
        if not ok:
            raise ExecError("c07 -race build failed: %s" % res[-1500:])
        rng = random.Random(ctx.seed * 31 + 7)
        cases = []
        for i in range(1000):
            c = self._random(rng)
            while "rmseq" in c:
                c = self._random(rng)
            # more threads, same keys: contention
            c["scripts"] = c["scripts"] * rng.choice([1, 2, 3])
            # (no store faults in free mode: the executor's fault flag is not synchronised)
            c["scripts"] = self._mk_scripts([[(o[0], o[1], o[3]) + ((None, o[4]) if len(o) > 4 else ()) for o in sc if o[0] != 9]
                                             for sc in c["scripts"]])
            c["scripts"] = [sc for sc in c["scripts"] if sc]
            c["sched"] = []
            c["free"] = True
            c["spin"] = rng.choice([0, 1, 5, 20])
            c["id"] = i
            cases.append(c)
        # generation churn: many short calls of many threads on ONE key (entries of the key are created and deleted all
        # the time while waiters of older generations are still on their way out)
        for j in range(250):
            kind = rng.choice([0, 0, 3, 1, 2, 4, 5])
            nt = rng.choice([4, 6, 8])
            sc = [[(kind, 1, rng.choice([0, 0, 0, 2, PANIC])) for _ in range(rng.choice([3, 4, 6]))] for _ in range(nt)]
            cases.append({"scripts": self._mk_scripts(sc), "sched": [], "free": True, "spin": rng.choice([0, 0, 1, 3]),
                          "id": 1000 + j})
        rc, out, rs = vlib.go_run(res, cases, tag="c07race", timeout=900)
        fails = []
        if "DATA RACE" in out:
            fails.append({"what": "data race reported by the Go race detector in the free-running C07 harness",
                          "replay": {"output": out[-4000:]}})
        if rc != 0 and not fails:
            raise ExecError("c07 race run rc=%s: %s" % (rc, out[-2000:]))
        obs = [self._digest(c, r) for c, r in zip(cases, rs)]
        for c, o, r in zip(cases, obs, rs):
            if r.get("err") or o.get("monitor"):
                fails.append({"what": "free-running monitor: %s" % (r.get("err") or o["monitor"][:3]),
                              "replay": {"case": c, "observed": o}})
        good = [(c, o) for c, o, r in zip(cases, obs, rs) if not r.get("err")]
        terms = [self.coq_case(c, o) for c, o in good]
        rs2 = vlib.coq_eval_cases(self.id, self.check_module, terms, preamble=self.coq_preamble())
        for (c, o), (a, p) in zip(good, rs2):
            if not p:
                fails.append({"what": "free-running log violates the interval property", "replay": {"case": c, "observed": o}})
        ctx.notes.append("free-running -race monitor: %d cases, %d failures" % (len(cases), len(fails)))
        return fails[:5]


PROPERTY = C07()
