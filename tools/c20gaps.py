"""C20 — where a comment stands: grammar position ("gap") of every comment of a goctl .api source,
computed from the Go scanner's token stream, and the committed table of the gaps in which the
pinned format.Source is known to mishandle a comment (tools/props/c20_known_gaps.json).

A gap key is  ctx|prev|next|form :
  ctx   innermost open construct: top, info, imports, types, server, doc, svc, body, struct, brack
  prev  class of the non-comment token before the comment   (BOF at the start of the text)
  next  class of the non-comment token after it             (EOF at the end)
        classes: the token kind; for identifiers their grammatical role where the token stream
        determines it (kw:syntax, kw:info, kw:import, kw:type, kw:service, METHOD, returns, map,
        P:id / P:/ / P:: / P:- for the tokens of a route path, else IDENT)
  form  L|B (line / block comment) + 1|0 (on the line of prev?) + 1|0 (next on the comment's line?)
        with the scanner's own line numbers, i.e. exactly what the parser sees when it attaches
        the comment as "leading" (same line as prev) or "head" (of next).

The table maps a key to the failure modes observed for a comment in that gap on the tree it was
derived from (recorded in the file): "lost" (the comment is missing from the formatted text),
"idem" (format(format(p)) != format(p), meaning preserved), "noparse" (the formatted text is
rejected by the parser), "meaning" (it parses to another API description / other tokens).
tools/props/c20.py suppresses a failing program as a known finding only when every comment it
blames is in the table with the failure mode observed; the table is NEVER recomputed by a check.

Derivation (once, by hand):  python3 tools/c20gaps.py derive [nprograms [ncommented]]
"""
import json
import os
import sys

HTTP = ("get", "head", "post", "put", "patch", "delete", "connect", "options", "trace")
TABLE_FILE = os.path.join(os.path.dirname(os.path.abspath(__file__)), "props", "c20_known_gaps.json")
STOP = ("(", "AT_DOC", "AT_HANDLER", ";", "}")


def classify(toks):
    """(classes, ctx_after): class of every token; ctx_after[i] = context label of the gap that
    follows token i (ctx_after[-1] conceptually 'top' before the first token)."""
    classes = []
    ctx_after = []
    stack = []          # labels of open brackets
    stmt = None         # last top-level statement keyword
    in_path = False
    n = len(toks)
    for i, t in enumerate(toks):
        k, tx = t[0], t[1]
        ctx = stack[-1] if stack else "top"
        prev = toks[i - 1] if i > 0 else None
        cls = k
        if k == "IDENT":
            cls = "IDENT"
            if ctx == "top" and tx in ("syntax", "info", "import", "type", "service") and \
                    not (prev is not None and prev[0] == "IDENT" and prev[1] in ("service", "type") and stmt == prev[1]
                         and classes and classes[-1].startswith("kw:")):
                cls = "kw:" + tx
                stmt = tx
            elif ctx == "svc":
                if in_path:
                    if tx == "returns" and prev is not None and prev[0] != "-":
                        in_path = False
                        cls = "returns"
                    else:
                        cls = "P:id"
                elif i >= 2 and toks[i - 2][0] == "AT_HANDLER" and toks[i - 1][0] == "IDENT" and tx in HTTP:
                    cls = "METHOD"
                    in_path = True
                elif tx == "returns":
                    cls = "returns"
            elif tx == "map" and ctx in ("struct", "types", "brack", "top"):
                cls = "map"
        elif ctx == "svc" and in_path:
            if k in STOP:
                in_path = False
            elif k in ("/", ":", "-"):
                cls = "P:" + k
            elif k == "INT":
                cls = "P:id"
        classes.append(cls)
        # brackets
        if k == "(":
            if ctx == "top" and prev is not None and prev[0] == "IDENT" and prev[1] in ("info", "import", "type") and \
                    classes[-2].startswith("kw:"):
                stack.append({"info": "info", "import": "imports", "type": "types"}[prev[1]])
            elif ctx == "top" and prev is not None and prev[0] == "AT_SERVER":
                stack.append("server")
            elif ctx == "svc" and prev is not None and prev[0] == "AT_DOC":
                stack.append("doc")
            elif ctx == "svc":
                stack.append("body")
            else:
                stack.append("paren")
        elif k == "{":
            if ctx == "top" and stmt == "service":
                stack.append("svc")
            else:
                stack.append("struct")
        elif k == "[":
            stack.append("brack")
        elif k in (")", "}", "]"):
            if stack:
                stack.pop()
            in_path = False
        ctx_after.append(stack[-1] if stack else "top")
    return classes, ctx_after


def comment_keys(toks, cmts):
    """gap key of every comment (same order as cmts)"""
    classes, ctx_after = classify(toks)
    keys = []
    for c in cmts:
        p = c[0]
        nxt = p + 1
        prev_cls = classes[p] if p >= 0 else "BOF"
        next_cls = classes[nxt] if nxt < len(toks) else "EOF"
        ctx = ctx_after[p] if p >= 0 else "top"
        lead = 1 if (p >= 0 and c[3]) else 0
        nsame = 1 if (nxt < len(toks) and len(toks[nxt]) > 3 and toks[nxt][3] == c[4]) else 0
        form = ("L" if c[1] == "COMMENT" else "B") + str(lead) + str(nsame)
        keys.append("%s|%s|%s|%s" % (ctx, prev_cls, next_cls, form))
    return keys


_table = None


def table():
    global _table
    if _table is None:
        with open(TABLE_FILE) as f:
            _table = json.load(f)
        _table["_one_line_set"] = set(_table.get("one_line_gaps", []))
        gm = {}
        for k, v in _table["gaps"].items():
            m = set(v) - {"lost"}
            if m:
                gm.setdefault("|".join(k.split("|")[:3]), set()).update(m)
        _table["_gap_modes"] = gm
    return _table


def modes(key):
    return set(table()["gaps"].get(key, []))


def gap_modes(key):
    """failure modes other than "lost" recorded for the gap ctx|prev|next of the key, whatever the
    form of the comment: the gaps in which the pinned formatter is known to mishandle comments"""
    return table()["_gap_modes"].get("|".join(key.split("|")[:3]), set())


def one_line(key):
    """does the comment stand between two tokens that the pinned formatter prints on one line?"""
    return "|".join(key.split("|")[:3]) in table()["_one_line_set"]


def carries_break(key):
    """a line comment, or a block comment with a line break before or after it"""
    form = key.split("|")[3]
    return form[0] == "L" or form[1:] != "11"


# ---- derivation --------------------------------------------------------------------------------

def templates():
    """comment-free programs that put every construct of the grammar into every position
    (systematic part of the derivation; random programs of the generator are added)"""
    res = []
    dts = ["int", "any", "interface{}", "Foo", "*Foo", "**Foo", "[]Foo", "[3]Foo", "[...]Foo", "[][]Foo", "[]*Foo",
           "*[]Foo", "map[string]Foo", "map[string]*Foo", "map[string][]Foo", "map[[]byte]Foo", "map[[2]int]Foo",
           "map[*Foo]Bar", "map[map[string]int]Foo", "map[string]map[int]Foo", "[]map[string]Foo", "{}",
           "{\n\t\tX int\n\t}", "[]{\n\t\tX int\n\t}", "map[string]{\n\t\tX int\n\t}", "*[]map[string]*Foo",
           "[3][]Foo", "map[interface{}]any", "[]interface{}", "[]any", "*any", "map[[]*Foo][]*Bar", "[][2]map[int]any",
           "{\n\t\tX {\n\t\t\tY int `json:\"y\"`\n\t\t}\n\t\tFoo\n\t}"]
    for d in dts:
        res.append('type T {\n\tA %s\n\tB %s `json:"b"`\n\tC, E %s\n\tC1, E1, F1 %s `json:"c"`\n}\n' % (d, d, d, d))
        res.append('type T {\n\tFoo\n\tA %s\n\t*Bar\n\tB %s `json:"b"`\n\tBaz `json:"z"`\n\tany\n\t*Qux `json:"q"`\n}\n' % (d, d))
        res.append('type X %s\ntype Y = %s\ntype (\n\tP %s\n\tQ = %s\n\tR %s\n)\n' % (d, d, d, d, d))
    res.append("type (\n)\ntype T {}\ntype ()\n")
    res.append('type T {\n\tany\n\t*any\n\tFoo\n}\ntype any int\n')
    paths = ["/", "/a", "/a/b", "/:id", "/a-b", "/a/:id/c-d-e", "/1", "/a/", "/v1/42", "/a/:b-c"]
    bodies = [None, "()", "(T)", "([]T)", "(*T)", "([]*T)"]
    docs = ["", '\t@doc "x"\n', '\t@doc ""\n', '\t@doc (\n\t\ta: "x"\n\t)\n', '\t@doc (\n\t\ta: ""\n\t)\n', "\t@doc ()\n",
            '\t@doc (\n\t\ta: "x"\n\t\tb: `y`\n\t\tc: ""\n\t)\n']
    routes = []
    for i, pth in enumerate(paths):
        routes.append((pth, bodies[2 + i % 4], bodies[(i * 5 + 2) % 6], ""))
    for rq in bodies:
        for rs in bodies:
            for j, pth in enumerate(["/a/:id", "/"]):
                routes.append((pth, rq, rs, ";" if (len(routes) % 3 == 0) else ""))
    k = 0
    while k < len(routes):
        chunk = routes[k:k + 3]
        k += 3
        for name in ("s", "s-api"):
            text = "service %s {\n" % name
            for n, (pth, rq, rs, semi) in enumerate(chunk):
                text += docs[(k + n) % len(docs)]
                text += "\t@handler h%d\n\tget %s" % (n, pth)
                if rq:
                    text += " " + rq
                if rs:
                    text += " returns " + rs
                text += semi + "\n"
            text += "}\n"
            res.append(text)
    res.append("service s {}\nservice s-api {\n}\n")
    svals = ["a", '"s"', '""', "1", "3s", "1h30m", "a,b,c", "a-b-c", "/a", "/a/b-c", "a/b", "a/b-c/d", "/a-b"]
    for i in range(0, len(svals), 3):
        vs = svals[i:i + 3]
        res.append("@server (\n" + "".join("\tk%d: %s\n" % (j, v) for j, v in enumerate(vs)) +
                   ")\nservice s {\n\t@handler h\n\tget /a\n}\n")
    res.append('@server ()\nservice s {}\n@server (\n\ta: ""\n\tb: ""\n)\nservice s {\n\t@handler h\n\tget /a\n}\n')
    res.append('syntax = "v1"\n\ninfo (\n\ttitle: "t"\n\tdesc: `d`\n\tzero: ""\n)\n\ninfo ()\ninfo (\n\ta: ""\n)\n')
    res.append('import "a.api"\nimport "b.api"\nimport ""\nimport (\n\t"c.api"\n\t""\n\t"d.api"\n)\nimport ()\nimport (\n\t""\n)\ntype T {}\n')
    res.append('import "a.api"\ntype ()\nimport "b.api"\ninfo ()\nsyntax = "v2"\nimport "c.api"\nservice s {}\n')
    res.append('syntax = "v1"\ntype T {}\nservice s {\n\t@handler h\n\tget /a\n}\ntype U {}\n')
    return res


def _derive(nprog, nprog2=0):
    import random
    import subprocess
    from concurrent.futures import ThreadPoolExecutor
    sys.path.insert(0, os.path.dirname(os.path.abspath(__file__)))
    sys.path.insert(0, os.path.join(os.path.dirname(os.path.abspath(__file__)), "props"))
    import vlib
    import c20gen
    import c20lib
    import c20 as P

    ok, binp = c20lib.build()
    assert ok, binp
    rng = random.Random(20261001)
    gaps = {}
    seen = {}
    examples = {}
    nrun = 0

    def record(src, o, only=None):
        """classify one executed program with comments; blame = all its comments"""
        if o["pout"] != "ok" or o.get("serr") or o["fout"] not in ("ok", "err") or \
                (o["fout"] == "ok" and o["fmt1"] and o.get("f2out") not in ("ok", "err")):
            return          # a time-out of the executor on a loaded machine is not an observation
        keys = comment_keys(o["toks"], o["cmts"])
        ms = P.failure_modes(o)
        lost = P.lost_comments(o)
        for i, k in enumerate(keys):
            seen[k] = seen.get(k, 0) + 1
            if i in lost:
                gaps.setdefault(k, set()).add("lost")
        if only is not None and ms:
            for m in ms:
                gaps.setdefault(keys[only], set()).add(m)
                examples.setdefault(keys[only] + " " + m, src)

    # phase 1: one comment injected into a comment-free program, at every gap, in every form
    bases = templates()
    for pi in range(nprog):
        opts = {"percent": rng.random() < 0.2, "f10": False, "emptydoc": True, "svc_comment": True, "multi_indent": False,
                "empty_after_import": True, "maxstmts": rng.choice([1, 2, 3, 5]), "glue": False}
        g = c20gen.Gen(rng, opts)
        d = c20gen.Deco(rng, odd=rng.choice([0.0, 0.0, 0.2]), pc=0.0, percent=False, inline=0, f10=False, glue=False)
        bases.append(d.render(g.program()))
    rc, out, res0 = c20lib.run(binp, [{"src": t} for t in bases])
    assert rc == 0 and len(res0) == len(bases), out[-500:]
    cases = []
    meta = []
    for text, o0 in zip(bases, res0):
        if o0["pout"] != "ok" or not P.C20._main_ok(o0) or o0["cmts"]:
            continue
        # token spans through the scanner-compatible regexp
        spans = [(m.start(), m.end()) for m in c20gen.TOKEN_RE.finditer(text)]
        if len(spans) != len(o0["toks"]):
            continue
        for gi in range(len(spans) + 1):
            a = spans[gi - 1][1] if gi > 0 else 0
            e = spans[gi][0] if gi < len(spans) else len(text)
            gap = text[a:e]
            if "\n" in gap:
                rest = gap[gap.index("\n"):]
                ind = gap[gap.rfind("\n") + 1:]
                variants = [" // c1" + rest, " /* c1 */" + rest, gap + "// c1\n" + ind, gap + "/* c1 */\n" + ind,
                            gap + "/* c1 */ ", " /* c1 */ ", " /* c1\nc2 */" + rest, gap + "/* c1\nc2 */ "]
            else:
                variants = [" /* c1 */ ", " // c1\n", " /* c1 */\n", "\n// c1\n", "\n/* c1 */\n", "\n/* c1 */ ",
                            " /* c1\nc2 */ "]
            for v in variants:
                cases.append({"src": text[:a] + v + text[e:]})
                meta.append(o0["ast"])
    chunks = [(i, cases[i:i + 1500]) for i in range(0, len(cases), 1500)]

    def runchunk(ch):
        i, cs = ch
        payload = [{"id": j, "src": c["src"], "muts": []} for j, c in enumerate(cs)]
        rc, out, res = vlib.go_run(binp, payload, tag="c20derive%d" % i, timeout=3000)
        assert rc == 0 and len(res) == len(cs), out[-500:]
        return i, res

    with ThreadPoolExecutor(max_workers=6) as ex:
        for i, res in ex.map(runchunk, chunks):
            for c, o, ast0 in zip(cases[i:i + 1500], res, meta[i:i + 1500]):
                nrun += 1
                if o["pout"] != "ok" or o["ast"] != ast0 or len(o["cmts"]) != 1:
                    continue
                record(c["src"], o, only=0)
    # phase 2: the generator's own commented programs (many comments, odd layouts).  Every lost
    # comment is recorded; a failing program is reduced to a 1-minimal set of comments that still
    # fails (comments are removed one at a time), and the failure modes of the reduced program are
    # recorded for the gaps of exactly those comments.
    progs = []
    for pi in range(nprog2):
        opts = {"percent": rng.random() < 0.3, "f10": True, "emptydoc": True, "svc_comment": True, "multi_indent": False,
                "empty_after_import": True, "maxstmts": rng.choice([2, 4, 7, 9]), "strws": False, "cmt_tab": False}
        if rng.random() < 0.5:
            progs.append(c20gen.generate(rng, opts, odd=rng.choice([0.15, 0.3, 0.5]), pc=rng.choice([0.15, 0.3, 0.45]), inline=2))
        else:
            progs.append(c20gen.generate(rng, opts, inline=1))

    def runmany(srcs, tag):
        out = [None] * len(srcs)
        chunks = [(i, srcs[i:i + 1500]) for i in range(0, len(srcs), 1500)]

        def one(ch):
            i, cs = ch
            payload = [{"id": j, "src": c, "muts": []} for j, c in enumerate(cs)]
            rc, o, res = vlib.go_run(binp, payload, tag="%s%d" % (tag, i), timeout=3000)
            assert rc == 0 and len(res) == len(cs), o[-500:]
            return i, res
        with ThreadPoolExecutor(max_workers=6) as ex:
            for i, res in ex.map(one, chunks):
                out[i:i + len(res)] = res
        return out

    def usable(o):
        return o["pout"] == "ok" and not o.get("serr") and o["fout"] in ("ok", "err") and \
            not (o["fout"] == "ok" and o["fmt1"] and o.get("f2out") not in ("ok", "err"))

    res2 = runmany(progs, "c20d2_")
    nrun += len(progs)
    active = []     # [src, obs, next comment index to try]
    for src, o in zip(progs, res2):
        if not usable(o):
            continue
        record(src, o)
        if P.failure_modes(o):
            active.append([src, o, 0])
    print("phase 2: %d programs, %d fail" % (len(progs), len(active)))
    rounds = 0
    while True:
        todo = [a for a in active if a[2] < len(a[1]["cmts"])]
        if not todo:
            break
        rounds += 1
        cands = []
        for a in todo:
            cands.append(P.delete_comments(a[0], a[1]["cmts"], [a[2]]))
        outs = runmany([c if c is not None else "type T {}" for c in cands], "c20d3_")
        nrun += len(cands)
        for a, c, o in zip(todo, cands, outs):
            if c is not None and usable(o) and o["ast"] == a[1]["ast"] and P.failure_modes(o) and \
                    len(o["cmts"]) == len(a[1]["cmts"]) - 1:
                a[0], a[1] = c, o          # still fails without this comment: drop it for good
            else:
                a[2] += 1                  # needed for the failure: keep it
    for src, o, _ in active:
        keys = comment_keys(o["toks"], o["cmts"])
        ms = P.failure_modes(o)
        for k in keys:
            for m in ms:
                if m != "ferr":
                    gaps.setdefault(k, set()).add(m)
                    examples.setdefault(k + " " + m, src)
    json.dump(examples, open('/var/tmp/c20w/examples.json', 'w'), indent=1)
    return gaps, seen, nrun


def _derive_lines(nprog):
    """the gaps (ctx|prev|next) that the formatter prints on one line, read off comment-free
    programs: the systematic templates and nprog random ones"""
    import random
    sys.path.insert(0, os.path.dirname(os.path.abspath(__file__)))
    sys.path.insert(0, os.path.join(os.path.dirname(os.path.abspath(__file__)), "props"))
    import c20gen
    import c20lib
    import c20 as P
    ok, binp = c20lib.build()
    assert ok, binp
    rng = random.Random(20261002)
    bases = templates()
    for pi in range(nprog):
        opts = {"percent": False, "f10": False, "emptydoc": True, "svc_comment": True, "multi_indent": False,
                "empty_after_import": True, "maxstmts": rng.choice([2, 4, 7, 9]), "glue": False}
        g = c20gen.Gen(rng, opts)
        d = c20gen.Deco(rng, odd=rng.choice([0.0, 0.2]), pc=0.0, percent=False, inline=0, f10=False, glue=False)
        bases.append(d.render(g.program()))
    res = []
    for i in range(0, len(bases), 1000):
        rc, out, r = c20lib.run(binp, [{"src": t} for t in bases[i:i + 1000]])
        assert rc == 0, out[-500:]
        res += r
    one, broken = set(), set()
    for o in res:
        if o["pout"] != "ok" or not P.C20._main_ok(o) or o["cmts"]:
            continue
        ft = o["ftoks"]
        classes, ctx_after = classify(ft)
        for i in range(len(ft) - 1):
            k = "%s|%s|%s" % (ctx_after[i], classes[i], classes[i + 1])
            (one if ft[i + 1][2] == 0 else broken).add(k)
    return sorted(one), sorted(one & broken), len(res)


def main():
    if len(sys.argv) >= 2 and sys.argv[1] == "derive-lines":
        import subprocess
        n = int(sys.argv[2]) if len(sys.argv) > 2 else 1500
        one, both, nrun = _derive_lines(n)
        commit = subprocess.run(["git", "-C", os.environ.get("VERIF_REPO", "/repo"), "rev-parse", "HEAD"],
                                stdout=subprocess.PIPE, text=True).stdout.strip()
        t = json.load(open(TABLE_FILE))
        t["one_line_gaps"] = one
        t["one_line_gaps_also_seen_broken"] = both
        t["derived_from"]["one_line_gaps"] = {"repo_commit": commit, "programs": nrun,
                                              "how": "python3 tools/c20gaps.py derive-lines %d" % n}
        with open(TABLE_FILE, "w") as f:
            json.dump(t, f, indent=1, sort_keys=True)
            f.write("\n")
        print("%d one-line gaps (%d of them also seen with a line break)" % (len(one), len(both)))
        return 0
    if len(sys.argv) >= 2 and sys.argv[1] == "derive":
        import subprocess
        n = int(sys.argv[2]) if len(sys.argv) > 2 else 300
        n2 = int(sys.argv[3]) if len(sys.argv) > 3 else 3000
        gaps, seen, nrun = _derive(n, n2)
        commit = subprocess.run(["git", "-C", os.environ.get("VERIF_REPO", "/repo"), "rev-parse", "HEAD"],
                                stdout=subprocess.PIPE, text=True).stdout.strip()
        old = json.load(open(TABLE_FILE)) if os.path.exists(TABLE_FILE) else {}
        out = {"one_line_gaps": old.get("one_line_gaps", []),
               "one_line_gaps_also_seen_broken": old.get("one_line_gaps_also_seen_broken", []),
               "derived_from": {"one_line_gaps": old.get("derived_from", {}).get("one_line_gaps"), "repo_commit": commit, "programs": n, "commented_programs": n2, "executions": nrun,
                                "how": "python3 tools/c20gaps.py derive %d %d" % (n, n2)},
               "gaps": {k: sorted(v) for k, v in sorted(gaps.items())},
               "gaps_seen_without_failure": sorted(k for k in seen if k not in gaps)}
        with open(TABLE_FILE, "w") as f:
            json.dump(out, f, indent=1, sort_keys=True)
            f.write("\n")
        print("%d gap keys with failures, %d seen in total, %d executions" % (len(gaps), len(seen), nrun))
        return 0
    print(__doc__)
    return 2


if __name__ == "__main__":
    sys.exit(main())
