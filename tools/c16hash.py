"""Generator helper for C16 (judges nothing): go-zero's core/hash.Hash = murmur3.Sum64 (the first
64 bits of MurmurHash3 x64/128, seed 0), and other cheap string hashes a per-key shortcut might
use, so that the cache generators can pick OTHER keys that share a stripe / slot / shard with a
given key under `hash(key) % n`.  If go-zero changed its hash the keys chosen here would merely
stop colliding (the bulk runs of hundreds of consecutive keys remain); nothing is judged here."""

M64 = (1 << 64) - 1


def _rotl(x, r):
    return ((x << r) | (x >> (64 - r))) & M64


def _fmix(k):
    k ^= k >> 33
    k = (k * 0xff51afd7ed558ccd) & M64
    k ^= k >> 33
    k = (k * 0xc4ceb9fe1a85ec53) & M64
    k ^= k >> 33
    return k


def murmur3_sum64(data):
    c1, c2 = 0x87c37b91114253d5, 0x4cf5ad432745937f
    h1 = h2 = 0
    n = len(data)
    nb = n // 16
    for i in range(nb):
        k1 = int.from_bytes(data[16 * i:16 * i + 8], "little")
        k2 = int.from_bytes(data[16 * i + 8:16 * i + 16], "little")
        k1 = (k1 * c1) & M64
        k1 = _rotl(k1, 31)
        k1 = (k1 * c2) & M64
        h1 ^= k1
        h1 = _rotl(h1, 27)
        h1 = (h1 + h2) & M64
        h1 = (h1 * 5 + 0x52dce729) & M64
        k2 = (k2 * c2) & M64
        k2 = _rotl(k2, 33)
        k2 = (k2 * c1) & M64
        h2 ^= k2
        h2 = _rotl(h2, 31)
        h2 = (h2 + h1) & M64
        h2 = (h2 * 5 + 0x38495ab5) & M64
    tail = data[16 * nb:]
    k1 = k2 = 0
    if len(tail) > 8:
        k2 = int.from_bytes(tail[8:], "little")
        k2 = (k2 * c2) & M64
        k2 = _rotl(k2, 33)
        k2 = (k2 * c1) & M64
        h2 ^= k2
    if len(tail) > 0:
        k1 = int.from_bytes(tail[:8], "little")
        k1 = (k1 * c1) & M64
        k1 = _rotl(k1, 31)
        k1 = (k1 * c2) & M64
        h1 ^= k1
    h1 ^= n
    h2 ^= n
    h1 = (h1 + h2) & M64
    h2 = (h2 + h1) & M64
    h1 = _fmix(h1)
    h2 = _fmix(h2)
    h1 = (h1 + h2) & M64
    return h1


def fnv1a32(data):
    h = 0x811c9dc5
    for b in data:
        h = ((h ^ b) * 0x01000193) & 0xffffffff
    return h


def fnv1a64(data):
    h = 0xcbf29ce484222325
    for b in data:
        h = ((h ^ b) * 0x100000001b3) & M64
    return h


def bytesum(data):
    return sum(data)


def crc32(data):
    import zlib
    return zlib.crc32(data)


HASHES = {"murmur3": murmur3_sum64, "fnv1a32": fnv1a32, "fnv1a64": fnv1a64, "crc32": crc32, "bytesum": bytesum}


def key_text(k):
    """the executor's spelling of cache key number k (harness/cmd/c16: ckey)"""
    return b"" if k == 0 else b"k" + str(k).encode()


_memo = {}


def colliders(k, mods=(256, 4096), hashes=("murmur3", "fnv1a32", "crc32"), start=1000, limit=40000):
    """Other key numbers (>= start) whose text collides with key k's under hash % m, for every
    hash in `hashes` and every m in `mods` - the first one found for each (hash, m); a pair
    that has no collision below `limit` candidates is skipped.  Ordered by hash (as given:
    core/hash's own first) then modulus, without repetitions."""
    key = (k, tuple(mods), tuple(hashes), start, limit)
    if key in _memo:
        return _memo[key]
    found = {}
    want = {}
    for hn in hashes:
        h = HASHES[hn](key_text(k))
        for m in mods:
            want[(hn, m)] = h % m
    n = start
    while want and n < start + limit:
        if n != k:
            t = key_text(n)
            hv = {}
            for (hn, m), w in list(want.items()):
                if hn not in hv:
                    hv[hn] = HASHES[hn](t)
                if hv[hn] % m == w:
                    found[(hn, m)] = n
                    del want[(hn, m)]
        n += 1
    res = []
    for hn in hashes:
        for m in mods:
            c = found.get((hn, m))
            if c is not None and c not in res:
                res.append(c)
    _memo[key] = res
    return res
