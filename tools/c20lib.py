"""C20 helpers: build/run the goctl executor (module harness/goctlh) and render the executor's
canonical AST / token dumps as Gallina terms."""
import hashlib
import os
import re
import shutil

import vlib

GOCTLH = os.path.join(vlib.HARNESS, "goctlh")
STUBS = os.path.join(vlib.HARNESS, "stubs")
COVERPKG = "github.com/zeromicro/go-zero/tools/goctl/pkg/parser/api/..."


def modfile():
    """go.mod/go.sum for module goctlh generated from REPO (scratch worktrees via VERIF_REPO)."""
    repo = vlib.REPO
    d = os.path.join(vlib.ROOT, ".run", "goctlh-" + hashlib.sha256(repo.encode()).hexdigest()[:10])
    os.makedirs(d, exist_ok=True)
    text = """module goctlh

go 1.21

require (
	github.com/zeromicro/go-zero/tools/goctl v0.0.0
	github.com/zeromicro/go-zero v1.8.2
)

replace github.com/zeromicro/go-zero/tools/goctl => %s/tools/goctl
replace github.com/zeromicro/go-zero => %s
replace github.com/gookit/color => %s/color
replace github.com/fatih/structtag => %s/structtag
""" % (repo, repo, STUBS, STUBS)
    mod = os.path.join(d, "go.mod")
    if not os.path.exists(mod) or open(mod).read() != text:
        with open(mod, "w") as f:
            f.write(text)
    lines = set()
    for p in (os.path.join(repo, "go.sum"), os.path.join(repo, "tools", "goctl", "go.sum")):
        with open(p) as f:
            lines.update(l for l in f.read().split("\n") if l.strip())
    with open(os.path.join(d, "go.sum"), "w") as f:
        f.write("\n".join(sorted(lines)) + "\n")
    return mod


def build(race=False):
    race = race and not vlib.COVER
    out_bin = os.path.join(vlib.HARNESS, "bin", "c20" + ("-" + hashlib.sha256(vlib.REPO.encode()).hexdigest()[:6]
                                                          if vlib.REPO != "/repo" else "")
                           + ("-cover" if vlib.COVER else "") + ("-race" if race else ""))
    os.makedirs(os.path.dirname(out_bin), exist_ok=True)
    cmd = ["go", "build", "-modfile", modfile(), "-o", out_bin]
    if vlib.COVER:
        # tools/anchorcov.py: instrument goctl's api packages (and main, or nothing is emitted);
        # vlib.go_run sets GOCOVERDIR=$VERIF_COVER/bin for the run
        cmd += ["-cover", "-coverpkg=" + COVERPKG + ",goctlh/..."]
    if race:
        cmd.append("-race")
    cmd.append("./cmd/c20")
    rc, out = vlib.sh(cmd, cwd=GOCTLH, env=vlib.goenv({"CGO_ENABLED": "1"} if race else None), timeout=900)
    return (rc == 0), (out_bin if rc == 0 else out)


def run(binpath, cases, timeout=900):
    payload = [dict({"id": i, "src": c["src"], "muts": c.get("muts", [])},
                    **({"files": c["files"], "root": c["root"]} if c.get("files") else {})) for i, c in enumerate(cases)]
    return vlib.go_run(binpath, payload, tag="c20", timeout=timeout, env={"GORACE": "halt_on_error=1"})
