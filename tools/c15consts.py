"""C15: re-extract the constants of core/hash/consistenthash.go and the retry delays of
core/stores/cache/cleaner.go into coq/gen/C15Consts.v (rewritten only when the content changes, so `make`
stays incremental).

Robust against harmless rewrites: the constants are looked up in every non-test file of package hash (any
const / var form with an integer literal, optional type); when the text gives no literal they are MEASURED
on the binary (executor kind "consts": hash.TopWeight, the number of strings Add hashes on a ring created
with replicas 0, the prefix of innerRepr).  The formulas the model transcribes (h.replicas * weight /
TopWeight, the minReplicas clamp) and the cleaner's delay chain are recognised in several shapes; when a
shape is not recognised the extractor does NOT fail: it keeps the last extracted value, says so in a note,
and the correspondence run (AddWithWeight over many weights, rings created with replicas below the minimum,
first and second retry of the cluster scripts) decides.  It raises — a broken obligation — only when the text
and the binary contradict each other."""
import glob
import os
import re

import vlib

SRC = "core/hash/consistenthash.go"
PKG = "core/hash"
NAMES = ["TopWeight", "minReplicas", "prime"]
CLEANER = "core/stores/cache/cleaner.go"
UNIT = {"time.Second": 1, "time.Minute": 60, "time.Hour": 3600}
OVERLAY = {"core/stores/cache/zz_verif_c15.go": os.path.join(vlib.HARNESS, "overlay", "cache", "zz_verif_c15.go")}
GEN = os.path.join(vlib.COQ, "gen", "C15Consts.v")


def _strip_comments(src):
    src = re.sub(r"/\*.*?\*/", " ", src, flags=re.S)
    return re.sub(r"//[^\n]*", "", src)


def _pkg_sources():
    res = []
    for path in sorted(glob.glob(os.path.join(vlib.REPO, PKG, "*.go"))):
        if not path.endswith("_test.go"):
            res.append(_strip_comments(open(path).read()))
    return res


def _literal(name, sources):
    """integer literal a package-level const / var `name` is defined with, or None"""
    pat = re.compile(r"(?:^|[\s(;])%s(?:[ \t]+[A-Za-z_][A-Za-z0-9_.]*)?[ \t]*=[ \t]*([0-9][0-9_]*|0[xX][0-9a-fA-F_]+)[ \t]*(?:$|[\n;)])" % re.escape(name), re.M)
    found = set()
    for src in sources:
        for m in pat.finditer(src):
            found.add(int(m.group(1).replace("_", ""), 0))
    return found.pop() if len(found) == 1 else None


def _measured():
    """the constants as the binary has them (executor kind "consts")"""
    ok, res = vlib.go_build("c15", overlay=OVERLAY)
    if not ok:
        return None
    rc, out, rs = vlib.go_run(res, [{"id": 0, "kind": "consts"}], tag="c15", timeout=300)
    if rc != 0 or len(rs) != 1 or not rs[0].get("rx"):
        return None
    row = rs[0]["rx"][0]
    try:
        return dict(zip(NAMES, [int(x) for x in row]))
    except ValueError:
        return None


def _previous():
    """the values of the last generated file: {name: int}, [delays]"""
    try:
        text = open(GEN).read()
    except OSError:
        return {}, None
    vals = {n: int(m.group(1)) for n in NAMES for m in [re.search(r"Definition %s : Z := ([0-9]+)\." % n, text)] if m}
    m = re.search(r"Definition cleanDelays : list Z := \[([0-9; ]*)\]\.", text)
    return vals, ([int(x) for x in m.group(1).split(";") if x.strip()] if m else None)


def regen():
    notes = []
    sources = _pkg_sources()
    vals = {n: _literal(n, sources) for n in NAMES}
    if any(v is None for v in vals.values()):
        missing = [n for n in NAMES if vals[n] is None]
        meas = _measured()
        if meas is None:
            raise RuntimeError("c15consts: %s of package hash are not integer literals and could not be measured" % missing)
        for n in NAMES:
            if vals[n] is not None and vals[n] != meas[n]:
                raise RuntimeError("c15consts: %s is %d in the source text and %d in the binary" % (n, vals[n], meas[n]))
            vals[n] = meas[n]
        notes.append("C15Consts: %s not found as integer literals in %s/*.go - measured on the binary" % (", ".join(missing), PKG))
    # the two formulas the model transcribes: recognised textually, else left to the correspondence run
    joined = "\n".join(sources)
    for pat, what in ((r"h\.replicas\s*\*\s*weight\s*/\s*TopWeight|weight\s*\*\s*h\.replicas\s*/\s*TopWeight", "AddWithWeight: h.replicas * weight / TopWeight"),
                      (r"<\s*minReplicas\s*\{\s*[A-Za-z_][A-Za-z0-9_]*\s*=\s*minReplicas|max\(\s*[A-Za-z_][A-Za-z0-9_]*\s*,\s*minReplicas\s*\)|max\(\s*minReplicas\s*,", "NewCustomConsistentHash: replicas clamped to minReplicas")):
        if not re.search(pat, joined):
            notes.append("C15Consts: formula not recognised in the text (%s) - judged by the correspondence run only" % what)
    prev_vals, prev_delays = _previous()
    try:
        delays, interval = cleaner_delays()
    except RuntimeError as e:
        if not prev_delays:
            raise
        delays, interval = prev_delays, 1
        notes.append("C15Consts: %s - kept the last extracted chain %s (the cluster scripts observe the first and the second retry)" % (e, delays))
    text = "(* GENERATED by tools/c15consts.py from %s and %s - do not edit *)\nFrom Coq Require Import ZArith List.\nImport ListNotations.\nOpen Scope Z_scope.\n\n" % (SRC, CLEANER)
    for n in NAMES:
        text += "Definition %s : Z := %d.\n" % (n, vals[n])
    text += ("\n(* %s: the delay AddCleanTask schedules a failed DEL with, followed by the chain of nextDelay, in ticks\n"
             "   of the cleaner's timing wheel (interval %d s) *)\n" % (CLEANER, interval))
    text += "Definition cleanDelays : list Z := [%s].\n" % "; ".join(str(d) for d in delays)
    old = open(GEN).read() if os.path.exists(GEN) else None
    if old != text:
        with open(GEN, "w") as f:
            f.write(text)
    return ["C15Consts: " + ", ".join("%s=%d" % (n, vals[n]) for n in NAMES) + ", cleanDelays=%s" % delays] + notes


def _dur(expr):
    """seconds of a Go duration expression of the forms time.X / time.X * n / n * time.X"""
    parts = [p.strip() for p in expr.strip().strip("()").split("*")]
    v = 1
    seen_unit = False
    for p in parts:
        if p in UNIT:
            v *= UNIT[p]
            seen_unit = True
        elif re.fullmatch(r"[0-9_]+", p):
            v *= int(p.replace("_", ""))
        else:
            raise RuntimeError("cannot read the duration %r in %s" % (expr, CLEANER))
    if not seen_unit:
        raise RuntimeError("duration %r without a unit in %s" % (expr, CLEANER))
    return v


def _func_body(src, name):
    m = re.search(r"func %s\(" % re.escape(name), src)
    if not m:
        return None
    i = src.index("{", m.end())
    depth, j = 0, i
    while j < len(src):
        if src[j] == "{":
            depth += 1
        elif src[j] == "}":
            depth -= 1
            if depth == 0:
                return src[i + 1:j]
        j += 1
    return None


def cleaner_delays():
    """[first delay, nextDelay(first), nextDelay(that), ...] in ticks of the wheel, and the wheel interval (s)."""
    src = _strip_comments(open(os.path.join(vlib.REPO, CLEANER)).read())
    m = re.search(r"NewTimingWheel(?:WithTicker)?\(\s*([^,]+),", src)
    if not m:
        raise RuntimeError("the cleaner's NewTimingWheel(interval, ...) not found in " + CLEANER)
    interval = _dur(m.group(1))
    body = _func_body(src, "AddCleanTask")
    m = re.search(r"\bdelay:\s*([^,\n}]+)", body or "")
    if not m:
        raise RuntimeError("AddCleanTask's delayTask{delay: d} not found in " + CLEANER)
    first = _dur(m.group(1))
    after = re.search(r"\}\s*,\s*([^)\n]+)\)", body[m.end():])
    if not after or _dur(after.group(1)) != first:
        raise RuntimeError("AddCleanTask no longer schedules delayTask{delay: d} after the same d in " + CLEANER)
    body = _func_body(src, "nextDelay")
    if body is None:
        raise RuntimeError("func nextDelay not found in " + CLEANER)
    nxt = {}
    for cm in re.finditer(r"case\s+([^:\n]+):\s*return\s+([^,\n]+),\s*true", body):
        nxt[_dur(cm.group(1))] = _dur(cm.group(2))
    for cm in re.finditer(r"==\s*([^{\n]+?)\s*\{\s*return\s+([^,\n]+),\s*true", body):
        nxt[_dur(cm.group(1))] = _dur(cm.group(2))
    if not nxt or len(nxt) != len(re.findall(r"return\s+[^,\n]+,\s*true", body)) or not re.search(r"return\s+0\s*,\s*false", body):
        raise RuntimeError("nextDelay is not a chain of `d -> d', true` steps ending in `0, false` in " + CLEANER)
    chain = [first]
    while chain[-1] in nxt:
        if nxt[chain[-1]] in chain:
            raise RuntimeError("nextDelay loops")
        chain.append(nxt[chain[-1]])
    if any(d % interval for d in chain):
        raise RuntimeError("a retry delay is not a multiple of the wheel interval")
    return [d // interval for d in chain], interval
