"""Regenerate the machine-written parts of DESIGN.md (between <!-- BEGIN:x --> / <!-- END:x --> markers):
   asbuilt  - per-property table from registry, evidence, Props.v
   seeded   - table of seeded changes and whether the checks catch them
   findings - KNOWN_FINDINGS.jsonl rendered
"""
import glob
import importlib
import json
import os
import re
import sys

sys.path.insert(0, os.path.dirname(os.path.abspath(__file__)))
import vlib  # noqa
import registry  # noqa

ROOT = vlib.ROOT


def asbuilt():
    rows = ["| Prop | theorems in Props.v | obligations (discharged) | quick cases | quick wall s | model / proof files (lines) |",
            "|---|---|---|---|---|---|"]
    for pid in ["C%02d" % i for i in range(1, 21)]:
        if pid not in registry.PROPS:
            rows.append("| %s | not registered | | | | |" % pid)
            continue
        P = importlib.import_module("props." + pid.lower()).PROPERTY
        P._defaults()
        thms = [n for (f, k, n) in vlib.coq_obligations(["theories/%s/Props.v" % P.coq_dir]) if k == "Theorem"]
        ev = {}
        try:
            ev = json.load(open(os.path.join(ROOT, "evidence", pid + ".json")))
        except Exception:
            pass
        cov = ev.get("coverage", {})
        lines = 0
        for f in glob.glob(os.path.join(vlib.COQ, "theories", P.coq_dir, "*.v")):
            lines += sum(1 for _ in open(f))
        rows.append("| %s | %d: %s | %s (%s) | %s | %s | %d |" % (
            pid, len(thms), ", ".join("`%s`" % t for t in thms[:40]),
            cov.get("obligations", "?"), cov.get("discharged", "?"), cov.get("evaluations", "?"),
            ev.get("wall_s", "?"), lines))
    return "\n".join(rows)


def seeded():
    rows = ["| Seed | Prop | what the change does | needs | existing tests | detected by `./check` | check s |",
            "|---|---|---|---|---|---|---|"]
    for d in sorted(glob.glob(os.path.join(ROOT, "seeded", "*"))):
        try:
            m = json.load(open(os.path.join(d, "meta.json")))
        except Exception:
            continue
        c = m.get("confirmed", {})

        def cut(s, n):
            s = " ".join(str(s).split()).replace("|", "/")
            return s if len(s) <= n else s[:n - 1] + "…"
        rows.append("| %s | %s | %s | %s | %s | %s | %s |" % (
            os.path.basename(d), m.get("property"), cut(m.get("summary", ""), 260), cut(m.get("needs", ""), 200),
            c.get("existing_tests", "?"),
            ("**yes** (%d VIOLATION lines, shrunk replays)" % len([l for l in c.get("check_lines", []) if l.startswith("VIOLATION")])) if c.get("detected") else ("**no**" if "detected" in c else "?"),
            c.get("check_s", "?")))
    return "\n".join(rows)


def findings():
    rows = ["| kind | Prop | id | commit | what |", "|---|---|---|---|---|"]
    for e in vlib.load_known():
        rows.append("| %s | %s | %s | %s | %s |" % (e.get("kind"), e.get("property"), e.get("id"), e.get("commit", ""),
                                                 " ".join(e.get("what", "").split()).replace("|", "/")))
    return "\n".join(rows)


def main():
    p = os.path.join(ROOT, "DESIGN.md")
    s = open(p).read()
    for name, fn in (("asbuilt", asbuilt), ("seeded", seeded), ("findings", findings)):
        b, e = "<!-- BEGIN:%s -->" % name, "<!-- END:%s -->" % name
        if b in s and e in s:
            s = s[:s.index(b) + len(b)] + "\n" + fn() + "\n" + s[s.index(e):]
    open(p, "w").write(s)


if __name__ == "__main__":
    main()
