if redis.call("GET", KEYS[1]) == ARGV[1] then
    redis.call("EXPIRE", KEYS[1], ARGV[2])
    return "OK"
else
    return redis.call("SET", KEYS[1], ARGV[1], "NX", "PX", ARGV[2])
end
