return redis.call("DEL", KEYS[1])
