#!/usr/bin/env python3
"""neutraltest - the regression corpus of HARMLESS rewrites of go-zero's four Redis scripts.

Every translate/neutral/<family>_*.lua (family = period | token | lock | del) computes the same thing as the
script of that family in the tree, written differently (renamed locals, white space, comments, semicolons,
parentheses, tonumber moved, expressions split into locals, operands exchanged, early returns, `x or d`,
multiple assignment ...).  Each one is translated by lua2coq.py and must be proved to meet the SAME
specification by the SAME tactic line that GenProofs.v uses for today's script
(C03.GenProofs.period_script_meets / period_script_tac, ...).  A failure means that the proof scripts depend on
the text of a script: a future harmless rewrite in go-zero would then alarm.

usage: python3 translate/neutraltest.py [file.lua ...]        (needs coq/theories/C03,C19/GenProofs.vo built)
An instrument like tools/anchorcov.py, not part of ./check (about 90 s of Coq): run it after touching Lib/LuaExec.v,
the GenProofs.v files or the translator.
"""
import glob
import os
import subprocess
import sys

HERE = os.path.dirname(os.path.abspath(__file__))
ROOT = os.path.dirname(HERE)
sys.path.insert(0, HERE)
import lua2coq  # noqa: E402

FAMILY = {"period": "C03", "token": "C03", "lock": "C19", "del": "C19"}


def run(files=None, coqdir=None, keep=False):
    coqdir = coqdir or os.path.join(ROOT, "coq")
    files = files or sorted(glob.glob(os.path.join(HERE, "neutral", "*.lua")))
    work = os.path.join(ROOT, ".run", "neutral-%d" % os.getpid())
    os.makedirs(work, exist_ok=True)
    errs, done = [], []
    try:
        for f in files:
            name = os.path.basename(f)[:-4]
            fam = name.split("_")[0]
            if fam not in FAMILY:
                errs.append("%s: unknown family" % name)
                continue
            mod = "N_" + name
            try:
                lua2coq.translate_file(f, mod, os.path.join(work, mod + ".v"))
            except lua2coq.Unsupported as e:
                errs.append("%s: outside the translator's subset: %s" % (name, e))
                continue
            proof = "\n".join([
                "From Coq Require Import List ZArith String QArith Bool Lia ZifyBool.",
                "From GZ Require Import Lib.RedisStore Lib.RedisStoreFacts Lib.LuaExec %s.GenProofs." % FAMILY[fam],
                "From NEUTRAL Require %s." % mod,
                "Import ListNotations.", "Open Scope Z_scope.",
                "Lemma neutral : %s_script_meets %s.script." % (fam, mod),
                "Proof. %s_script_tac. Qed." % fam, ""])
            with open(os.path.join(work, "P_" + name + ".v"), "w") as fh:
                fh.write(proof)
            for v in (mod + ".v", "P_" + name + ".v"):
                p = subprocess.run(["timeout", "600", "coqc", "-Q", "theories", "GZ", "-Q", "gen", "GZgen", "-Q", work, "NEUTRAL",
                                    os.path.join(work, v)], cwd=coqdir, stdout=subprocess.PIPE, stderr=subprocess.STDOUT, text=True)
                if p.returncode != 0:
                    errs.append("%s: %s does not check:\n%s" % (name, v, p.stdout[-1200:]))
                    break
            else:
                done.append(name)
    finally:
        if not keep:
            subprocess.run(["rm", "-rf", work])
    return done, errs


if __name__ == "__main__":
    done, errs = run([os.path.abspath(a) for a in sys.argv[1:]] or None)
    for e in errs:
        print("neutraltest: " + e)
    print("neutraltest: %d rewrites re-proved (%s), %d failed" % (len(done), " ".join(done), len(errs)))
    sys.exit(1 if errs else 0)
