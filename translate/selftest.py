#!/usr/bin/env python3
"""Self-test of lua2coq: (a) golden translations of tiny snippets (hand-reviewed Gallina),
(b) snippets outside the subset must be rejected loudly, (c) [--coq] the translated snippets are
compiled and evaluated in Coq on concrete stores against hand-computed replies.
Exit status 0 = all good.  Used by tools/props/c19.py (regen) on every run ((c) in thorough)."""
import os
import subprocess
import sys

sys.path.insert(0, os.path.dirname(os.path.abspath(__file__)))
import lua2coq  # noqa: E402

GOLDEN = [
    ("eq", 'return ARGV[1] == KEYS[1]',
     """  ret (lua_eq (index ARGV 1) (index KEYS 1))."""),
    ("join", 'local a = tonumber(ARGV[1])\nlocal b = a + 1\nif b > 2 then\n  a = b * 2\nend\nreturn a',
     """  let v_a := (lua_tonumber (index ARGV 1)) in
  t1 <- lua_add v_a (znum 1) ;;
  let v_b := t1 in
  v_a <- (
    t2 <- lua_gt v_b (znum 2) ;;
    if truthy t2 then (
      t3 <- lua_mul v_b (znum 2) ;;
      let v_a := t3 in
      ret v_a
    ) else (
      ret v_a
    )
  ) ;;
  ret v_a."""),
    ("early", 'if redis.call("EXISTS", KEYS[1]) == 1 then\n  return 1\nend\nredis.call("set", KEYS[1], "x", "EX", 5)\nreturn 0',
     """  t1 <- redis_call EXISTS [(index KEYS 1)] ;;
  if truthy (lua_eq t1 (znum 1)) then (
    ret (znum 1)
  ) else (
    t2 <- redis_call SET [(index KEYS 1); (LStr (BStr "x")); (LStr (BStr "EX")); (znum 5)] ;;
    ret (znum 0)
  )."""),
    ("andor", 'local x = ARGV[1] and ARGV[2] or "d"\nreturn not x',
     """  let t1 := (index ARGV 1) in
  let t2 := (if truthy t1 then (index ARGV 2) else t1) in
  let t3 := t2 in
  let t4 := (if negb (truthy t3) then (LStr (BStr "d")) else t3) in
  let v_x := t4 in
  ret (lua_not v_x)."""),
    ("elseif", 'local n = tonumber(ARGV[1])\nif n < 0 then\n  return -n\nelseif n == 0 then\n  return nil\nend',
     """  let v_n := (lua_tonumber (index ARGV 1)) in
  t1 <- lua_lt v_n (znum 0) ;;
  if truthy t1 then (
    t2 <- lua_neg v_n ;;
    ret t2
  ) else (
    if truthy (lua_eq v_n (znum 0)) then (
      ret LNil
    ) else (
      ret LNil
    )
  )."""),
    ("ceil", 'return math.ceil(tonumber(ARGV[1]) / 2.5)',
     """  t1 <- lua_div (lua_tonumber (index ARGV 1)) (LNum (25 # 10)) ;;
  t2 <- lua_ceil t1 ;;
  ret t2."""),
    ("swap", '--[==[ a long\ncomment ]==]\nlocal a, b = tonumber(ARGV[1]), ARGV[2]; a, b = b, a;\nreturn a - b;',
     """  let t1 := (lua_tonumber (index ARGV 1)) in
  let t2 := (index ARGV 2) in
  let v_a := t1 in
  let v_b := t2 in
  let t3 := v_b in
  let t4 := v_a in
  let v_a := t3 in
  let v_b := t4 in
  t5 <- lua_sub v_a v_b ;;
  ret t5."""),
    ("numstr", 'return redis.call("INCRBY", KEYS[1], "7")',
     """  t1 <- redis_call INCRBY [(index KEYS 1); (LStr (BInt 7))] ;;
  ret t1."""),
]

REJECT = [
    ("global assignment", 'x = 1\nreturn x'),
    ("undeclared variable", 'return y'),
    ("shadowed KEYS", 'local KEYS = ARGV\nreturn KEYS[1]'),
    ("shadowed redis", 'local redis = 1\nreturn 1'),
    ("assignment to tonumber", 'tonumber = 1\nreturn 1'),
    ("unknown command", 'return redis.call("HGET", KEYS[1], "f")'),
    ("dynamic command", 'return redis.call(ARGV[1], KEYS[1])'),
    ("dynamic index", 'local i = 1\nreturn KEYS[i]'),
    ("for loop", 'for i = 1, 3 do end\nreturn 1'),
    ("while loop", 'while true do end'),
    ("function", 'local f = function() return 1 end\nreturn f()'),
    ("table constructor", 'return {1, 2}'),
    ("method call", 'return ARGV[1]:len()'),
    ("length operator", 'return #ARGV'),
    ("modulo", 'return 5 % 2'),
    ("multiple return", 'return 1, 2'),
    ("unbalanced multiple assignment", 'local a, b = 1\nreturn a'),
    ("multiple assignment to a global", 'local a = 1\na, b = 2, 3\nreturn a'),
    ("name twice in one local", 'local a, a = 1, 2\nreturn a'),
    ("statement after return", 'return 1\nlocal x = 2'),
    ("redis.sha1hex", 'return redis.sha1hex("x")'),
    ("math.random", 'return math.random(3)'),
    ("string escape", 'return "a\\n"'),
    ("long string", 'return [[x]]'),
    ("bare call", 'tonumber(ARGV[1])\nreturn 1'),
]

# (golden name, store as Coq term without the expiry convention, ARGV bulks, expected reply[, expiry_inclusive = true])
EVAL = [
    ("join", "mkR 0 []", ["BInt 5"], "RInt 12"),
    ("join", "mkR 0 []", ["BInt 1"], "RInt 1"),
    ("join", "mkR 0 []", ['BStr "zz"'], "RErr EType"),
    ("early", "mkR 0 []", [], "RInt 0"),
    ("early", 'mkR 0 [(BStr "k", mkEntry (BInt 1) None)]', [], "RInt 1"),
    ("early", 'mkR 9 [(BStr "k", mkEntry (BInt 1) (Some 9))]', [], "RInt 0"),
    ("early", 'mkR 9 [(BStr "k", mkEntry (BInt 1) (Some 9))]', [], "RInt 1", "false"),   # real Redis: gone one ms later
    ("early", 'mkR 10 [(BStr "k", mkEntry (BInt 1) (Some 9))]', [], "RInt 0", "false"),
    ("andor", "mkR 0 []", ['BStr "a"', 'BStr "b"'], "RNil"),
    ("andor", "mkR 0 []", [], "RNil"),
    ("elseif", "mkR 0 []", ["BInt (-3)"], "RInt 3"),
    ("elseif", "mkR 0 []", ["BInt 0"], "RNil"),
    ("elseif", "mkR 0 []", ["BInt 4"], "RNil"),
    ("ceil", "mkR 0 []", ["BInt 5"], "RInt 2"),
    ("ceil", "mkR 0 []", ["BInt 6"], "RInt 3"),
    ("numstr", 'mkR 0 [(BStr "k", mkEntry (BInt 35) (Some 5))]', [], "RInt 42"),
    ("numstr", 'mkR 0 [(BStr "k", mkEntry (BStr "x") None)]', [], "RErr ENotInt"),
    ("swap", "mkR 0 []", ["BInt 3", "BInt 10"], "RInt 7"),         # b - a, the string "10" coerced by the subtraction
    ("swap", "mkR 0 []", ["BInt 3", 'BStr "x"'], "RErr EType"),
    ("eq", "mkR 0 []", ['BStr "k"'], "RInt 1"),
    ("eq", "mkR 0 []", ['BStr "j"'], "RNil"),
]


def body(text):
    return text[text.index("Definition script"):].split("\n", 1)[1].rstrip("\n")


def run(coq=False, coqdir=None):
    errs = []
    for name, src, want in GOLDEN:
        try:
            got = body(lua2coq.translate(src, "T"))
        except lua2coq.Unsupported as e:
            errs.append("golden %s: rejected: %s" % (name, e))
            continue
        if got != want:
            errs.append("golden %s: translation changed:\n%s\n--- expected ---\n%s" % (name, got, want))
    for name, src in REJECT:
        try:
            lua2coq.translate(src, "T")
            errs.append("reject %s: accepted %r" % (name, src))
        except lua2coq.Unsupported:
            pass
    if coq and not errs:
        lines = ["From Coq Require Import List ZArith String QArith.",
                 "From GZ Require Import Lib.RedisStore.", "Import ListNotations.",
                 "Open Scope string_scope.", "Open Scope Z_scope.", "Open Scope lua_scope."]
        for name, src, _ in GOLDEN:
            lines.append("Definition s_%s (KEYS ARGV : list lval) : M lval :=" % name)
            lines.append(body(lua2coq.translate(src, "T")))
        lines.append("Close Scope lua_scope.")
        for i, ev in enumerate(EVAL):
            name, st, argv, want = ev[:4]
            incl = ev[4] if len(ev) > 4 else "true"
            lines.append('Example e%d : fst (eval s_%s [BStr "k"] [%s] (%s %s)) = %s. Proof. vm_compute. reflexivity. Qed.'
                         % (i, name, "; ".join(argv), st, incl, want))
        d = os.path.join(coqdir, "cases")
        os.makedirs(d, exist_ok=True)
        base = os.path.join(d, "lua2coq_selftest_%d" % os.getpid())
        with open(base + ".v", "w") as f:
            f.write("\n".join(lines) + "\n")
        p = subprocess.run(["timeout", "300", "coqc", "-Q", "theories", "GZ", "-Q", "gen", "GZgen",
                            os.path.relpath(base + ".v", coqdir)], cwd=coqdir,
                           stdout=subprocess.PIPE, stderr=subprocess.STDOUT, text=True)
        for ext in (".v", ".vo", ".vok", ".vos", ".glob"):
            try:
                os.remove(base + ext)
            except OSError:
                pass
        try:
            os.remove(os.path.join(d, ".lua2coq_selftest_%d.aux" % os.getpid()))
        except OSError:
            pass
        if p.returncode != 0:
            errs.append("coq evaluation of translated snippets failed:\n" + p.stdout[-1500:])
    return errs


if __name__ == "__main__":
    root = os.path.dirname(os.path.dirname(os.path.abspath(__file__)))
    es = run(coq="--coq" in sys.argv, coqdir=os.path.join(root, "coq"))
    for e in es:
        print("lua2coq selftest: " + e)
    print("lua2coq selftest: %d golden, %d rejected, %s: %s"
          % (len(GOLDEN), len(REJECT), "%d evaluated in Coq" % len(EVAL) if "--coq" in sys.argv else "no Coq run",
             "FAILED" if es else "ok"))
    sys.exit(1 if es else 0)
