#!/usr/bin/env python3
"""lua2coq — translate the tiny Lua subset used by go-zero's Redis scripts into a shallow
Gallina embedding over coq/theories/Lib/RedisStore.v.

Supported (everything else raises Unsupported = the translator FAILS LOUDLY):
  local x = e | x = e (x a declared local) | if/elseif/else/end | return e | redis.call(...) as
  a statement; expressions: numbers, strings, nil/true/false, locals, KEYS[n], ARGV[n],
  + - * / unary -, < <= > >= == ~=, and or not, .., tonumber, tostring,
  math.max/min (2 args), math.floor/ceil, redis.call / redis.pcall with a literal command name
  among GET SET SETEX DEL INCRBY EXPIRE EXISTS.

Translation scheme:
  * every script becomes  Definition script (KEYS ARGV : list lval) : M lval.
  * total operators (== ~= not tonumber KEYS[i] literals) are pure terms; partial ones
    (arithmetic, order, math.*, redis.*) are monadic and are let-bound in evaluation order
    (A-normal form), so Lua's left-to-right evaluation order is kept.
  * assignment = shadowing; an `if` without `return` inside is a join returning the tuple of
    the outer locals assigned in its branches; an `if` with a `return` inside gets the rest of
    the enclosing block copied into every branch that can fall through (Lua: `return` is always
    last in its block), so early returns need no exceptions.
  * falling off the end of the script returns nil.

usage: lua2coq.py <script.lua> <ModuleName> <out.v>     (writes only when content changed)
"""
import hashlib
import os
import re
import sys


class Unsupported(Exception):
    pass


# names with a fixed meaning in the subset: a local (or assignment) with one of these names would
# silently change what KEYS[1], redis.call, tonumber ... mean
RESERVED = {"KEYS", "ARGV", "redis", "math", "tonumber", "tostring", "string", "table", "cjson",
            "pcall", "error", "type", "unpack", "select", "next", "pairs", "ipairs", "_G"}


# ------------------------------------------------------------------------------- lexer
KEYWORDS = {"local", "if", "then", "elseif", "else", "end", "return", "and", "or", "not",
            "nil", "true", "false",
            # recognised only to be rejected
            "function", "for", "while", "repeat", "until", "do", "break", "in", "goto"}

TOKEN_RE = re.compile(r"""
    (?P<ws>\s+)
  | (?P<lcomment>--\[(?P<lc_eq>=*)\[.*?\](?P=lc_eq)\])
  | (?P<comment>--[^\n]*)
  | (?P<number>\d+\.\d+|\d+)
  | (?P<name>[A-Za-z_][A-Za-z0-9_]*)
  | (?P<string>"(?:[^"\\\n])*"|'(?:[^'\\\n])*')
  | (?P<op>==|~=|<=|>=|\.\.|[-+*/<>=(),;\[\].])
""", re.X | re.S)


def lex(src):
    toks = []
    i = 0
    line = 1
    while i < len(src):
        m = TOKEN_RE.match(src, i)
        if not m:
            raise Unsupported("line %d: cannot tokenise %r" % (line, src[i:i + 20]))
        kind = m.lastgroup
        if kind == "lc_eq":
            kind = "lcomment"
        text = m.group(kind)
        if kind in ("ws", "comment", "lcomment"):
            pass
        elif kind == "name" and text in KEYWORDS:
            toks.append(("kw", text, line))
        elif kind == "string":
            toks.append(("string", text[1:-1], line))
        else:
            toks.append((kind, text, line))
        line += text.count("\n")
        i = m.end()
    toks.append(("eof", "", line))
    return toks


# ------------------------------------------------------------------------------- parser -> AST
class Parser:
    def __init__(self, toks):
        self.t = toks
        self.i = 0

    def peek(self):
        return self.t[self.i]

    def next(self):
        tok = self.t[self.i]
        self.i += 1
        return tok

    def at(self, kind, text=None):
        k, x, _ = self.peek()
        return k == kind and (text is None or x == text)

    def expect(self, kind, text=None):
        k, x, ln = self.next()
        if k != kind or (text is not None and x != text):
            raise Unsupported("line %d: expected %s %s, got %s %r" % (ln, kind, text or "", k, x))
        return x

    def err(self, msg):
        raise Unsupported("line %d: %s" % (self.peek()[2], msg))

    def block(self, terms):
        stats = []
        while True:
            while self.at("op", ";"):          # empty statements / separators
                self.next()
            k, x, ln = self.peek()
            if k == "eof" or (k == "kw" and x in terms):
                return stats
            if k == "kw" and x == "return":
                self.next()
                k2, x2, _ = self.peek()
                if k2 == "eof" or (k2 == "kw" and x2 in terms):
                    e = ("nil",)
                else:
                    e = self.exp()
                if self.at("op", ","):
                    self.err("multiple return values are not supported")
                stats.append(("return", e))
                if self.at("op", ";"):
                    self.next()
                k3, x3, _ = self.peek()
                if not (k3 == "eof" or (k3 == "kw" and x3 in terms)):
                    self.err("statement after return")
                return stats
            stats.append(self.stat())

    def stat(self):
        k, x, ln = self.peek()
        if k == "kw" and x == "local":
            self.next()
            names = [self.expect("name")]
            while self.at("op", ","):
                self.next()
                names.append(self.expect("name"))
            for name in names:
                if name in RESERVED:
                    self.err("local %s shadows a built-in name" % name)
            if len(set(names)) != len(names):
                self.err("a name occurs twice in one local statement")
            if self.at("op", "="):
                self.next()
                es = self.explist()
            else:
                es = [("nil",)] * len(names)
            if len(names) == 1 and len(es) == 1:
                return ("local", names[0], es[0])
            if len(es) != len(names):
                # a call could deliver several values, surplus values are dropped, missing ones are nil:
                # none of that is needed by a Redis script - outside the subset
                self.err("multiple assignment with %d names and %d values is not supported" % (len(names), len(es)))
            return ("mlocal", names, es)
        if k == "kw" and x == "if":
            self.next()
            arms = []
            c = self.exp()
            self.expect("kw", "then")
            b = self.block({"elseif", "else", "end"})
            arms.append((c, b))
            els = None
            while True:
                k2, x2, _ = self.next()
                if x2 == "elseif":
                    c = self.exp()
                    self.expect("kw", "then")
                    b = self.block({"elseif", "else", "end"})
                    arms.append((c, b))
                elif x2 == "else":
                    els = self.block({"end"})
                    self.expect("kw", "end")
                    break
                elif x2 == "end":
                    break
                else:
                    self.err("malformed if")
            return ("if", arms, els)
        if k == "name":
            # assignment or call statement
            if self.t[self.i + 1][0] == "op" and self.t[self.i + 1][1] == ",":
                names = [self.next()[1]]
                while self.at("op", ","):
                    self.next()
                    names.append(self.expect("name"))
                for name in names:
                    if name in RESERVED:
                        self.err("assignment to built-in name %s" % name)
                if len(set(names)) != len(names):
                    self.err("a name occurs twice on the left of one assignment")
                self.expect("op", "=")
                es = self.explist()
                if len(es) != len(names):
                    self.err("multiple assignment with %d names and %d values is not supported" % (len(names), len(es)))
                return ("massign", names, es)
            if self.t[self.i + 1][0] == "op" and self.t[self.i + 1][1] == "=":
                name = self.next()[1]
                if name in RESERVED:
                    self.err("assignment to built-in name %s" % name)
                self.next()
                return ("assign", name, self.exp())
            e = self.exp()
            if e[0] not in ("rcall",):
                self.err("only redis.call/pcall may be used as a statement")
            return ("exprstat", e)
        self.err("unsupported statement starting with %s %r" % (k, x))

    def explist(self):
        es = [self.exp()]
        while self.at("op", ","):
            self.next()
            es.append(self.exp())
        return es

    # precedence climbing (Lua: or < and < comparison < .. < +- < */ < unary)
    def exp(self):
        return self.e_or()

    def e_or(self):
        a = self.e_and()
        while self.at("kw", "or"):
            self.next()
            a = ("or", a, self.e_and())
        return a

    def e_and(self):
        a = self.e_cmp()
        while self.at("kw", "and"):
            self.next()
            a = ("and", a, self.e_cmp())
        return a

    def e_cmp(self):
        a = self.e_cat()
        while self.peek()[0] == "op" and self.peek()[1] in ("==", "~=", "<", "<=", ">", ">="):
            op = self.next()[1]
            a = ("bin", op, a, self.e_cat())
        return a

    def e_cat(self):
        a = self.e_add()
        if self.at("op", ".."):
            self.next()
            return ("bin", "..", a, self.e_cat())      # right associative
        return a

    def e_add(self):
        a = self.e_mul()
        while self.peek()[0] == "op" and self.peek()[1] in ("+", "-"):
            op = self.next()[1]
            a = ("bin", op, a, self.e_mul())
        return a

    def e_mul(self):
        a = self.e_un()
        while self.peek()[0] == "op" and self.peek()[1] in ("*", "/"):
            op = self.next()[1]
            a = ("bin", op, a, self.e_un())
        return a

    def e_un(self):
        if self.at("kw", "not"):
            self.next()
            return ("not", self.e_un())
        if self.at("op", "-"):
            self.next()
            return ("neg", self.e_un())
        return self.primary()

    def args(self):
        self.expect("op", "(")
        res = []
        if not self.at("op", ")"):
            res.append(self.exp())
            while self.at("op", ","):
                self.next()
                res.append(self.exp())
        self.expect("op", ")")
        return res

    def primary(self):
        k, x, ln = self.next()
        if k == "number":
            return ("num", x)
        if k == "string":
            return ("str", x)
        if k == "kw" and x in ("nil", "true", "false"):
            return (x,)
        if k == "op" and x == "(":
            e = self.exp()
            self.expect("op", ")")
            return e
        if k == "name":
            if x in ("KEYS", "ARGV"):
                self.expect("op", "[")
                n = self.expect("number")
                if "." in n:
                    self.err("non-integer index")
                self.expect("op", "]")
                return ("index", x, int(n))
            if x in ("tonumber", "tostring"):
                a = self.args()
                if len(a) != 1:
                    self.err("%s takes one argument here" % x)
                return ("call1", x, a[0])
            if x == "math":
                self.expect("op", ".")
                f = self.expect("name")
                a = self.args()
                if f in ("max", "min") and len(a) == 2:
                    return ("math2", f, a[0], a[1])
                if f in ("floor", "ceil") and len(a) == 1:
                    return ("math1", f, a[0])
                self.err("unsupported math.%s/%d" % (f, len(a)))
            if x == "redis":
                self.expect("op", ".")
                f = self.expect("name")
                if f not in ("call", "pcall"):
                    self.err("unsupported redis.%s" % f)
                a = self.args()
                if not a or a[0][0] != "str":
                    self.err("redis.%s needs a literal command name" % f)
                name = a[0][1].upper()
                if name not in ("GET", "SET", "SETEX", "DEL", "INCRBY", "EXPIRE", "EXISTS"):
                    self.err("unsupported Redis command %s" % name)
                return ("rcall", f, name, a[1:])
            if self.at("op", "(") or self.at("op", "[") or self.at("op", "."):
                self.err("unsupported call/index on %s" % x)
            return ("var", x)
        raise Unsupported("line %d: unexpected %s %r" % (ln, k, x))


def parse(src):
    p = Parser(lex(src))
    b = p.block(set())
    if not p.at("eof"):
        p.err("trailing input")
    return b


# ------------------------------------------------------------------------------- code generation
def has_return(stats):
    for s in stats:
        if s[0] == "return":
            return True
        if s[0] == "if":
            if any(has_return(b) for _, b in s[1]) or (s[2] is not None and has_return(s[2])):
                return True
    return False


def assigned(stats, declared_here=None):
    """outer locals assigned in a block (not those declared in the block itself)"""
    local = set(declared_here or ())
    res = []
    for s in stats:
        if s[0] == "local":
            local.add(s[1])
        elif s[0] == "mlocal":
            local.update(s[1])
        elif s[0] == "assign":
            if s[1] not in local and s[1] not in res:
                res.append(s[1])
        elif s[0] == "massign":
            for v in s[1]:
                if v not in local and v not in res:
                    res.append(v)
        elif s[0] == "if":
            for _, b in s[1]:
                for v in assigned(b, local):
                    if v not in res:
                        res.append(v)
            if s[2] is not None:
                for v in assigned(s[2], local):
                    if v not in res:
                        res.append(v)
    return res


def coq_string(s):
    for ch in s:
        if ord(ch) < 32 or ord(ch) > 126:
            raise Unsupported("non-printable character in string literal")
    return '"' + s.replace('"', '""') + '"'


class Gen:
    def __init__(self):
        self.tmp = 0

    def fresh(self):
        self.tmp += 1
        return "t%d" % self.tmp

    def var(self, name, scope):
        if name not in scope:
            raise Unsupported("use of undeclared (global) variable %s" % name)
        return "v_" + name

    # returns (binds: list of lines "x <- m ;;" / "let x := e in", pure term)
    def exp(self, e, scope):
        k = e[0]
        if k == "num":
            if "." in e[1]:
                ip, fp = e[1].split(".")
                return [], "(LNum (%d # %d))" % (int(ip + fp), 10 ** len(fp))
            return [], "(znum %d)" % int(e[1])
        if k == "str":
            if re.fullmatch(r"-?(0|[1-9][0-9]*)", e[1]):
                n = int(e[1])
                return [], "(LStr (BInt %s))" % (("(%d)" % n) if n < 0 else str(n))
            return [], "(LStr (BStr %s))" % coq_string(e[1])
        if k == "nil":
            return [], "LNil"
        if k == "true":
            return [], "(LBool true)"
        if k == "false":
            return [], "(LBool false)"
        if k == "var":
            return [], self.var(e[1], scope)
        if k == "index":
            return [], "(index %s %d)" % (e[1], e[2])
        if k == "not":
            b, t = self.exp(e[1], scope)
            return b, "(lua_not %s)" % t
        if k == "neg":
            b, t = self.exp(e[1], scope)
            x = self.fresh()
            return b + ["%s <- lua_neg %s ;;" % (x, t)], x
        if k == "call1":
            b, t = self.exp(e[2], scope)
            if e[1] == "tonumber":
                return b, "(lua_tonumber %s)" % t
            x = self.fresh()
            return b + ["%s <- lift (lua_tostring %s) ;;" % (x, t)], x
        if k == "math1":
            b, t = self.exp(e[2], scope)
            x = self.fresh()
            return b + ["%s <- lua_%s %s ;;" % (x, e[1], t)], x
        if k == "math2":
            b1, t1 = self.exp(e[2], scope)
            b2, t2 = self.exp(e[3], scope)
            x = self.fresh()
            return b1 + b2 + ["%s <- lua_%s %s %s ;;" % (x, e[1], t1, t2)], x
        if k == "bin":
            op = e[1]
            b1, t1 = self.exp(e[2], scope)
            b2, t2 = self.exp(e[3], scope)
            if op == "==":
                return b1 + b2, "(lua_eq %s %s)" % (t1, t2)
            if op == "~=":
                return b1 + b2, "(lua_ne %s %s)" % (t1, t2)
            fn = {"+": "lua_add", "-": "lua_sub", "*": "lua_mul", "/": "lua_div", "<": "lua_lt",
                  "<=": "lua_le", ">": "lua_gt", ">=": "lua_ge", "..": "lua_concat"}[op]
            x = self.fresh()
            return b1 + b2 + ["%s <- %s %s %s ;;" % (x, fn, t1, t2)], x
        if k in ("and", "or"):
            b1, t1 = self.exp(e[1], scope)
            b2, t2 = self.exp(e[2], scope)
            a = self.fresh()
            x = self.fresh()
            first = b1 + ["let %s := %s in" % (a, t1)]
            cond = "truthy %s" % a if k == "and" else "negb (truthy %s)" % a
            if not b2:
                return first + ["let %s := (if %s then %s else %s) in" % (x, cond, t2, a)], x
            inner = " ".join(b2) + " ret %s" % t2
            return first + ["%s <- (if %s then (%s) else ret %s) ;;" % (x, cond, inner, a)], x
        if k == "rcall":
            binds = []
            terms = []
            for a in e[3]:
                b, t = self.exp(a, scope)
                binds += b
                terms.append(t)
            x = self.fresh()
            fn = "redis_call" if e[1] == "call" else "redis_pcall"
            return binds + ["%s <- %s %s [%s] ;;" % (x, fn, e[2], "; ".join(terms))], x
        raise Unsupported("unsupported expression node %r" % (k,))

    # tail block: type M lval, continuation = end of script
    def tail(self, stats, scope, ind):
        pad = "  " * ind
        out = []
        scope = set(scope)
        for i, s in enumerate(stats):
            k = s[0]
            rest = stats[i + 1:]
            if k == "return":
                b, t = self.exp(s[1], scope)
                out += [pad + l for l in b]
                out.append(pad + "ret %s" % t)
                return out
            if k == "if" and has_return([s]):
                out += self.tail_if(s, rest, scope, ind)
                return out
            out += self.simple(s, scope, ind)
        out.append(pad + "ret LNil")
        return out

    def tail_if(self, s, rest, scope, ind):
        pad = "  " * ind
        out = []
        arms, els = s[1], s[2]

        def branch(body):
            if body and body[-1][0] == "return":
                return body
            return list(body) + list(rest)

        def go(j, ind2):
            pad2 = "  " * ind2
            res = []
            if j == len(arms):
                return self.tail(branch(els if els is not None else []), scope, ind2)
            c, body = arms[j]
            b, t = self.exp(c, scope)
            res += [pad2 + l for l in b]
            res.append(pad2 + "if truthy %s then (" % t)
            res += self.tail(branch(body), scope, ind2 + 1)
            res.append(pad2 + ") else (")
            res += go(j + 1, ind2 + 1)
            res.append(pad2 + ")")
            return res

        return go(0, ind)

    # non-returning statement inside a sequence; updates scope
    def simple(self, s, scope, ind):
        pad = "  " * ind
        k = s[0]
        if k == "local":
            b, t = self.exp(s[2], scope)
            scope.add(s[1])
            return [pad + l for l in b] + [pad + "let v_%s := %s in" % (s[1], t)]
        if k == "assign":
            if s[1] not in scope:
                raise Unsupported("assignment to undeclared (global) variable %s" % s[1])
            b, t = self.exp(s[2], scope)
            return [pad + l for l in b] + [pad + "let v_%s := %s in" % (s[1], t)]
        if k in ("mlocal", "massign"):
            # all values are computed (left to right) before any name is (re)bound
            if k == "massign":
                for v in s[1]:
                    if v not in scope:
                        raise Unsupported("assignment to undeclared (global) variable %s" % v)
            lines, tmps = [], []
            for e in s[2]:
                b, t = self.exp(e, scope)
                x = self.fresh()
                lines += [pad + l for l in b] + [pad + "let %s := %s in" % (x, t)]
                tmps.append(x)
            for v, x in zip(s[1], tmps):
                lines.append(pad + "let v_%s := %s in" % (v, x))
                if k == "mlocal":
                    scope.add(v)
            return lines
        if k == "exprstat":
            b, t = self.exp(s[1], scope)
            return [pad + l for l in b]
        if k == "if":
            vs = []
            for _, body in s[1]:
                for v in assigned(body):
                    if v not in vs:
                        vs.append(v)
            if s[2] is not None:
                for v in assigned(s[2]):
                    if v not in vs:
                        vs.append(v)
            for v in vs:
                if v not in scope:
                    raise Unsupported("assignment to undeclared (global) variable %s" % v)
            if len(vs) == 0:
                tup, pat = "tt", "_"
            elif len(vs) == 1:
                tup, pat = "v_" + vs[0], "v_" + vs[0]
            else:
                tup = "(" + ", ".join("v_" + v for v in vs) + ")"
                pat = "'" + tup
            arms, els = s[1], s[2]

            def join(body, ind2):
                sc = set(scope)
                res = []
                for st in body:
                    res += self.simple(st, sc, ind2)
                res.append("  " * ind2 + "ret %s" % tup)
                return res

            def go(j, ind2):
                pad2 = "  " * ind2
                if j == len(arms):
                    return join(els if els is not None else [], ind2)
                c, body = arms[j]
                b, t = self.exp(c, scope)
                res = [pad2 + l for l in b]
                res.append(pad2 + "if truthy %s then (" % t)
                res += join(body, ind2 + 1)
                res.append(pad2 + ") else (")
                res += go(j + 1, ind2 + 1)
                res.append(pad2 + ")")
                return res

            lines = [pad + "%s <- (" % pat]
            lines += go(0, ind + 1)
            lines.append(pad + ") ;;")
            return lines
        raise Unsupported("unsupported statement node %r" % (k,))


def translate(src, module, origin=""):
    ast = parse(src)
    g = Gen()
    body = g.tail(ast, set(), 1)
    sha = hashlib.sha256(src.encode()).hexdigest()
    quoted = src.replace("(*", "( *").replace("*)", "* )")
    out = []
    out.append("(* GENERATED by translate/lua2coq.py - do not edit.")
    out.append("   source: %s   sha256: %s" % (origin, sha))
    out.append("")
    for line in quoted.rstrip("\n").split("\n"):
        out.append("   | " + line)
    out.append("*)")
    out.append("From Coq Require Import List ZArith String QArith.")
    out.append("From GZ Require Import Lib.RedisStore.")
    out.append("Import ListNotations.")
    out.append("Open Scope Z_scope.")
    out.append("Open Scope string_scope.")
    out.append("Open Scope lua_scope.")
    out.append("")
    out.append("Definition script (KEYS ARGV : list lval) : M lval :=")
    out += body
    out[-1] = out[-1] + "."
    out.append("")
    return "\n".join(out)


def write_if_changed(path, text):
    try:
        if open(path).read() == text:
            return False
    except OSError:
        pass
    os.makedirs(os.path.dirname(path), exist_ok=True)
    tmp = path + ".tmp%d" % os.getpid()
    with open(tmp, "w") as f:
        f.write(text)
    os.replace(tmp, path)
    return True


def translate_file(lua_path, module, out_path):
    src = open(lua_path).read()
    text = translate(src, module, origin=os.path.basename(lua_path))
    return write_if_changed(out_path, text)


if __name__ == "__main__":
    if len(sys.argv) != 4:
        print(__doc__)
        sys.exit(2)
    try:
        ch = translate_file(sys.argv[1], sys.argv[2], sys.argv[3])
        print("%s: %s" % (sys.argv[3], "written" if ch else "unchanged"))
    except Unsupported as e:
        print("lua2coq: UNSUPPORTED: %s" % e, file=sys.stderr)
        sys.exit(1)
