#!/bin/sh
# Build the framework from files on disk only (offline): the whole Coq development
# (full .vo build) and the Go executors.
set -e
cd "$(dirname "$0")"
export GOFLAGS=-mod=mod GOPROXY=off GOSUMDB=off GOTOOLCHAIN=local
python3 tools/setup.py
