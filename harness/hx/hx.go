// Package hx holds helpers shared by the executors that drive go-zero for the
// correspondence checks: JSON case I/O and goroutine quiescence detection.
package hx

import (
	"bufio"
	"encoding/json"
	"fmt"
	"os"
	"runtime"
	"strings"
	"time"
)

// ReadCases reads the JSON array of cases from $VERIF_IN into v.
func ReadCases(v any) {
	path := os.Getenv("VERIF_IN")
	data, err := os.ReadFile(path)
	if err != nil {
		Fatal("read VERIF_IN: %v", err)
	}
	if err := json.Unmarshal(data, v); err != nil {
		Fatal("parse VERIF_IN: %v", err)
	}
}

// Writer writes one JSON value per line to $VERIF_OUT.
type Writer struct {
	f *os.File
	w *bufio.Writer
}

func NewWriter() *Writer {
	f, err := os.Create(os.Getenv("VERIF_OUT"))
	if err != nil {
		Fatal("create VERIF_OUT: %v", err)
	}
	return &Writer{f: f, w: bufio.NewWriterSize(f, 1<<20)}
}

func (w *Writer) Put(v any) {
	b, err := json.Marshal(v)
	if err != nil {
		Fatal("marshal: %v", err)
	}
	w.w.Write(b)
	w.w.WriteByte('\n')
}

func (w *Writer) Close() {
	w.w.Flush()
	w.f.Close()
}

func Fatal(format string, a ...any) {
	fmt.Fprintf(os.Stderr, "executor: "+format+"\n", a...)
	os.Exit(3)
}

// Stacks returns one text block per live goroutine.
func Stacks() []string {
	buf := make([]byte, 1<<16)
	for {
		n := runtime.Stack(buf, true)
		if n < len(buf) {
			buf = buf[:n]
			break
		}
		buf = make([]byte, 2*len(buf))
	}
	return strings.Split(strings.TrimSpace(string(buf)), "\n\n")
}

// Quiesce waits until no goroutine satisfies busy (given its stack text).
// It returns false if that does not happen within the timeout.
func Quiesce(busy func(stack string) bool, timeout time.Duration) bool {
	deadline := time.Now().Add(timeout)
	for spin := 0; ; spin++ {
		any := false
		for _, g := range Stacks() {
			if busy(g) {
				any = true
				break
			}
		}
		if !any {
			return true
		}
		if time.Now().After(deadline) {
			return false
		}
		if spin < 20 {
			runtime.Gosched()
		} else {
			time.Sleep(50 * time.Microsecond)
		}
	}
}

// Blocked reports whether the goroutine whose stack is given is parked in a
// blocking primitive (as opposed to running or runnable).
func Blocked(stack string) bool {
	nl := strings.IndexByte(stack, '\n')
	head := stack
	if nl >= 0 {
		head = stack[:nl]
	}
	for _, s := range []string{"[chan send", "[chan receive", "[select", "[sync.Cond.Wait",
		"[semacquire", "[sync.WaitGroup.Wait", "[sync.Mutex.Lock", "[sync.RWMutex", "[sleep", "[IO wait"} {
		if strings.Contains(head, s) {
			return true
		}
	}
	return false
}
