// Executor for C20 (goctl .api formatter).  Module `goctlh` is separate from `verifh`
// because tools/goctl is its own Go module; go.mod is generated at build time by
// tools/props/c20.py (replace directives to $REPO, $REPO/tools/goctl and the two stand-in
// modules under harness/stubs).
//
// Input  ($VERIF_IN):  JSON array of {"id":n, "src": "...", "muts": ["...", ...]}
// Output ($VERIF_OUT): one JSON object per case:
//
//	toks   non-comment tokens of src by the Go scanner: [kind, text, nl, line]  (nl=1 when the
//	       token starts on a later line than the previous non-comment token; line = the
//	       scanner's own line number, which ignores line breaks inside comments and strings)
//	cmts   comment tokens: [index of the preceding non-comment token, kind, text, sameLine, line, col]
//	serr   scanner error (if any)
//	ast    canonical dump of parser.Parse()'s AST (nil when the parser reported errors)
//	perr   parser error text
//	fmt1   format.Source(src) ("" on error), ferr its error, fout = ok|err|panic|timeout
//	ftoks/fcmts/fast   the same projections of fmt1
//	fmt2   format.Source(fmt1), f2out
//	idem   fmt2 == fmt1 byte for byte
//	file   format.File on a scratch file holding src: "same" when it left exactly fmt1 in the
//	       file (valid src) / returned an error and left the file alone (invalid src)
//	conc   the whole batch is formatted once more by 8 goroutines at the same time (each in another
//	       order, so every source is formatted between and beside all the others): "same" when every
//	       one of them got exactly fmt1 / the same kind of outcome again
//	muts   per mutated source: ok|err|panic:<msg>|timeout
//
// The executor only executes; generation, mutation, shrinking and Coq rendering are in Python.
package main

import (
	"bufio"
	"bytes"
	"encoding/json"
	"fmt"
	"os"
	"path/filepath"
	"runtime/debug"
	"strings"
	"sync"
	"time"

	"github.com/zeromicro/go-zero/tools/goctl/pkg/parser/api/ast"
	"github.com/zeromicro/go-zero/tools/goctl/pkg/parser/api/format"
	"github.com/zeromicro/go-zero/tools/goctl/pkg/parser/api/parser"
	"github.com/zeromicro/go-zero/tools/goctl/pkg/parser/api/scanner"
	"github.com/zeromicro/go-zero/tools/goctl/pkg/parser/api/token"
)

type Case struct {
	ID    int               `json:"id"`
	Src   string            `json:"src"`
	Muts  []string          `json:"muts"`
	Files map[string]string `json:"files"` // a set of .api files importing one another; Src = Files[Root]
	Root  string            `json:"root"`
}

type Out struct {
	ID    int      `json:"id"`
	Toks  [][]any  `json:"toks"`
	Cmts  [][]any  `json:"cmts"`
	Serr  string   `json:"serr,omitempty"`
	Ast   any      `json:"ast"`
	Perr  string   `json:"perr,omitempty"`
	Pout  string   `json:"pout"`
	Fmt1  string   `json:"fmt1"`
	Ferr  string   `json:"ferr,omitempty"`
	Fout  string   `json:"fout"`
	FToks [][]any  `json:"ftoks"`
	FCmts [][]any  `json:"fcmts"`
	FAst  any      `json:"fast"`
	Fmt2  string   `json:"fmt2"`
	F2out string   `json:"f2out"`
	Idem  bool     `json:"idem"`
	File  string   `json:"file"`
	Conc  string   `json:"conc"`
	Multi string   `json:"multi,omitempty"`
	Muts  []string `json:"muts"`
	Mutk  []string `json:"mutk"` // per mutated source, where it was rejected: ok|scan|illegal|parse|crash
	Err   string   `json:"err,omitempty"`
}

// a formatter call takes milliseconds; the limit only has to tell a hang from a slow machine
// (the box is shared: under heavy load a goroutine was seen to miss a 3 s limit)
const callTimeout = 20 * time.Second

// guarded runs f with recover and a timeout; outcome is ok|panic:...|timeout.
func guarded(f func()) string {
	done := make(chan string, 1)
	go func() {
		defer func() {
			if r := recover(); r != nil {
				st := string(debug.Stack())
				loc := ""
				// first frame inside goctl's api packages: "pkg.(*T).method" of the line before the file line
				lines := strings.Split(st, "\n")
				for i, l := range lines {
					if strings.Contains(l, "/pkg/parser/api/") && strings.Contains(l, ".go:") && i > 0 {
						fn := strings.TrimSpace(lines[i-1])
						if j := strings.LastIndex(fn, "/"); j >= 0 {
							fn = fn[j+1:]
						}
						if j := strings.LastIndex(fn, "("); j > 0 {
							fn = fn[:j]
						}
						loc = fn
						break
					}
				}
				done <- fmt.Sprintf("panic:%v @%s", r, loc)
				return
			}
			done <- "ok"
		}()
		f()
	}()
	select {
	case r := <-done:
		return r
	case <-time.After(callTimeout):
		return "timeout"
	}
}

func scan(src string) (toks [][]any, cmts [][]any, serr string) {
	toks = [][]any{}
	cmts = [][]any{}
	out := guarded(func() {
		s, err := scanner.NewScanner("", []byte(src))
		if err != nil {
			serr = err.Error()
			return
		}
		prevLine := -1
		for {
			t, err := s.NextToken()
			if err != nil {
				serr = err.Error()
				return
			}
			if t.Type == token.EOF {
				return
			}
			if t.Type == token.ILLEGAL {
				// the parser stops at an illegal token; the scanner may not advance past it
				// (a trailing '@' is returned forever)
				toks = append(toks, []any{"ILLEGAL", t.Text, 0, t.Position.Line})
				return
			}
			if t.Type == token.COMMENT || t.Type == token.DOCUMENT {
				same := 0
				if len(toks) > 0 && t.Position.Line == prevLine {
					same = 1
				}
				cmts = append(cmts, []any{len(toks) - 1, t.Type.String(), t.Text, same, t.Position.Line, t.Position.Column})
				continue
			}
			nl := 0
			if prevLine >= 0 && t.Position.Line > prevLine {
				nl = 1
			}
			prevLine = t.Position.Line
			toks = append(toks, []any{kind(t), t.Text, nl, t.Position.Line})
		}
	})
	if out != "ok" {
		serr = "scanner " + out
	}
	return
}

func kind(t token.Token) string {
	switch t.Type {
	case token.IDENT:
		return "IDENT"
	case token.INT:
		return "INT"
	case token.DURATION:
		return "DURATION"
	case token.STRING:
		return "STRING"
	case token.RAW_STRING:
		return "RAW_STRING"
	case token.ILLEGAL:
		return "ILLEGAL"
	case token.ANY:
		return "ANY"
	case token.AT_DOC:
		return "AT_DOC"
	case token.AT_HANDLER:
		return "AT_HANDLER"
	case token.AT_SERVER:
		return "AT_SERVER"
	}
	return t.Type.String() // operators: their text
}

// ---- canonical AST dump -----------------------------------------------------

func txt(n *ast.TokenNode) any {
	if n == nil {
		return nil
	}
	return n.Token.Text
}

func dumpKVs(kvs []*ast.KVExpr, withType bool) any {
	res := []any{}
	for _, kv := range kvs {
		if withType {
			res = append(res, []any{txt(kv.Key), txt(kv.Value), kind(kv.Value.Token)})
		} else {
			res = append(res, []any{txt(kv.Key), txt(kv.Value)})
		}
	}
	return res
}

func dumpDT(d ast.DataType) any {
	switch v := d.(type) {
	case *ast.AnyDataType:
		return []any{"any", txt(v.Any)}
	case *ast.BaseDataType:
		return []any{"base", txt(v.Base)}
	case *ast.InterfaceDataType:
		return []any{"iface"}
	case *ast.ArrayDataType:
		return []any{"array", txt(v.Length), dumpDT(v.DataType)}
	case *ast.SliceDataType:
		return []any{"slice", dumpDT(v.DataType)}
	case *ast.MapDataType:
		return []any{"map", dumpDT(v.Key), dumpDT(v.Value)}
	case *ast.PointerDataType:
		return []any{"ptr", dumpDT(v.DataType)}
	case *ast.StructDataType:
		es := []any{}
		for _, e := range v.Elements {
			names := []any{}
			for _, n := range e.Name {
				names = append(names, txt(n))
			}
			es = append(es, []any{names, dumpDT(e.DataType), txt(e.Tag)})
		}
		return []any{"struct", es}
	}
	return []any{"unknown", fmt.Sprintf("%T", d)}
}

func dumpTE(e *ast.TypeExpr) any {
	return []any{txt(e.Name), e.Assign != nil, dumpDT(e.DataType)}
}

func dumpBody(b *ast.BodyStmt) any {
	if b == nil {
		return nil
	}
	if b.Body == nil {
		return []any{"body", nil}
	}
	return []any{"body", []any{b.Body.LBrack != nil, b.Body.Star != nil, txt(b.Body.Value)}}
}

func dumpStmt(s ast.Stmt) any {
	switch v := s.(type) {
	case *ast.CommentStmt:
		return nil
	case *ast.SyntaxStmt:
		return []any{"syntax", txt(v.Value)}
	case *ast.InfoStmt:
		return []any{"info", dumpKVs(v.Values, false)}
	case *ast.ImportLiteralStmt:
		return []any{"import", txt(v.Value)}
	case *ast.ImportGroupStmt:
		vs := []any{}
		for _, x := range v.Values {
			vs = append(vs, txt(x))
		}
		return []any{"imports", vs}
	case *ast.TypeLiteralStmt:
		return []any{"type", dumpTE(v.Expr)}
	case *ast.TypeGroupStmt:
		es := []any{}
		for _, e := range v.ExprList {
			es = append(es, dumpTE(e))
		}
		return []any{"types", es}
	case *ast.ServiceStmt:
		var at any
		if v.AtServerStmt != nil {
			at = dumpKVs(v.AtServerStmt.Values, true)
		}
		items := []any{}
		for _, it := range v.Routes {
			var doc any
			switch d := it.AtDoc.(type) {
			case *ast.AtDocLiteralStmt:
				doc = []any{"lit", txt(d.Value)}
			case *ast.AtDocGroupStmt:
				doc = []any{"group", dumpKVs(d.Values, false)}
			}
			var h any
			if it.AtHandler != nil {
				h = txt(it.AtHandler.Name)
			}
			var r any
			if it.Route != nil {
				r = []any{txt(it.Route.Method), txt(it.Route.Path.Value), dumpBody(it.Route.Request), dumpBody(it.Route.Response)}
			}
			items = append(items, []any{doc, h, r})
		}
		return []any{"service", at, txt(v.Name.Name), items}
	}
	return []any{"unknown", fmt.Sprintf("%T", s)}
}

func parse(src string) (dump any, perr string, outcome string) {
	outcome = guarded(func() {
		p := parser.New("", []byte(src))
		res := p.Parse()
		if err := p.CheckErrors(); err != nil {
			perr = err.Error()
			return
		}
		if res == nil {
			perr = "parser returned nil without reporting an error"
			return
		}
		stmts := []any{}
		for _, s := range res.Stmts {
			if d := dumpStmt(s); d != nil {
				stmts = append(stmts, d)
			}
		}
		dump = stmts
	})
	if outcome == "ok" && perr != "" {
		outcome = "err"
	}
	return
}

func formatSrc(src string) (text string, ferr string, outcome string) {
	outcome = guarded(func() {
		var buf bytes.Buffer
		if err := format.Source([]byte(src), &buf); err != nil {
			ferr = err.Error()
			return
		}
		text = buf.String()
	})
	if outcome == "ok" && ferr != "" {
		outcome = "err"
	}
	return
}

// formatFile runs the file entry point format.File on a scratch file next to $VERIF_OUT.
func formatFile(id int, src string, want string, wantOK bool) string {
	name := filepath.Join(filepath.Dir(os.Getenv("VERIF_OUT")), fmt.Sprintf("c20_file_%d_%d.api", os.Getpid(), id))
	if err := os.WriteFile(name, []byte(src), 0o644); err != nil {
		return "scratch file: " + err.Error()
	}
	defer os.Remove(name)
	var ferr error
	out := guarded(func() { ferr = format.File(name) })
	if out != "ok" {
		return out
	}
	data, err := os.ReadFile(name)
	if err != nil {
		return "scratch file: " + err.Error()
	}
	switch {
	case wantOK && ferr != nil:
		return "File failed where Source succeeded: " + trunc(ferr.Error(), 200)
	case wantOK && string(data) != want:
		return "File wrote a text that differs from Source's"
	case !wantOK && ferr == nil:
		return "File succeeded where Source failed"
	case !wantOK && string(data) != src:
		return "File changed a file it could not format"
	}
	return "same"
}

// multiFile: the API description that goctl's analyzer (parser.Parse: imports resolved, types and
// services of all files merged) reads off a set of files must be the same before and after every
// file of the set was formatted with format.File, and formatting the files again changes nothing.
func multiFile(c Case) string {
	dir := filepath.Join(filepath.Dir(os.Getenv("VERIF_OUT")), fmt.Sprintf("c20_multi_%d_%d", os.Getpid(), c.ID))
	if err := os.MkdirAll(dir, 0o755); err != nil {
		return "scratch dir: " + err.Error()
	}
	defer os.RemoveAll(dir)
	for name, text := range c.Files {
		if err := os.WriteFile(filepath.Join(dir, name), []byte(text), 0o644); err != nil {
			return "scratch file: " + err.Error()
		}
	}
	describe := func() (string, string) {
		var js []byte
		var perr error
		out := guarded(func() {
			spec, err := parser.Parse(filepath.Join(dir, c.Root), nil)
			if err != nil {
				perr = err
				return
			}
			raw, err := json.Marshal(spec)
			if err != nil {
				perr = err
				return
			}
			// comments travel with the declarations as documentation (their placement may differ),
			// and an empty @doc "" is the same as no @doc: both are left out of the comparison
			var v any
			if perr = json.Unmarshal(raw, &v); perr != nil {
				return
			}
			js, perr = json.Marshal(stripDocs(v))
		})
		if out != "ok" {
			return "", "analyzer " + out
		}
		if perr != nil {
			return "", "analyzer error: " + trunc(perr.Error(), 200)
		}
		return string(js), ""
	}
	before, e1 := describe()
	if e1 != "" {
		return "before formatting: " + e1
	}
	texts := map[string]string{}
	for pass := 1; pass <= 2; pass++ {
		for name := range c.Files {
			var ferr error
			out := guarded(func() { ferr = format.File(filepath.Join(dir, name)) })
			if out != "ok" || ferr != nil {
				return fmt.Sprintf("format.File(%s) pass %d: %s %v", name, pass, out, ferr)
			}
			data, _ := os.ReadFile(filepath.Join(dir, name))
			if pass == 2 && texts[name] != string(data) {
				return "formatting " + name + " again changed it"
			}
			texts[name] = string(data)
		}
		after, e2 := describe()
		if e2 != "" {
			return fmt.Sprintf("after pass %d: %s", pass, e2)
		}
		if after != before {
			k := 0
			for k < len(after) && k < len(before) && after[k] == before[k] {
				k++
			}
			lo := k - 60
			if lo < 0 {
				lo = 0
			}
			return fmt.Sprintf("the API description of the file set changed with pass %d: ...%s | ...%s", pass,
				trunc(before[lo:], 140), trunc(after[lo:], 140))
		}
	}
	return "same"
}

func stripDocs(v any) any {
	switch x := v.(type) {
	case map[string]any:
		for k, e := range x {
			switch k {
			case "Doc", "Docs", "Comment", "Comments", "HandlerDoc", "HandlerComment":
				delete(x, k)
				continue
			case "Text":
				if t, ok := e.(string); ok && (t == `""` || t == "``") {
					x[k] = ""
					continue
				}
			}
			x[k] = stripDocs(e)
		}
		return x
	case []any:
		for i := range x {
			x[i] = stripDocs(x[i])
		}
		return x
	}
	return v
}

func trunc(s string, n int) string {
	if len(s) > n {
		return s[:n]
	}
	return s
}

func runCase(c Case) Out {
	o := Out{ID: c.ID, Muts: []string{}, Mutk: []string{}}
	if len(c.Src) == 0 {
		o.Err = "empty source (parser.New would call log.Fatalln)"
		return o
	}
	o.Toks, o.Cmts, o.Serr = scan(c.Src)
	o.Ast, o.Perr, o.Pout = parse(c.Src)
	o.Perr = trunc(o.Perr, 300)
	o.Fmt1, o.Ferr, o.Fout = formatSrc(c.Src)
	o.Ferr = trunc(o.Ferr, 300)
	o.FToks, o.FCmts = [][]any{}, [][]any{}
	if o.Fout == "ok" && len(o.Fmt1) > 0 {
		o.FToks, o.FCmts, _ = scan(o.Fmt1)
		o.FAst, _, _ = parse(o.Fmt1)
		o.Fmt2, _, o.F2out = formatSrc(o.Fmt1)
		o.Idem = o.F2out == "ok" && o.Fmt2 == o.Fmt1
	} else if o.Fout == "ok" {
		// formatted to the empty text (every statement was empty/comment-free): formatting
		// the empty text again is not possible (parser.New exits on empty input)
		o.FAst = []any{}
		o.F2out = "empty"
		o.Idem = true
	}
	o.File = formatFile(c.ID, c.Src, o.Fmt1, o.Fout == "ok")
	if len(c.Files) > 0 {
		o.Multi = multiFile(c)
	}
	for _, m := range c.Muts {
		if len(m) == 0 {
			o.Muts = append(o.Muts, "skipped-empty")
			o.Mutk = append(o.Mutk, "ok")
			continue
		}
		_, _, r := formatSrc(m)
		k := "crash"
		if r == "ok" || r == "err" {
			// also the scanner and the parser on their own
			mt, _, se := scan(m)
			switch {
			case strings.HasPrefix(se, "scanner panic") || strings.HasPrefix(se, "scanner timeout"):
				r = se
			case r == "ok":
				k = "ok"
			case se != "":
				k = "scan" // the scanner returned an error
			case len(mt) > 0 && mt[len(mt)-1][0] == "ILLEGAL":
				k = "illegal" // the scanner handed an ILLEGAL token to the parser
			default:
				k = "parse" // every token is legal: rejected by the grammar
			}
		}
		o.Muts = append(o.Muts, r)
		o.Mutk = append(o.Mutk, k)
	}
	return o
}

// concurrent formats every source again, by several goroutines at once and in different orders:
// format.Source has to be a function of its input (no package-level state, no reused buffer).
func concurrent(cases []Case, outs []Out) {
	const workers = 8
	n := len(cases)
	diff := make([][]string, workers)
	var wg sync.WaitGroup
	for g := 0; g < workers; g++ {
		wg.Add(1)
		go func(g int) {
			defer wg.Done()
			diff[g] = make([]string, n)
			for k := 0; k < n; k++ {
				i := (k*(2*g+1) + g*7) % n
				if g%2 == 1 {
					i = n - 1 - i
				}
				if len(cases[i].Src) == 0 || outs[i].Err != "" {
					continue
				}
				text, _, outcome := formatSrc(cases[i].Src)
				switch {
				case outcome != outs[i].Fout:
					diff[g][i] = "outcome " + outcome + " instead of " + outs[i].Fout
				case outcome == "ok" && text != outs[i].Fmt1:
					diff[g][i] = "another text than the sequential call"
				}
			}
		}(g)
	}
	wg.Wait()
	for i := range outs {
		outs[i].Conc = "same"
		for g := 0; g < workers; g++ {
			if diff[g][i] != "" {
				outs[i].Conc = fmt.Sprintf("worker %d: %s", g, diff[g][i])
				break
			}
		}
	}
}

// ---- tables mode: the lexical tables of token.go and the scanner's behaviour on enumerated tiny
// inputs, read off the COMPILED packages through their public API (so that a refactoring of the
// source text cannot mislead a text extractor): tools/c20consts.py turns them into
// coq/gen/C20Consts.v, theories/C20/GenProofs.v proves that the models agree with them.

type Probe struct {
	ID    int   `json:"id"`
	Bytes []int `json:"bytes"`
}

type ProbeOut struct {
	ID   int     `json:"id"`
	Toks [][]any `json:"toks"` // [kind, text bytes, nl]
	Cmts [][]any `json:"cmts"` // [index of the preceding token + 1, text bytes]
	OK   bool    `json:"ok"`   // no scanner error
}

type Tables struct {
	Types  [][]any           `json:"types"`  // [number, Type.String()] for every number with a name
	Consts map[string]string `json:"consts"` // the keyword texts the parser compares identifiers with
	Http   []string          `json:"http"`   // token.HttpMethods
	Words  [][]any           `json:"words"`  // [word, LookupKeyword ok, its Type.String(), IsHttpMethod, IsBaseType]
}

func byteInts(s string) []int {
	res := make([]int, 0, len(s))
	for i := 0; i < len(s); i++ {
		res = append(res, int(s[i]))
	}
	return res
}

// typeName: Type.String() indexes its name table with every number below token_end, and the
// table ends before that (the unnamed end markers): such a number has no name.
func typeName(i int) (n string) {
	defer func() {
		if recover() != nil {
			n = ""
		}
	}()
	return token.Type(i).String()
}

func tables(words []string) Tables {
	t := Tables{Consts: map[string]string{
		"Syntax": token.Syntax, "Info": token.Info, "Service": token.Service, "Returns": token.Returns, "Any": token.Any,
		"TypeKeyword": token.TypeKeyword, "MapKeyword": token.MapKeyword, "ImportKeyword": token.ImportKeyword}}
	seen := map[string]bool{}
	for i := 0; i < 200; i++ {
		if n := typeName(i); n != "" {
			t.Types = append(t.Types, []any{i, n})
			if !seen[n] {
				seen[n] = true
				words = append(words, n)
			}
		}
	}
	for _, m := range token.HttpMethods {
		t.Http = append(t.Http, fmt.Sprint(m))
		words = append(words, fmt.Sprint(m))
	}
	done := map[string]bool{}
	for _, w := range words {
		if done[w] {
			continue
		}
		done[w] = true
		tp, ok := token.LookupKeyword(w)
		tk := token.Token{Type: token.IDENT, Text: w}
		t.Words = append(t.Words, []any{w, ok, tp.String(), tk.IsHttpMethod(), tk.IsBaseType()})
	}
	return t
}

func runTables(data []byte, f *os.File) {
	var in struct {
		Words  []string `json:"words"`
		Probes []Probe  `json:"probes"`
	}
	var arr []json.RawMessage
	if err := json.Unmarshal(data, &arr); err != nil || len(arr) != 1 || json.Unmarshal(arr[0], &in) != nil {
		fmt.Fprintln(os.Stderr, "executor: tables mode wants [{words, probes}]")
		os.Exit(3)
	}
	w := bufio.NewWriterSize(f, 1<<20)
	enc := json.NewEncoder(w)
	enc.SetEscapeHTML(false)
	_ = enc.Encode(tables(in.Words))
	for _, p := range in.Probes {
		bs := make([]byte, len(p.Bytes))
		for i, b := range p.Bytes {
			bs[i] = byte(b)
		}
		toks, cmts, serr := scan(string(bs))
		o := ProbeOut{ID: p.ID, Toks: [][]any{}, Cmts: [][]any{}, OK: serr == ""}
		for _, t := range toks {
			o.Toks = append(o.Toks, []any{t[0], byteInts(t[1].(string)), t[2]})
		}
		for _, c := range cmts {
			o.Cmts = append(o.Cmts, []any{c[0].(int) + 1, byteInts(c[2].(string))})
		}
		_ = enc.Encode(o)
	}
	w.Flush()
	f.Close()
}

func main() {
	data, err := os.ReadFile(os.Getenv("VERIF_IN"))
	if err != nil {
		fmt.Fprintln(os.Stderr, "executor: read VERIF_IN:", err)
		os.Exit(3)
	}
	var cases []Case
	f, err := os.Create(os.Getenv("VERIF_OUT"))
	if err != nil {
		fmt.Fprintln(os.Stderr, "executor: create VERIF_OUT:", err)
		os.Exit(3)
	}
	if len(os.Args) > 1 && os.Args[1] == "-tables" {
		runTables(data, f)
		return
	}
	if err := json.Unmarshal(data, &cases); err != nil {
		fmt.Fprintln(os.Stderr, "executor: parse VERIF_IN:", err)
		os.Exit(3)
	}
	w := bufio.NewWriterSize(f, 1<<20)
	enc := json.NewEncoder(w)
	enc.SetEscapeHTML(false)
	outs := make([]Out, len(cases))
	for i, c := range cases {
		outs[i] = runCase(c)
	}
	concurrent(cases, outs)
	for _, o := range outs {
		if err := enc.Encode(o); err != nil {
			fmt.Fprintln(os.Stderr, "executor: marshal:", err)
			os.Exit(3)
		}
	}
	w.Flush()
	f.Close()
}
