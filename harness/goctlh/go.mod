module goctlh

go 1.21

require (
	github.com/zeromicro/go-zero v1.8.2
	github.com/zeromicro/go-zero/tools/goctl v0.0.0
)

require (
	github.com/fatih/structtag v1.2.0 // indirect
	github.com/gookit/color v1.5.4 // indirect
	golang.org/x/text v0.22.0 // indirect
)

replace github.com/zeromicro/go-zero/tools/goctl => /repo/tools/goctl

replace github.com/zeromicro/go-zero => /repo

replace github.com/gookit/color => /verif/harness/stubs/color

replace github.com/fatih/structtag => /verif/harness/stubs/structtag
