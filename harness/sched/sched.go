// Package sched is the controller for forced schedules (DESIGN.md §3.3).
//
// Every model thread (and every library-created goroutine that runs a user
// callback, e.g. a TaskRunner task) is an *actor* with a small integer id.
// Actors park at gates: Gate(id, label, op) blocks until the controller
// releases that actor.  The controller (one goroutine, normally main) calls
// Step(id): if the actor is parked it is released for exactly one macro step
// and the controller then waits for quiescence: every other goroutine of the
// process is parked at a gate, finished, or blocked inside the library
// (chan send/receive, select, sync.Cond.Wait, semacquire, WaitGroup.Wait).
// runtime.Stack(all) stops the world, so one snapshot in which every goroutine
// is blocked is already stable (Go marks woken goroutines runnable
// synchronously inside the waking operation); two consecutive identical
// snapshots are nevertheless required, and the logical clock must not move.
//
// All events (call invoked / returned with result, callback started / ended)
// are stamped with a global logical clock.  After every step the status of
// every actor (parked at label / blocked / done / absent) is reported.
//
// In free-running mode (Free = true) gates do not block; events are still
// stamped (atomically), which gives interval logs for the direct monitors run
// under -race.
package sched

import (
	"runtime"
	"sort"
	"strings"
	"sync"
	"sync/atomic"
	"time"

	"verifh/hx"
)

// Status codes of an actor after a step.
const (
	StParked  = 0 // parked at a gate (Label, Op say where)
	StBlocked = 1 // inside the library, blocked
	StDone    = 2 // its goroutine / callback has finished
)

type Event struct {
	T     int64   `json:"t"`
	Actor int     `json:"a"`
	Kind  string  `json:"k"`
	Op    int     `json:"op"`
	V     []int64 `json:"v,omitempty"`
}

type ActorStatus struct {
	Actor int    `json:"a"`
	St    int    `json:"st"`
	Label string `json:"l,omitempty"`
	Op    int    `json:"op"`
}

type StepObs struct {
	Actor   int           `json:"a"`
	Skipped bool          `json:"skip"`
	Events  []Event       `json:"ev"`
	Status  []ActorStatus `json:"st"`
}

type actor struct {
	st    int
	label string
	op    int
	ch    chan struct{}
}

type Ctl struct {
	Free bool

	mu     sync.Mutex
	clock  int64
	events []Event
	actors map[int]*actor
	seen   int // events already handed out by Step
	busy   int32 // actors inside a call that is known to return by itself (zero-timeout waits)
	gids   map[int64]int // goroutine id -> actor (actors started with Go)

	// MinQuiet, when > 0, requires the system to look quiescent continuously for that long
	// (executors whose library code does network I/O: a goroutine in [IO wait] may be about to
	// receive a reply that is already on its way).
	MinQuiet time.Duration

	// MutexBlocked, when set, says that a goroutine waiting for a sync.Mutex (stack given) is
	// blocked by the library for good — e.g. on the lock of a Pool whose holder is parked at a
	// gate inside a user callback — and not just about to get a contended lock.
	MutexBlocked func(stack string) bool
}

// goid returns the id of the calling goroutine.
func goid() int64 {
	var buf [64]byte
	n := runtime.Stack(buf[:], false)
	// "goroutine 123 ["
	var id int64
	for _, ch := range buf[len("goroutine "):n] {
		if ch < '0' || ch > '9' {
			break
		}
		id = id*10 + int64(ch-'0')
	}
	return id
}

// Actor returns the actor running on the calling goroutine (-1 if it was not started by Go).
func (c *Ctl) Actor() int {
	g := goid()
	c.mu.Lock()
	defer c.mu.Unlock()
	if a, ok := c.gids[g]; ok {
		return a
	}
	return -1
}

// CurOp returns the operation index last recorded for the actor with SetOp / Gate.
func (c *Ctl) CurOp(id int) int {
	c.mu.Lock()
	defer c.mu.Unlock()
	if a := c.actors[id]; a != nil {
		return a.op
	}
	return 0
}

// AnyParked reports whether some actor is parked at a gate with the given label.
func (c *Ctl) AnyParked(label string) bool {
	c.mu.Lock()
	defer c.mu.Unlock()
	for _, a := range c.actors {
		if a.st == StParked && a.label == label {
			return true
		}
	}
	return false
}

// Busy marks (d=+1) / unmarks (d=-1) a section that must finish before the system counts
// as quiescent even if its goroutine looks blocked for a moment (a select on a timer that
// is about to fire).
func (c *Ctl) Busy(d int32) { atomic.AddInt32(&c.busy, d) }

func New(free bool) *Ctl {
	return &Ctl{Free: free, actors: map[int]*actor{}, gids: map[int64]int{}}
}

// Go starts an actor goroutine running body; the actor is done when body returns.
func (c *Ctl) Go(id int, body func()) {
	c.mu.Lock()
	c.actors[id] = &actor{st: StBlocked}
	c.mu.Unlock()
	go func() {
		g := goid()
		c.mu.Lock()
		c.gids[g] = id
		c.mu.Unlock()
		defer c.Done(id)
		body()
	}()
}

// Done marks an actor finished (called by Go; call it directly for actors that
// live on goroutines created by the library).
func (c *Ctl) Done(id int) {
	c.mu.Lock()
	a := c.actors[id]
	if a == nil {
		a = &actor{}
		c.actors[id] = a
	}
	a.st = StDone
	c.mu.Unlock()
}

// Log stamps an event with the logical clock.
func (c *Ctl) Log(id int, kind string, op int, v ...int64) int64 {
	c.mu.Lock()
	c.clock++
	t := c.clock
	c.events = append(c.events, Event{T: t, Actor: id, Kind: kind, Op: op, V: v})
	c.mu.Unlock()
	return t
}

// Gate parks the calling goroutine as actor id until the controller releases it.
// (Actors on library goroutines are registered by their first Gate.)
func (c *Ctl) Gate(id int, label string, op int) {
	if c.Free {
		runtime.Gosched()
		return
	}
	c.mu.Lock()
	a := c.actors[id]
	if a == nil {
		a = &actor{}
		c.actors[id] = a
	}
	a.st, a.label, a.op = StParked, label, op
	ch := make(chan struct{})
	a.ch = ch
	c.mu.Unlock()
	<-ch
}

// SetOp records which operation a (running) actor is in, for status reports.
func (c *Ctl) SetOp(id, op int) {
	c.mu.Lock()
	if a := c.actors[id]; a != nil {
		a.op = op
	}
	c.mu.Unlock()
}

// Parked returns the ids of the parked actors, ascending.
func (c *Ctl) Parked() []int {
	c.mu.Lock()
	defer c.mu.Unlock()
	var r []int
	for id, a := range c.actors {
		if a.st == StParked {
			r = append(r, id)
		}
	}
	sort.Ints(r)
	return r
}

// AllDone reports whether every registered actor has finished.
func (c *Ctl) AllDone() bool {
	c.mu.Lock()
	defer c.mu.Unlock()
	for _, a := range c.actors {
		if a.st != StDone {
			return false
		}
	}
	return true
}

func (c *Ctl) snapshot(id int, skipped bool) StepObs {
	c.mu.Lock()
	defer c.mu.Unlock()
	o := StepObs{Actor: id, Skipped: skipped, Events: []Event{}}
	o.Events = append(o.Events, c.events[c.seen:]...)
	c.seen = len(c.events)
	ids := make([]int, 0, len(c.actors))
	for i := range c.actors {
		ids = append(ids, i)
	}
	sort.Ints(ids)
	for _, i := range ids {
		a := c.actors[i]
		s := ActorStatus{Actor: i, St: a.st, Op: a.op}
		if a.st == StParked {
			s.Label = a.label
		}
		o.Status = append(o.Status, s)
	}
	return o
}

// busyStack: the goroutine is neither parked at a gate nor blocked inside the library.
// Waiting for a sync.Mutex / RWMutex counts as busy: no lock of the controller or of the
// library is held across a gate, so such a wait is always about to end.
func (c *Ctl) busyStack(g string) bool {
	nl := strings.IndexByte(g, '\n')
	head := g
	if nl >= 0 {
		head = g[:nl]
	}
	if strings.Contains(head, "[sync.Mutex.Lock") || strings.Contains(head, "[sync.RWMutex") {
		return c.MutexBlocked == nil || !c.MutexBlocked(g)
	}
	if hx.Blocked(g) {
		return false
	}
	// the signal-listener goroutine of core/proc sits in [syscall] for ever
	return !strings.Contains(g, "os/signal.signal_recv")
}

// Settle waits for quiescence.  It returns false on timeout.
func (c *Ctl) Settle(timeout time.Duration) bool {
	deadline := time.Now().Add(timeout)
	stable := 0
	quietSince := time.Now()
	var lastClock int64 = -1
	lastN := -1
	for spin := 0; ; spin++ {
		gs := hx.Stacks()
		quiet := atomic.LoadInt32(&c.busy) == 0
		for _, g := range gs[1:] { // gs[0] is the caller (running)
			if c.busyStack(g) {
				quiet = false // (the signal-listener goroutine of core/proc sits in [syscall] forever)
				break
			}
		}
		c.mu.Lock()
		clk := c.clock
		c.mu.Unlock()
		if quiet && clk == lastClock && len(gs) == lastN {
			stable++
		} else {
			stable = 0
		}
		lastClock, lastN = clk, len(gs)
		if !quiet || stable == 0 {
			quietSince = time.Now()
		}
		if quiet && stable >= 2 && time.Since(quietSince) >= c.MinQuiet {
			return true
		}
		if time.Now().After(deadline) {
			return false
		}
		if quiet {
			time.Sleep(20 * time.Microsecond) // let anything that is about to run show up
		} else if spin < 50 {
			runtime.Gosched()
		} else {
			time.Sleep(20 * time.Microsecond)
		}
	}
}

// Step releases actor id for one macro step (if it is parked) and waits for
// quiescence.  ok=false means the system did not quiesce in time.
func (c *Ctl) Step(id int, timeout time.Duration) (StepObs, bool) {
	c.mu.Lock()
	a := c.actors[id]
	var ch chan struct{}
	if a != nil && a.st == StParked {
		ch = a.ch
		a.ch = nil
		a.st = StBlocked // running inside the library until it parks again
	}
	c.mu.Unlock()
	if ch == nil {
		return c.snapshot(id, true), true
	}
	close(ch)
	ok := c.Settle(timeout)
	return c.snapshot(id, false), ok
}

// Start waits until all freshly started actors have reached their first gate and
// returns the initial statuses.
func (c *Ctl) Start(timeout time.Duration) (StepObs, bool) {
	ok := c.Settle(timeout)
	return c.snapshot(-1, true), ok
}

// Drain completes the run fairly after the given schedule is exhausted: it keeps
// releasing the lowest parked actor until nothing is parked.  The resolved steps
// are returned so that the model replays them too.
func (c *Ctl) Drain(timeout time.Duration, maxSteps int) ([]StepObs, bool) {
	var res []StepObs
	for i := 0; i < maxSteps; i++ {
		p := c.Parked()
		if len(p) == 0 {
			return res, true
		}
		o, ok := c.Step(p[0], timeout)
		res = append(res, o)
		if !ok {
			return res, false
		}
	}
	return res, false
}

// Abort releases every parked actor (used to unwind after an error; gates become free).
func (c *Ctl) Abort() {
	c.mu.Lock()
	c.Free = true
	for _, a := range c.actors {
		if a.st == StParked && a.ch != nil {
			close(a.ch)
			a.ch = nil
			a.st = StBlocked
		}
	}
	c.mu.Unlock()
}
