module github.com/fatih/structtag

go 1.18
