// Package structtag is a minimal stand-in for github.com/fatih/structtag (absent from
// the offline module cache): Parse splits a Go struct tag into key:"name,opt,..." items
// with reflect.StructTag's conventions.  Used by the C20 verification harness only (the
// formatter under test never calls it; tools/goctl/api/spec needs it to compile).
package structtag

import (
	"errors"
	"strconv"
	"strings"
)

type Tag struct {
	Key     string
	Name    string
	Options []string
}

type Tags struct{ tags []*Tag }

func (t *Tags) Tags() []*Tag { return t.tags }

func (t *Tags) Get(key string) (*Tag, error) {
	for _, x := range t.tags {
		if x.Key == key {
			return x, nil
		}
	}
	return nil, errors.New("tag does not exist")
}

func (t *Tags) Keys() []string {
	var ks []string
	for _, x := range t.tags {
		ks = append(ks, x.Key)
	}
	return ks
}

func (t *Tags) Len() int { return len(t.tags) }

func (t *Tag) Value() string {
	return strings.Join(append([]string{t.Name}, t.Options...), ",")
}

func (t *Tag) String() string { return t.Key + ":" + strconv.Quote(t.Value()) }

func Parse(tag string) (*Tags, error) {
	var tags []*Tag
	for tag != "" {
		i := 0
		for i < len(tag) && tag[i] == ' ' {
			i++
		}
		tag = tag[i:]
		if tag == "" {
			break
		}
		i = 0
		for i < len(tag) && tag[i] > ' ' && tag[i] != ':' && tag[i] != '"' && tag[i] != 0x7f {
			i++
		}
		if i == 0 {
			return nil, errors.New("bad syntax for struct tag key")
		}
		if i+1 >= len(tag) || tag[i] != ':' {
			return nil, errors.New("bad syntax for struct tag pair")
		}
		if tag[i+1] != '"' {
			return nil, errors.New("bad syntax for struct tag value")
		}
		key := tag[:i]
		tag = tag[i+1:]
		i = 1
		for i < len(tag) && tag[i] != '"' {
			if tag[i] == '\\' {
				i++
			}
			i++
		}
		if i >= len(tag) {
			return nil, errors.New("bad syntax for struct tag value")
		}
		qvalue := tag[:i+1]
		tag = tag[i+1:]
		value, err := strconv.Unquote(qvalue)
		if err != nil {
			return nil, errors.New("bad syntax for struct tag value")
		}
		res := strings.Split(value, ",")
		tags = append(tags, &Tag{Key: key, Name: res[0], Options: res[1:]})
	}
	return &Tags{tags: tags}, nil
}
