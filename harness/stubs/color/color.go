// Package color is a minimal stand-in for github.com/gookit/color (absent from the
// offline module cache).  Only the identifiers used by tools/goctl/util/{console,pathx}
// are provided; colours are not rendered.  Used by the C20 verification harness only.
package color

import "fmt"

// Color is a single colour/option code.
type Color uint8

const (
	Bold Color = 1
)

const (
	BgRed Color = 41
)

const (
	LightRed    Color = 91
	LightGreen  Color = 92
	LightYellow Color = 93
	LightCyan   Color = 96
)

func (c Color) Sprintf(format string, a ...interface{}) string { return fmt.Sprintf(format, a...) }
func (c Color) Sprint(a ...interface{}) string                 { return fmt.Sprint(a...) }
func (c Color) Println(a ...interface{})                       { fmt.Println(a...) }
func (c Color) Printf(format string, a ...interface{})         { fmt.Printf(format, a...) }
func (c Color) Render(a ...interface{}) string                 { return fmt.Sprint(a...) }

// Style is a list of colour codes.
type Style []Color

func New(colors ...Color) Style { return Style(colors) }

func (s Style) Render(a ...interface{}) string                 { return fmt.Sprint(a...) }
func (s Style) Sprintf(format string, a ...interface{}) string { return fmt.Sprintf(format, a...) }
func (s Style) Println(a ...interface{})                       { fmt.Println(a...) }
