module github.com/gookit/color

go 1.18
