// Package c17t: the run-time type builder and value dump of the C17 executors.
//
// This file is compiled twice: as package verifh/c17t for the black-box executor
// harness/cmd/c17, and — with its package clause rewritten to `package conf` by
// tools/props/c17.py — as a _test.go file injected with `go test -overlay` into core/conf
// for the white-box executor harness/overlay/conf/verif_c17_test.go.  Every identifier is
// therefore prefixed C17 (no clash with package conf) and nothing here imports go-zero.
package c17t

import (
	"encoding/json"
	"fmt"
	"math"
	"reflect"
	"sort"
	"strconv"
	"strings"
	"time"
)

type C17Range struct {
	LI bool    `json:"li"`
	L  *string `json:"l"`
	R  *string `json:"r"`
	RI bool    `json:"ri"`
}

type C17Opts struct {
	Opt     bool      `json:"opt"`
	Dep     *string   `json:"dep"`
	Neg     bool      `json:"neg"`
	Def     *string   `json:"def"`
	Range   *C17Range `json:"range"`
	Options []string  `json:"options"`
	Str     bool      `json:"str"`
	Env     *string   `json:"env"`     // ",env=NAME": the value comes from that environment variable when it is set
	Inherit bool      `json:"inherit"` // ",inherit": the value may come from the enclosing object
}

type C17Field struct {
	Key  string     `json:"key"`
	T    *C17Type   `json:"t"`
	O    *C17Opts   `json:"o"`
	Emb  bool       `json:"emb"`
	Tag  *string    `json:"tag"`  // embedded: optional json name
	F    []C17Field `json:"f"`    // embedded: the fields of the anonymous struct
	EOpt bool       `json:"eopt"` // embedded: tagged ",optional"
	EPtr bool       `json:"eptr"` // embedded: pointer to the struct
	Name string     `json:"name"` // embedded: a declared (named) struct type instead of F
	EmbT bool       `json:"embt"` // an anonymous field of the declared NON-struct type T (untagged)
}

// C17Type: K is a scalar kind ("int", "string", ...), "dur" (time.Duration), "num"
// (json.Number), "any" (interface{}), "bytes" ([]byte), "ptr", "slice", "arr" (N elements),
// "map" (map[string]E), "struct", or "named" (one of the types declared below, by Name).
type C17Type struct {
	K    string     `json:"k"`
	E    *C17Type   `json:"e"`
	F    []C17Field `json:"f"`
	N    int        `json:"n"`
	Name string     `json:"name"`
}

// ---------------------------------------------------------------- declared (named) types
// reflect cannot make named types at run time; the generator (tools/props/c17.py, NAMED)
// carries the same structure and checks it against C17Describe on every case that uses one.

type C17Node struct {
	Host    string
	MaxConn int      `json:"maxConn"`
	Tags    []string `json:"tags,optional"`
	hidden  int      // unexported: conf, mapping and encoding/json skip it
}

type C17Inner struct {
	LogLevel string `json:"logLevel,default=info"`
	secret   string // unexported
	Port     int
}

// an anonymous map-typed field next to a field claiming its key: conf reports a conflict
// (reflect.StructOf cannot build this one: it refuses an embedded map type next to other fields)
type C17MapClash struct {
	Key string `json:"c17nodemap"`
	C17NodeMap
}

type (
	C17MyInt   int
	C17MyU8    uint8
	C17MyStr   string
	C17MyF64   float64
	C17MyBool  bool
	C17Alias   = int64 // an alias: the very same type
	C17Nodes   []*C17Node
	C17NodeMap map[string]C17Node
	C17NodePtr *C17Node
	C17Pair    [2]C17Node
)

// a scalar that is read from text (encoding.TextUnmarshaler) and a struct that may also be given
// as one string "host:port" (json.Unmarshaler): user code that mapping calls while decoding
type C17Level int

func (l *C17Level) UnmarshalText(b []byte) error {
	switch string(b) {
	case "debug":
		*l = 1
	case "info":
		*l = 2
	case "error":
		*l = 3
	default:
		return fmt.Errorf("unknown level %q", b)
	}
	return nil
}

type C17Endpoint struct {
	Host string
	Port int
}

func (e *C17Endpoint) UnmarshalJSON(b []byte) error {
	host, port, ok := strings.Cut(strings.Trim(string(b), `"`), ":")
	if !ok {
		return fmt.Errorf("endpoint %q is not host:port", b)
	}
	n, err := strconv.Atoi(port)
	if err != nil {
		return err
	}
	e.Host, e.Port = host, n
	return nil
}

var C17Named = map[string]reflect.Type{
	"Level": reflect.TypeOf(C17Level(0)), "Endpoint": reflect.TypeOf(C17Endpoint{}),
	"Node": reflect.TypeOf(C17Node{}), "Inner": reflect.TypeOf(C17Inner{}),
	"MyInt": reflect.TypeOf(C17MyInt(0)), "MyU8": reflect.TypeOf(C17MyU8(0)), "MyStr": reflect.TypeOf(C17MyStr("")),
	"MyF64": reflect.TypeOf(C17MyF64(0)), "MyBool": reflect.TypeOf(C17MyBool(false)),
	"Alias": reflect.TypeOf(C17Alias(0)), "Nodes": reflect.TypeOf(C17Nodes(nil)),
	"NodeMap": reflect.TypeOf(C17NodeMap(nil)), "NodePtr": reflect.TypeOf(C17NodePtr(nil)),
	"Pair": reflect.TypeOf(C17Pair{}), "MapClash": reflect.TypeOf(C17MapClash{}),
}

var c17Prim = map[string]reflect.Type{
	"bool": reflect.TypeOf(false), "int": reflect.TypeOf(int(0)), "int8": reflect.TypeOf(int8(0)),
	"int16": reflect.TypeOf(int16(0)), "int32": reflect.TypeOf(int32(0)), "int64": reflect.TypeOf(int64(0)),
	"uint": reflect.TypeOf(uint(0)), "uint8": reflect.TypeOf(uint8(0)), "uint16": reflect.TypeOf(uint16(0)),
	"uint32": reflect.TypeOf(uint32(0)), "uint64": reflect.TypeOf(uint64(0)),
	"float32": reflect.TypeOf(float32(0)), "float64": reflect.TypeOf(float64(0)), "string": reflect.TypeOf(""),
	"dur": reflect.TypeOf(time.Duration(0)), "num": reflect.TypeOf(json.Number("")),
	"any": reflect.TypeOf((*any)(nil)).Elem(), "bytes": reflect.TypeOf([]byte(nil)),
}

func c17RenderRange(r *C17Range) string {
	var b strings.Builder
	if r.LI {
		b.WriteByte('[')
	} else {
		b.WriteByte('(')
	}
	if r.L != nil {
		b.WriteString(*r.L)
	}
	b.WriteByte(':')
	if r.R != nil {
		b.WriteString(*r.R)
	}
	if r.RI {
		b.WriteByte(']')
	} else {
		b.WriteByte(')')
	}
	return b.String()
}

func c17RenderTag(f C17Field) string {
	segs := []string{f.Key}
	if o := f.O; o != nil {
		if o.Opt {
			if o.Dep != nil {
				if o.Neg {
					segs = append(segs, "optional=!"+*o.Dep)
				} else {
					segs = append(segs, "optional="+*o.Dep)
				}
			} else {
				segs = append(segs, "optional")
			}
		}
		if o.Def != nil {
			segs = append(segs, "default="+*o.Def)
		}
		if o.Range != nil {
			segs = append(segs, "range="+c17RenderRange(o.Range))
		}
		if len(o.Options) > 0 {
			segs = append(segs, "options="+strings.Join(o.Options, "|"))
		}
		if o.Str {
			segs = append(segs, "string")
		}
		if o.Env != nil {
			segs = append(segs, "env="+*o.Env)
		}
		if o.Inherit {
			segs = append(segs, "inherit")
		}
	}
	return `json:"` + strings.Join(segs, ",") + `"`
}

// C17BuildStruct makes the struct type with the given fields (named fields F<i>, embedded E<i>).
func C17BuildStruct(fields []C17Field) (reflect.Type, error) {
	fs := make([]reflect.StructField, 0, len(fields))
	for i, f := range fields {
		if f.EmbT {
			if f.T == nil || f.T.K != "named" {
				return nil, fmt.Errorf("embt needs a declared type")
			}
			nt, ok := C17Named[f.T.Name]
			if !ok || nt.Kind() == reflect.Struct {
				return nil, fmt.Errorf("embt: declared non-struct type expected, got %q", f.T.Name)
			}
			fs = append(fs, reflect.StructField{Name: nt.Name(), Type: nt, Anonymous: true})
			continue
		}
		if f.Emb {
			var st reflect.Type
			var err error
			if f.Name != "" {
				var ok bool
				if st, ok = C17Named[f.Name]; !ok || st.Kind() != reflect.Struct {
					return nil, fmt.Errorf("embedded named type %q", f.Name)
				}
			} else if st, err = C17BuildStruct(f.F); err != nil {
				return nil, err
			}
			name := fmt.Sprintf("E%d", i)
			if f.EPtr {
				st = reflect.PointerTo(st)
			}
			sf := reflect.StructField{Name: name, Type: st, Anonymous: true}
			tag := ""
			if f.Tag != nil {
				tag = *f.Tag
			}
			if f.EOpt {
				sf.Tag = reflect.StructTag(`json:"` + tag + `,optional"`)
			} else if f.Tag != nil {
				sf.Tag = reflect.StructTag(`json:"` + tag + `"`)
			}
			fs = append(fs, sf)
			continue
		}
		ft, err := C17Build(f.T)
		if err != nil {
			return nil, err
		}
		fs = append(fs, reflect.StructField{
			Name: fmt.Sprintf("F%d", i),
			Type: ft,
			Tag:  reflect.StructTag(c17RenderTag(f)),
		})
	}
	return reflect.StructOf(fs), nil
}

func C17Build(t *C17Type) (reflect.Type, error) {
	if t == nil {
		return nil, fmt.Errorf("nil type")
	}
	switch t.K {
	case "ptr", "slice", "arr", "map":
		e, err := C17Build(t.E)
		if err != nil {
			return nil, err
		}
		switch t.K {
		case "ptr":
			return reflect.PointerTo(e), nil
		case "slice":
			return reflect.SliceOf(e), nil
		case "arr":
			return reflect.ArrayOf(t.N, e), nil
		default:
			return reflect.MapOf(c17Prim["string"], e), nil
		}
	case "struct":
		return C17BuildStruct(t.F)
	case "named":
		nt, ok := C17Named[t.Name]
		if !ok {
			return nil, fmt.Errorf("unknown named type %q", t.Name)
		}
		return nt, nil
	default:
		p, ok := c17Prim[t.K]
		if !ok {
			return nil, fmt.Errorf("unknown kind %q", t.K)
		}
		return p, nil
	}
}

// C17Describe renders the STRUCTURE of a type as reflect sees it (names of declared types
// erased): what the generator believes the type to be is compared with this.
func C17Describe(t reflect.Type) string {
	switch {
	case t == c17Prim["dur"]:
		return "dur"
	case t == c17Prim["num"]:
		return "num"
	case t == c17Prim["bytes"]:
		return "bytes"
	}
	switch t.Kind() {
	case reflect.Ptr:
		return "*" + C17Describe(t.Elem())
	case reflect.Slice:
		return "[]" + C17Describe(t.Elem())
	case reflect.Array:
		return "[" + strconv.Itoa(t.Len()) + "]" + C17Describe(t.Elem())
	case reflect.Map:
		return "map[" + t.Key().Kind().String() + "]" + C17Describe(t.Elem())
	case reflect.Interface:
		return "any"
	case reflect.Struct:
		var b strings.Builder
		b.WriteString("struct{")
		first := true
		for i := 0; i < t.NumField(); i++ {
			f := t.Field(i)
			if !f.IsExported() {
				continue // skipped by conf, mapping and encoding/json alike
			}
			if !first {
				b.WriteString("; ")
			}
			first = false
			if f.Anonymous {
				b.WriteString("embed ")
			}
			tag, has := f.Tag.Lookup("json")
			if !has {
				tag = f.Name // conf / mapping use the Go field name when there is no tag
				if f.Anonymous {
					tag = ""
				}
			}
			b.WriteString(strconv.Quote(tag) + " " + C17Describe(f.Type))
		}
		b.WriteString("}")
		return b.String()
	default:
		return t.Kind().String()
	}
}

func c17FmtFloat(f float64, bits int) string {
	if math.IsNaN(f) {
		return "NaN"
	}
	if math.IsInf(f, 1) {
		return "+Inf"
	}
	if math.IsInf(f, -1) {
		return "-Inf"
	}
	if bits == 32 {
		return strconv.FormatFloat(f, 'e', 5, 32)
	}
	return strconv.FormatFloat(f, 'e', 14, 64)
}

// C17Dump: canonical dump of a decoded value (floats by value, maps sorted, nil-ness kept).
func C17Dump(v reflect.Value) any {
	switch v.Kind() {
	case reflect.Bool:
		return map[string]any{"b": v.Bool()}
	case reflect.Int, reflect.Int8, reflect.Int16, reflect.Int32, reflect.Int64:
		return map[string]any{"i": strconv.FormatInt(v.Int(), 10)}
	case reflect.Uint, reflect.Uint8, reflect.Uint16, reflect.Uint32, reflect.Uint64:
		return map[string]any{"i": strconv.FormatUint(v.Uint(), 10)}
	case reflect.Float32:
		return map[string]any{"f": c17FmtFloat(v.Float(), 32)}
	case reflect.Float64:
		return map[string]any{"f": c17FmtFloat(v.Float(), 64)}
	case reflect.String:
		return map[string]any{"s": v.String()}
	case reflect.Ptr:
		if v.IsNil() {
			return map[string]any{"z": 1}
		}
		return map[string]any{"p": C17Dump(v.Elem())}
	case reflect.Interface:
		if v.IsNil() {
			return map[string]any{"z": 1}
		}
		return map[string]any{"any": C17Dump(v.Elem())}
	case reflect.Slice, reflect.Array:
		if v.Kind() == reflect.Slice && v.IsNil() {
			return map[string]any{"z": 1}
		}
		l := make([]any, 0, v.Len())
		for i := 0; i < v.Len(); i++ {
			l = append(l, C17Dump(v.Index(i)))
		}
		return map[string]any{"l": l}
	case reflect.Map:
		if v.IsNil() {
			return map[string]any{"z": 1}
		}
		keys := make([]string, 0, v.Len())
		for _, k := range v.MapKeys() {
			keys = append(keys, k.String())
		}
		sort.Strings(keys)
		l := make([]any, 0, len(keys))
		for _, k := range keys {
			l = append(l, []any{k, C17Dump(v.MapIndex(reflect.ValueOf(k).Convert(v.Type().Key())))})
		}
		return map[string]any{"m": l}
	case reflect.Struct:
		l := make([]any, 0, v.NumField())
		for i := 0; i < v.NumField(); i++ {
			l = append(l, C17Dump(v.Field(i)))
		}
		return map[string]any{"st": l}
	default:
		return map[string]any{"unknown": v.Kind().String()}
	}
}

// C17Shared reports whether two positions of a decoded value share storage: the same non-nil
// pointer, the same map, or the same backing array of a non-empty slice reached twice.  A decoder
// must give every position its own cell (mutating one decoded element must not change another).
// Pointers to zero-size values are ignored (the runtime may give them one address).
func C17Shared(v reflect.Value) bool { return C17SharedAmong(v) }

// C17SharedAmong: the same, over several decoded values together (two configurations loaded one after
// the other must not share a default list, a cached map, a pooled cell ...).
func C17SharedAmong(vs ...reflect.Value) bool {
	type cell struct {
		p uintptr
		t reflect.Type
	}
	seen := map[cell]bool{}
	var walk func(v reflect.Value) bool
	mark := func(p uintptr, t reflect.Type) bool {
		c := cell{p, t}
		if seen[c] {
			return true
		}
		seen[c] = true
		return false
	}
	walk = func(v reflect.Value) bool {
		switch v.Kind() {
		case reflect.Ptr:
			if v.IsNil() {
				return false
			}
			if v.Type().Elem().Size() > 0 && mark(v.Pointer(), v.Type()) {
				return true
			}
			return walk(v.Elem())
		case reflect.Interface:
			if v.IsNil() {
				return false
			}
			return walk(v.Elem())
		case reflect.Slice:
			if v.IsNil() || v.Len() == 0 {
				return false
			}
			if v.Type().Elem().Size() > 0 && mark(v.Pointer(), v.Type()) {
				return true
			}
			fallthrough
		case reflect.Array:
			for i := 0; i < v.Len(); i++ {
				if walk(v.Index(i)) {
					return true
				}
			}
		case reflect.Map:
			if v.IsNil() {
				return false
			}
			if mark(v.Pointer(), v.Type()) {
				return true
			}
			iter := v.MapRange()
			for iter.Next() {
				if walk(iter.Value()) {
					return true
				}
			}
		case reflect.Struct:
			for i := 0; i < v.NumField(); i++ {
				if walk(v.Field(i)) {
					return true
				}
			}
		}
		return false
	}
	for _, v := range vs {
		if walk(v) {
			return true
		}
	}
	return false
}
