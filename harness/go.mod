module verifh

go 1.21

require github.com/zeromicro/go-zero v0.0.0

require (
	github.com/fatih/color v1.18.0 // indirect
	github.com/mattn/go-colorable v0.1.13 // indirect
	github.com/mattn/go-isatty v0.0.20 // indirect
	github.com/spaolacci/murmur3 v1.1.0 // indirect
	go.opentelemetry.io/otel v1.24.0 // indirect
	go.opentelemetry.io/otel/trace v1.24.0 // indirect
	go.uber.org/automaxprocs v1.6.0 // indirect
	golang.org/x/sys v0.30.0 // indirect
)

replace github.com/zeromicro/go-zero => /repo
