module verifh

go 1.21

require (
	github.com/golang-jwt/jwt/v4 v4.5.2
	github.com/pelletier/go-toml/v2 v2.2.2
	github.com/zeromicro/go-zero v0.0.0
	gopkg.in/yaml.v2 v2.4.0
)

require (
	filippo.io/edwards25519 v1.1.0 // indirect
	github.com/beorn7/perks v1.0.1 // indirect
	github.com/cenkalti/backoff/v4 v4.3.0 // indirect
	github.com/cespare/xxhash/v2 v2.3.0 // indirect
	github.com/dgryski/go-rendezvous v0.0.0-20200823014737-9f7001d12a5f // indirect
	github.com/fatih/color v1.18.0 // indirect
	github.com/go-logr/logr v1.4.2 // indirect
	github.com/go-logr/stdr v1.2.2 // indirect
	github.com/go-sql-driver/mysql v1.9.0 // indirect
	github.com/google/uuid v1.6.0 // indirect
	github.com/grpc-ecosystem/grpc-gateway/v2 v2.20.0 // indirect
	github.com/klauspost/compress v1.17.11 // indirect
	github.com/mattn/go-colorable v0.1.13 // indirect
	github.com/mattn/go-isatty v0.0.20 // indirect
	github.com/munnerz/goautoneg v0.0.0-20191010083416-a7dc8b61c822 // indirect
	github.com/openzipkin/zipkin-go v0.4.3 // indirect
	github.com/prometheus/client_golang v1.21.1 // indirect
	github.com/prometheus/client_model v0.6.1 // indirect
	github.com/prometheus/common v0.62.0 // indirect
	github.com/prometheus/procfs v0.15.1 // indirect
	github.com/redis/go-redis/v9 v9.7.3 // indirect
	github.com/spaolacci/murmur3 v1.1.0 // indirect
	go.opentelemetry.io/otel v1.24.0 // indirect
	go.opentelemetry.io/otel/exporters/jaeger v1.17.0 // indirect
	go.opentelemetry.io/otel/exporters/otlp/otlptrace v1.24.0 // indirect
	go.opentelemetry.io/otel/exporters/otlp/otlptrace/otlptracegrpc v1.24.0 // indirect
	go.opentelemetry.io/otel/exporters/otlp/otlptrace/otlptracehttp v1.24.0 // indirect
	go.opentelemetry.io/otel/exporters/stdout/stdouttrace v1.24.0 // indirect
	go.opentelemetry.io/otel/exporters/zipkin v1.24.0 // indirect
	go.opentelemetry.io/otel/metric v1.24.0 // indirect
	go.opentelemetry.io/otel/sdk v1.24.0 // indirect
	go.opentelemetry.io/otel/trace v1.24.0 // indirect
	go.opentelemetry.io/proto/otlp v1.3.1 // indirect
	go.uber.org/automaxprocs v1.6.0 // indirect
	golang.org/x/net v0.35.0 // indirect
	golang.org/x/sys v0.30.0 // indirect
	golang.org/x/text v0.22.0 // indirect
	google.golang.org/genproto/googleapis/api v0.0.0-20240711142825-46eb208f015d // indirect
	google.golang.org/genproto/googleapis/rpc v0.0.0-20240701130421-f6361c86f094 // indirect
	google.golang.org/grpc v1.65.0 // indirect
	google.golang.org/protobuf v1.36.5 // indirect
)

replace github.com/zeromicro/go-zero => /repo
