// Executor for C09: registers a generated (method, pattern) table on
// router.NewRouter() and sends generated requests through ServeHTTP, reporting
// which handler ran, pathvar.Vars, status code, Allow header (sorted set),
// registration errors and path.Clean of every pattern / request path.
package main

import (
	"context"
	"errors"
	"fmt"
	"net/http"
	"net/http/httptest"
	"path"
	"sort"
	"strings"
	"time"

	"github.com/zeromicro/go-zero/core/logx"
	"github.com/zeromicro/go-zero/rest"
	"github.com/zeromicro/go-zero/rest/pathvar"
	"github.com/zeromicro/go-zero/rest/router"
	"verifh/hx"
)

type Case struct {
	ID   int         `json:"id"`
	Kind string      `json:"kind"` // "" / "router": router.NewRouter(); "server": rest.NewServer
	NF   bool        `json:"nf"`   // install a custom not-found handler
	NA   bool        `json:"na"`   // install a custom not-allowed handler
	Regs [][2]string `json:"regs"`
	Reqs [][2]string `json:"reqs"`
	// server kind
	Cors   bool    `json:"cors"` // rest.WithCors()
	Use    bool    `json:"use"`  // server.Use(global middleware)
	Groups []Group `json:"groups"`
}

// Group is one AddRoutes call.
type Group struct {
	Prefix *string     `json:"prefix"` // nil: no WithPrefix option
	MW     bool        `json:"mw"`     // routes wrapped with rest.WithMiddlewares
	Opts   bool        `json:"opts"`   // harmless extra options (timeout, max bytes, priority)
	Single bool        `json:"single"` // use AddRoute per route
	Routes [][2]string `json:"routes"`
}

type Res struct {
	K      string      `json:"k"` // h | na | nf | nac | nfc | panic | other
	H      int         `json:"h"`
	Vars   [][2]string `json:"vars"`
	Allow  []string    `json:"allow"`
	Status int         `json:"status"`
	Clean  string      `json:"clean"`
	MWs    []int       `json:"mws"` // middleware tags seen by the handler, outermost first
	Note   string      `json:"note,omitempty"`
}

type Out struct {
	ID     int      `json:"id"`
	RegErr []int    `json:"regerr"` // 0 ok, 1 invalid method, 2 invalid path, 3 duplicated item, 4 other
	PClean []string `json:"pclean"`
	Res    []Res    `json:"res"`
	Err    string   `json:"err,omitempty"`
	// server kind
	Start  int         `json:"start"`  // 0 routes bound, else class of the error Start died with
	Routes [][2]string `json:"routes"` // server.Routes()
}

type ran struct {
	h    int
	vars map[string]string
	mws  []int
}

type mwKey struct{}

func tagMW(tag int) rest.Middleware {
	return func(next http.HandlerFunc) http.HandlerFunc {
		return func(w http.ResponseWriter, r *http.Request) {
			old, _ := r.Context().Value(mwKey{}).([]int)
			tags := append(append([]int{}, old...), tag)
			next(w, r.WithContext(context.WithValue(r.Context(), mwKey{}, tags)))
		}
	}
}

func regErr(err error) int {
	switch {
	case err == nil:
		return 0
	case strings.Contains(err.Error(), "listen tcp") || strings.Contains(err.Error(), "invalid port"):
		return 0 // routes were bound, only the (deliberately impossible) listen failed
	case errors.Is(err, router.ErrInvalidMethod):
		return 1
	case errors.Is(err, router.ErrInvalidPath):
		return 2
	case strings.HasPrefix(err.Error(), "duplicated item"):
		return 3
	}
	return 4
}

type state struct {
	runs   []ran
	custom string
}

func (st *state) handler(i int) http.HandlerFunc {
	return func(w http.ResponseWriter, r *http.Request) {
		vars := map[string]string{}
		for k, v := range pathvar.Vars(r) {
			vars[k] = v
		}
		mws, _ := r.Context().Value(mwKey{}).([]int)
		st.runs = append(st.runs, ran{h: i, vars: vars, mws: mws})
	}
}

func (st *state) notFound() http.Handler {
	return http.HandlerFunc(func(w http.ResponseWriter, r *http.Request) {
		st.custom += "nf"
		w.WriteHeader(http.StatusNotFound)
	})
}

func (st *state) notAllowed() http.Handler {
	return http.HandlerFunc(func(w http.ResponseWriter, r *http.Request) {
		st.custom += "na"
		w.WriteHeader(http.StatusMethodNotAllowed)
	})
}

// buildServer registers the groups on a real rest.Server and lets Start bind them to the
// router; the listen address is made impossible so that Start returns right after binding.
func buildServer(c Case, st *state, out *Out) http.Handler {
	var opts []rest.RunOption
	if c.NF {
		opts = append(opts, rest.WithNotFoundHandler(st.notFound()))
	}
	if c.NA {
		opts = append(opts, rest.WithNotAllowedHandler(st.notAllowed()))
	}
	if c.Cors {
		opts = append(opts, rest.WithCors())
	}
	var conf rest.RestConf
	conf.Name = "c09"
	conf.Host = "127.0.0.1"
	conf.Port = 1
	conf.Log.Mode = "console"
	conf.Log.Encoding = "plain"
	conf.Mode = "test"
	srv, err := rest.NewServer(conf, opts...)
	if err != nil {
		out.Err = "NewServer: " + err.Error()
		return nil
	}
	logx.Disable()
	if c.Use {
		srv.Use(tagMW(1000))
	}
	h := 0
	for gi, g := range c.Groups {
		var rs []rest.Route
		for _, r := range g.Routes {
			rs = append(rs, rest.Route{Method: r[0], Path: r[1], Handler: st.handler(h)})
			h++
		}
		if g.MW {
			rs = rest.WithMiddlewares([]rest.Middleware{tagMW(gi)}, rs...)
		}
		var ro []rest.RouteOption
		if g.Opts {
			ro = append(ro, rest.WithTimeout(3*time.Second), rest.WithMaxBytes(1<<20))
		}
		if g.Prefix != nil {
			ro = append(ro, rest.WithPrefix(*g.Prefix))
		}
		if g.Opts {
			ro = append(ro, rest.WithPriority())
		}
		if g.Single {
			for _, r := range rs {
				srv.AddRoute(r, ro...)
			}
		} else {
			srv.AddRoutes(rs, ro...)
		}
	}
	out.Routes = [][2]string{}
	for _, r := range srv.Routes() {
		out.Routes = append(out.Routes, [2]string{r.Method, r.Path})
	}
	var handler http.Handler
	var serr error
	func() {
		defer func() {
			if p := recover(); p != nil {
				if e, ok := p.(error); ok {
					serr = e
				} else {
					serr = fmt.Errorf("panic: %v", p)
				}
			}
		}()
		srv.StartWithOpts(func(s *http.Server) {
			handler = s.Handler
			s.Addr = "127.0.0.1:-1"
		})
	}()
	out.Start = regErr(serr)
	if serr == nil {
		out.Start = 4 // Start returned without error: impossible with this address
	}
	if out.Start != 0 {
		return nil
	}
	return handler
}

func runCase(c Case) (out Out) {
	out.ID = c.ID
	out.RegErr = []int{}
	out.PClean = []string{}
	out.Res = []Res{}
	st := &state{}
	var rt http.Handler
	if c.Kind == "server" {
		rt = buildServer(c, st, &out)
		if rt == nil {
			return out
		}
	} else {
		prt := router.NewRouter()
		rt = prt
		if c.NF {
			prt.SetNotFoundHandler(st.notFound())
		}
		if c.NA {
			prt.SetNotAllowedHandler(st.notAllowed())
		}
		for i, rg := range c.Regs {
			var err error
			func() {
				defer func() {
					if p := recover(); p != nil {
						err = fmt.Errorf("panic: %v", p)
					}
				}()
				err = prt.Handle(rg[0], rg[1], st.handler(i))
			}()
			out.RegErr = append(out.RegErr, regErr(err))
			out.PClean = append(out.PClean, path.Clean(rg[1]))
		}
	}
	for _, rq := range c.Reqs {
		st.runs = nil
		st.custom = ""
		res := Res{Vars: [][2]string{}, Allow: []string{}, MWs: []int{}, Clean: path.Clean(rq[1])}
		req := httptest.NewRequest(http.MethodGet, "/", nil)
		req.Method = rq[0]
		req.URL.Path = rq[1]
		req.RequestURI = rq[1]
		w := httptest.NewRecorder()
		panicked := false
		func() {
			defer func() {
				if p := recover(); p != nil {
					panicked = true
					res.Note = fmt.Sprint(p)
				}
			}()
			rt.ServeHTTP(w, req)
		}()
		res.Status = w.Code
		allow, hasAllow := w.Header()["Allow"]
		runs, custom := st.runs, st.custom
		cors := w.Header().Get("Access-Control-Allow-Origin") != ""
		switch {
		case panicked:
			res.K = "panic"
		case cors && !c.Cors, !cors && c.Cors:
			res.K = "other"
			res.Note = "CORS headers do not match the option"
		case len(runs) == 0 && custom == "" && cors && w.Code == 204 && !hasAllow:
			res.K = "cors204"
		case len(runs) == 1 && custom == "" && !hasAllow && w.Code == 200:
			res.K = "h"
			res.H = runs[0].h
			res.MWs = append(res.MWs, runs[0].mws...)
			for k, v := range runs[0].vars {
				res.Vars = append(res.Vars, [2]string{k, v})
			}
			sort.Slice(res.Vars, func(a, b int) bool { return res.Vars[a][0] < res.Vars[b][0] })
		case len(runs) == 0 && custom == "nf" && w.Code == 404 && !hasAllow:
			res.K = "nfc"
		case len(runs) == 0 && custom == "na" && w.Code == 405 && !hasAllow:
			res.K = "nac"
		case len(runs) == 0 && custom == "" && w.Code == 404 && !hasAllow:
			res.K = "nf"
		case len(runs) == 0 && custom == "" && w.Code == 405 && len(allow) == 1:
			res.K = "na"
			for _, m := range strings.Split(allow[0], ", ") {
				res.Allow = append(res.Allow, m)
			}
			sort.Strings(res.Allow)
		default:
			res.K = "other"
			res.Note = fmt.Sprintf("runs=%d custom=%q status=%d allow=%v", len(runs), custom, w.Code, allow)
		}
		out.Res = append(out.Res, res)
	}
	return out
}

func main() {
	var cases []Case
	hx.ReadCases(&cases)
	w := hx.NewWriter()
	defer w.Close()
	for _, c := range cases {
		w.Put(runCase(c))
	}
}
