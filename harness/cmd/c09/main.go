// Executor for C09.
//
// kind "router": registers a generated (method, pattern) table on router.NewRouter() and sends
// generated requests through ServeHTTP.
//
// kind "server": the route tables are the slices the user wrote (one backing array per table);
// a sequence of events mounts them (the same slice value, or sub-slices of it, any number of
// times, on any of several rest.Server instances, through AddRoutes or AddRoute, with route
// options in a given order) and starts the servers (engine.bindRoutes -> router.Handle);
// requests are then sent to the http.Handler each server would listen with.
//
// Reported per request: which handler ran, pathvar.Vars, middleware tags seen, status code,
// Allow header (split on ',', trimmed, sorted), the URL.Path the server derived from the request
// target and path.Clean of it.  Reported per case: registration error classes, path.Clean of
// every pattern, Server.Routes(), how Start ended, and the user's tables after registration.
package main

import (
	"bufio"
	"context"
	"crypto/tls"
	"errors"
	"fmt"
	"io"
	"net/http"
	"net/http/httptest"
	"os"
	"path"
	"reflect"
	"regexp"
	"sort"
	"strings"
	"sync"
	"time"

	"github.com/golang-jwt/jwt/v4"
	"github.com/zeromicro/go-zero/core/logx"
	"github.com/zeromicro/go-zero/rest"
	"github.com/zeromicro/go-zero/rest/chain"
	"github.com/zeromicro/go-zero/rest/httpx"
	"github.com/zeromicro/go-zero/rest/pathvar"
	"github.com/zeromicro/go-zero/rest/router"
	"verifh/hx"
)

const jwtSecret = "c09-secret-0123456789"

// the route timeout of mounts with the "shorttimeout" option: a request whose handler is parked
// ("hold") is answered 503 by rest's timeout middleware after this long, the handler goes on
const shortTimeout = 100 * time.Millisecond

type Case struct {
	ID   int         `json:"id"`
	Kind string      `json:"kind"` // "" / "router": router.NewRouter(); "server": rest.NewServer
	NF   bool        `json:"nf"`   // router kind: install a custom not-found handler
	NA   bool        `json:"na"`   // router kind: install a custom not-allowed handler
	Regs [][2]string `json:"regs"`
	// requests: router kind [method, target, mode]; server kind [server, method, target, mode]
	// mode "path": URL.Path := target; mode "raw": the request line is parsed by http.ReadRequest
	Reqs [][]string `json:"reqs"`
	// server kind
	Tables  [][][2]string `json:"tables"`
	Servers []ServerCfg   `json:"servers"`
	Events  []Event       `json:"events"`
}

type ServerCfg struct {
	NF     bool `json:"nf"`     // rest.WithNotFoundHandler
	NA     bool `json:"na"`     // rest.WithNotAllowedHandler
	Cors   bool `json:"cors"`   // rest.WithCors()
	Use    bool `json:"use"`    // server.Use(tag 1000)
	Chain  bool `json:"chain"`  // rest.WithChain(chain.New(tag 2000))
	Native bool `json:"native"` // the built-in middlewares of RestConf.Middlewares switched on
	Must   bool `json:"must"`   // rest.MustNewServer instead of rest.NewServer
	// options that must be transparent for dispatch
	OwnRouter bool `json:"ownrouter"` // rest.WithRouter(a recording wrapper of router.NewRouter()) (given first)
	// ... given LAST instead: "later RunOption might overwrite previous one" - the not-found / not-allowed handlers,
	// CORS and file-server wrappers set up by the earlier options went to the router that is now replaced
	OwnRouterLast bool `json:"ownrouter_last"`
	CorsKind      int  `json:"corskind"` // with cors: 0 WithCors(), 1 WithCorsHeaders, 2 WithCustomCors(nil, nil)
	Files         bool `json:"files"`    // rest.WithFileServer("/static", a file system without files)
	Extras        bool `json:"extras"`   // WithUnauthorizedCallback, WithUnsignedCallback, WithTLSConfig, Verbose
	Scribble      bool `json:"scribble"` // the caller overwrites the slice Server.Routes() returned, before Start
}

// recRouter is the user's own httpx.Router (rest.WithRouter): router.NewRouter() behind a wrapper that
// records every Handle call engine.bindRoutes makes, in order, with what it returned.
type recRouter struct {
	httpx.Router
	mu    sync.Mutex
	calls [][3]string
}

func (r *recRouter) Handle(method, path string, h http.Handler) error {
	err := r.Router.Handle(method, path, h)
	r.mu.Lock()
	r.calls = append(r.calls, [3]string{method, path, fmt.Sprint(regErr(err))})
	r.mu.Unlock()
	return err
}

type noFiles struct{}

func (noFiles) Open(name string) (http.File, error) { return nil, os.ErrNotExist }

// Event is one step of the registration sequence.
type Event struct {
	Ev     string     `json:"ev"` // "mount" | "start"
	Server int        `json:"server"`
	Table  int        `json:"table"`
	Lo     int        `json:"lo"`
	Hi     int        `json:"hi"`
	Single bool       `json:"single"` // AddRoute per route instead of AddRoutes
	MW     bool       `json:"mw"`     // rest.WithMiddlewares([tag = index of the event], routes...)
	Tag    int        `json:"tag"`
	Opts   [][]string `json:"opts"` // ["prefix", p] | ["timeout"] | ["maxbytes"] | ["priority"] | ["sse"] | ["jwt"]
}

type Res struct {
	K       string      `json:"k"` // h | na | nf | nac | nfc | cors204 | badreq | panic | other
	H       int         `json:"h"`
	Vars    [][2]string `json:"vars"`
	Allow   []string    `json:"allow"`
	Status  int         `json:"status"`
	Path    string      `json:"path"`    // r.URL.Path as the server sees it
	RawPath string      `json:"rawpath"` // r.URL.RawPath (net/url keeps it when the target is not in the default encoding)
	Clean   string      `json:"clean"`
	MWs     []int       `json:"mws"` // middleware tags seen by the handler, outermost first
	// every further read of the path variables of THIS request: by the handler after its gate opened
	// (held past the route timeout / concurrent batch), and after all later requests of the case were
	// served: the map the handler kept, pathvar.Vars(r) again, httpx.ParsePath(r, ..)
	Late [][][2]string `json:"late"`
	Held bool          `json:"held,omitempty"` // the timeout middleware answered 503 while the handler was parked
	Note string        `json:"note,omitempty"`
}

type Out struct {
	ID     int      `json:"id"`
	RegErr []int    `json:"regerr"` // 0 ok, 1 invalid method, 2 invalid path, 3 duplicated item, 4 other
	PClean []string `json:"pclean"`
	Res    []Res    `json:"res"`
	Err    string   `json:"err,omitempty"`
	// server kind, one entry per server
	Printed     [][]string    `json:"printed"`      // the lines of Server.PrintRoutes() after the last event
	Starts      []int         `json:"starts"`       // 0 routes bound, else class of the error Start died with; -1 never started
	Routes      [][][2]string `json:"routes"`       // server.Routes() after the last event
	TablesAfter [][][2]string `json:"tables_after"` // the user's slices after the last event
	// per server: the Handle calls made on the user's own router [method, path, error class]; null without WithRouter
	Bound [][][3]string `json:"bound"`
}

type ran struct {
	h    int
	vars map[string]string
	mws  []int
}

type mwKey struct{}

func tagMW(tag int) rest.Middleware {
	return func(next http.HandlerFunc) http.HandlerFunc {
		return func(w http.ResponseWriter, r *http.Request) {
			old, _ := r.Context().Value(mwKey{}).([]int)
			tags := append(append([]int{}, old...), tag)
			// every middleware of the route's chain sees the path variables of the request too:
			// read them on the way in and on the way out
			c, _ := r.Context().Value(ctlKey{}).(*reqCtl)
			if c != nil && !c.scrib {
				c.addLate(sortedVars(pathvar.Vars(r)))
			}
			next(w, r.WithContext(context.WithValue(r.Context(), mwKey{}, tags)))
			if c != nil && !c.scrib {
				c.addLate(sortedVars(pathvar.Vars(r)))
			}
		}
	}
}

func regErr(err error) int {
	switch {
	case err == nil:
		return 0
	case strings.Contains(err.Error(), "listen tcp") || strings.Contains(err.Error(), "invalid port"):
		return 0 // routes were bound, only the (deliberately impossible) listen failed
	case errors.Is(err, router.ErrInvalidMethod):
		return 1
	case errors.Is(err, router.ErrInvalidPath):
		return 2
	case strings.HasPrefix(err.Error(), "duplicated item"):
		return 3
	}
	return 4
}

// reqCtl travels with one request (context value): what happened to THAT request.
type reqCtl struct {
	mu      sync.Mutex
	runs    []ran
	custom  string
	req     *http.Request     // the request as the handler got it
	ref     map[string]string // the very map pathvar.Vars returned to the handler
	late    [][][2]string
	gate    chan struct{} // the handler parks here after its first read (nil: does not park)
	pre     bool          // ... before its first read instead
	do      string        // what the handler itself answers: "" (nothing), 201, 404, 405, 500, panic
	scrib   bool          // the handler writes into the vars map it was given (its own business)
	entered chan struct{} // closed when the handler has done its first read
	done    chan struct{} // closed when the handler returns
}

type ctlKey struct{}

type state struct{}

func sortedVars(m map[string]string) [][2]string {
	out := [][2]string{}
	for k, v := range m {
		out = append(out, [2]string{k, v})
	}
	sort.Slice(out, func(a, b int) bool { return out[a][0] < out[b][0] })
	return out
}

func (c *reqCtl) addLate(v [][2]string) {
	c.mu.Lock()
	c.late = append(c.late, v)
	c.mu.Unlock()
}

func ctlOf(r *http.Request) *reqCtl {
	c, _ := r.Context().Value(ctlKey{}).(*reqCtl)
	if c == nil {
		c = &reqCtl{} // cannot happen: every request is sent with a control block
	}
	return c
}

func (st *state) handler(i int) http.HandlerFunc {
	return func(w http.ResponseWriter, r *http.Request) {
		c := ctlOf(r)
		if c.pre && c.gate != nil {
			// parked before it has looked at anything: the route timeout answers, others are served
			c.mu.Lock()
			dup := len(c.runs) > 0
			c.mu.Unlock()
			if !dup {
				close(c.entered)
				<-c.gate
			}
		}
		ref := pathvar.Vars(r)
		vars := map[string]string{}
		for k, v := range ref {
			vars[k] = v
		}
		mws, _ := r.Context().Value(mwKey{}).([]int)
		c.mu.Lock()
		c.runs = append(c.runs, ran{h: i, vars: vars, mws: mws})
		first := len(c.runs) == 1
		if first {
			c.req, c.ref = r, ref
		}
		c.mu.Unlock()
		if !first {
			return
		}
		defer close(c.done)
		if !c.pre || c.gate == nil {
			close(c.entered)
		}
		if c.gate != nil && !c.pre {
			<-c.gate
			// the handler comes back from its slow call and looks at its path variables again
			c.addLate(sortedVars(pathvar.Vars(r)))
		}
		if c.scrib && len(ref) > 0 {
			for k := range ref {
				delete(ref, k)
				break
			}
			ref["c09-scribble"] = "x"
		}
		switch c.do {
		case "201":
			w.WriteHeader(http.StatusCreated)
		case "404":
			http.NotFound(w, r)
		case "405":
			w.Header().Set("Allow", "C09")
			w.WriteHeader(http.StatusMethodNotAllowed)
		case "500":
			w.WriteHeader(http.StatusInternalServerError)
		case "panic":
			panic("c09 handler panics")
		}
	}
}

func (st *state) notFound() http.Handler {
	return http.HandlerFunc(func(w http.ResponseWriter, r *http.Request) {
		c := ctlOf(r)
		c.mu.Lock()
		c.custom += "nf"
		c.mu.Unlock()
		w.WriteHeader(http.StatusNotFound)
	})
}

func (st *state) notAllowed() http.Handler {
	return http.HandlerFunc(func(w http.ResponseWriter, r *http.Request) {
		c := ctlOf(r)
		c.mu.Lock()
		c.custom += "na"
		c.mu.Unlock()
		w.WriteHeader(http.StatusMethodNotAllowed)
	})
}

var simpleName = regexp.MustCompile(`^[a-z][a-z0-9]*$`)

// parsePath reads the variables the way generated handlers do: httpx.ParsePath into a struct
// with one `path:"name"` field per expected name.
func parsePath(r *http.Request, names []string) ([][2]string, bool) {
	if len(names) == 0 {
		return nil, false
	}
	fields := make([]reflect.StructField, 0, len(names))
	for i, n := range names {
		if !simpleName.MatchString(n) {
			return nil, false
		}
		fields = append(fields, reflect.StructField{
			Name: fmt.Sprintf("F%d", i), Type: reflect.TypeOf(""),
			Tag: reflect.StructTag(fmt.Sprintf(`path:"%s"`, n)),
		})
	}
	v := reflect.New(reflect.StructOf(fields))
	if err := httpx.ParsePath(r, v.Interface()); err != nil {
		return [][2]string{{"<ParsePath error>", err.Error()}}, true
	}
	out := [][2]string{}
	for i, n := range names {
		out = append(out, [2]string{n, v.Elem().Field(i).String()})
	}
	sort.Slice(out, func(a, b int) bool { return out[a][0] < out[b][0] })
	return out, true
}

func newServer(c ServerCfg, st *state) (*rest.Server, *recRouter, error) {
	var opts []rest.RunOption
	var rec *recRouter
	if c.OwnRouter || c.OwnRouterLast {
		rec = &recRouter{Router: router.NewRouter()}
	}
	if c.OwnRouter && !c.OwnRouterLast {
		opts = append(opts, rest.WithRouter(rec))
	}
	if c.NF {
		opts = append(opts, rest.WithNotFoundHandler(st.notFound()))
	}
	if c.NA {
		opts = append(opts, rest.WithNotAllowedHandler(st.notAllowed()))
	}
	if c.Cors {
		switch c.CorsKind {
		case 1:
			opts = append(opts, rest.WithCorsHeaders("X-C09"))
		case 2:
			opts = append(opts, rest.WithCustomCors(nil, nil))
		default:
			opts = append(opts, rest.WithCors())
		}
	}
	if c.Files {
		opts = append(opts, rest.WithFileServer("/static", noFiles{}))
	}
	if c.Extras {
		opts = append(opts,
			rest.WithUnauthorizedCallback(func(w http.ResponseWriter, r *http.Request, err error) {}),
			rest.WithUnsignedCallback(func(w http.ResponseWriter, r *http.Request, next http.Handler, strict bool, code int) {}),
			rest.WithTLSConfig(&tls.Config{}))
	}
	if c.Chain {
		opts = append(opts, rest.WithChain(chain.New(func(next http.Handler) http.Handler {
			return tagMW(2000)(next.ServeHTTP)
		})))
	}
	var conf rest.RestConf
	conf.Name = "c09"
	conf.Host = "127.0.0.1"
	conf.Port = 1
	conf.Log.Mode = "console"
	conf.Log.Encoding = "plain"
	conf.Mode = "test"
	conf.Verbose = c.Extras
	if c.Native {
		conf.MaxConns = 10000
		conf.MaxBytes = 1 << 20
		conf.Timeout = 3000
		conf.Middlewares.Trace = true
		conf.Middlewares.Log = true
		conf.Middlewares.Prometheus = true
		conf.Middlewares.MaxConns = true
		conf.Middlewares.Breaker = true
		conf.Middlewares.Shedding = true
		conf.Middlewares.Timeout = true
		conf.Middlewares.Recover = true
		conf.Middlewares.Metrics = true
		conf.Middlewares.MaxBytes = true
		conf.Middlewares.Gunzip = true
	}
	if c.OwnRouterLast {
		opts = append(opts, rest.WithRouter(rec))
	}
	if c.Must {
		return rest.MustNewServer(conf, opts...), rec, nil
	}
	srv, err := rest.NewServer(conf, opts...)
	return srv, rec, err
}

func routeOpts(ev Event) []rest.RouteOption {
	var ro []rest.RouteOption
	for _, o := range ev.Opts {
		switch o[0] {
		case "prefix":
			ro = append(ro, rest.WithPrefix(o[1]))
		case "timeout":
			ro = append(ro, rest.WithTimeout(3*time.Second))
		case "shorttimeout":
			ro = append(ro, rest.WithTimeout(shortTimeout))
		case "maxbytes":
			ro = append(ro, rest.WithMaxBytes(1<<20))
		case "priority":
			ro = append(ro, rest.WithPriority())
		case "sse":
			ro = append(ro, rest.WithSSE())
		case "jwt":
			ro = append(ro, rest.WithJwt(jwtSecret))
		case "jwt2":
			ro = append(ro, rest.WithJwtTransition(jwtSecret, "c09-previous-secret"))
		case "sig":
			ro = append(ro, rest.WithSignature(rest.SignatureConf{}))
		}
	}
	return ro
}

// startServer lets Start bind the routes to the router; the listen address is made impossible
// so that Start returns right after binding.
func startServer(srv *rest.Server) (http.Handler, int) {
	var handler http.Handler
	var serr error
	func() {
		defer func() {
			if p := recover(); p != nil {
				if e, ok := p.(error); ok {
					serr = e
				} else {
					serr = fmt.Errorf("panic: %v", p)
				}
			}
		}()
		srv.StartWithOpts(func(s *http.Server) {
			handler = s.Handler
			s.Addr = "127.0.0.1:-1"
		})
	}()
	cls := regErr(serr)
	if serr == nil {
		cls = 4 // Start returned without error: impossible with this address
	}
	if cls != 0 {
		return nil, cls
	}
	return handler, 0
}

// printRoutes captures what Server.PrintRoutes writes to stdout: "Routes:" and one line per route.
func printRoutes(srv *rest.Server) []string {
	old := os.Stdout
	r, w, err := os.Pipe()
	if err != nil {
		return []string{"<pipe: " + err.Error() + ">"}
	}
	os.Stdout = w
	done := make(chan string)
	go func() {
		b, _ := io.ReadAll(r)
		done <- string(b)
	}()
	func() {
		defer func() {
			recover()
			os.Stdout = old
			w.Close()
		}()
		srv.PrintRoutes()
	}()
	text := <-done
	r.Close()
	lines := strings.Split(strings.TrimSuffix(text, "\n"), "\n")
	if len(lines) == 0 || lines[0] != "Routes:" {
		return []string{"<no header>"}
	}
	res := []string{}
	for _, l := range lines[1:] {
		res = append(res, strings.TrimPrefix(l, "  "))
	}
	return res
}

func pairs(rs []rest.Route) [][2]string {
	out := [][2]string{}
	for _, r := range rs {
		out = append(out, [2]string{r.Method, r.Path})
	}
	return out
}

// buildServers plays the registration sequence; returns the handler of every started server.
func buildServers(c Case, st *state, out *Out) []http.Handler {
	// the route tables as the user wrote them: one slice (one backing array) per table
	tables := make([][]rest.Route, len(c.Tables))
	h := 0
	for i, t := range c.Tables {
		tables[i] = make([]rest.Route, 0, len(t))
		for _, r := range t {
			tables[i] = append(tables[i], rest.Route{Method: r[0], Path: r[1], Handler: st.handler(h)})
			h++
		}
	}
	servers := make([]*rest.Server, len(c.Servers))
	handlers := make([]http.Handler, len(c.Servers))
	out.Starts = make([]int, len(c.Servers))
	recs := make([]*recRouter, len(c.Servers))
	for i, sc := range c.Servers {
		srv, rec, err := newServer(sc, st)
		recs[i] = rec
		if err != nil {
			out.Err = "NewServer: " + err.Error()
			return nil
		}
		logx.Disable()
		if sc.Use {
			srv.Use(rest.ToMiddleware(func(next http.Handler) http.Handler {
				return tagMW(1000)(next.ServeHTTP)
			}))
		}
		servers[i] = srv
		out.Starts[i] = -1
	}
	for _, ev := range c.Events {
		srv := servers[ev.Server]
		switch ev.Ev {
		case "mount":
			rs := tables[ev.Table][ev.Lo:ev.Hi]
			if ev.MW {
				rs = rest.WithMiddlewares([]rest.Middleware{tagMW(ev.Tag)}, rs...)
			}
			ro := routeOpts(ev)
			if ev.Single {
				for _, r := range rs {
					srv.AddRoute(r, ro...)
				}
			} else {
				srv.AddRoutes(rs, ro...)
			}
		case "start":
			if c.Servers[ev.Server].Scribble {
				rs := srv.Routes() // the caller's copy: writing into it is the caller's business
				for i := range rs {
					rs[i].Method, rs[i].Path, rs[i].Handler = "BAD", "scribbled", nil
				}
			}
			if out.Starts[ev.Server] == -1 {
				handlers[ev.Server], out.Starts[ev.Server] = startServer(srv)
			}
		}
	}
	for _, srv := range servers {
		out.Routes = append(out.Routes, pairs(srv.Routes()))
		out.Printed = append(out.Printed, printRoutes(srv))
	}
	for _, t := range tables {
		out.TablesAfter = append(out.TablesAfter, pairs(t))
	}
	for _, rec := range recs {
		if rec == nil {
			out.Bound = append(out.Bound, nil)
		} else {
			rec.mu.Lock()
			out.Bound = append(out.Bound, append([][3]string{}, rec.calls...))
			rec.mu.Unlock()
		}
	}
	return handlers
}

func makeRequest(method, target, mode string) (*http.Request, error) {
	if mode == "raw" {
		// exactly what net/http's server does with the request line
		req, err := http.ReadRequest(bufio.NewReader(strings.NewReader(
			method + " " + target + " HTTP/1.1\r\nHost: c09\r\n\r\n")))
		if err != nil {
			return nil, err
		}
		return req, nil
	}
	req := httptest.NewRequest(http.MethodGet, "/", nil)
	req.Method = method
	req.URL.Path = target
	req.RequestURI = target
	return req, nil
}

func bearer() string {
	tok := jwt.NewWithClaims(jwt.SigningMethodHS256, jwt.MapClaims{"iat": time.Now().Unix(), "exp": time.Now().Add(time.Hour).Unix()})
	s, err := tok.SignedString([]byte(jwtSecret))
	if err != nil {
		hx.Fatal("jwt: %v", err)
	}
	return s
}

func runCase(c Case, token string) (out Out) {
	out.ID = c.ID
	out.RegErr = []int{}
	out.PClean = []string{}
	out.Res = []Res{}
	st := &state{}
	var handlers []http.Handler
	registerUpTo := func(int) {}
	server := c.Kind == "server"
	if server {
		func() {
			defer func() {
				if p := recover(); p != nil {
					out.Err = fmt.Sprintf("registration panicked: %v", p)
				}
			}()
			handlers = buildServers(c, st, &out)
		}()
		if handlers == nil {
			if out.Err == "" {
				out.Err = "no handlers"
			}
			return out
		}
	} else {
		prt := router.NewRouter()
		handlers = []http.Handler{prt}
		if c.NF {
			prt.SetNotFoundHandler(st.notFound())
		}
		if c.NA {
			prt.SetNotAllowedHandler(st.notAllowed())
		}
		registered := 0
		registerUpTo = func(k int) {
			for ; registered < k && registered < len(c.Regs); registered++ {
				rg := c.Regs[registered]
				var err error
				func() {
					defer func() {
						if p := recover(); p != nil {
							err = fmt.Errorf("panic: %v", p)
						}
					}()
					err = prt.Handle(rg[0], rg[1], st.handler(registered))
				}()
				out.RegErr = append(out.RegErr, regErr(err))
				out.PClean = append(out.PClean, path.Clean(rg[1]))
			}
		}
	}
	type flight struct {
		rq       []string
		si       int
		ctl      *reqCtl
		w        *httptest.ResponseRecorder
		res      Res
		skip     bool
		panicked bool
		returned chan struct{}
	}
	flagOf := func(rq []string) string {
		n := 3
		if server {
			n = 4
		}
		if len(rq) > n {
			return rq[n]
		}
		return ""
	}
	hasTok := func(flag, pfx string) string {
		for _, tok := range strings.Split(flag, "+") {
			if strings.HasPrefix(tok, pfx) {
				return tok
			}
		}
		return ""
	}
	prepare := func(rq []string, gate chan struct{}) *flight {
		orig := rq
		f := &flight{returned: make(chan struct{})}
		if a := hasTok(flagOf(orig), "after="); a != "" {
			k := 0
			fmt.Sscanf(a, "after=%d", &k)
			registerUpTo(k)
		} else {
			registerUpTo(len(c.Regs))
		}
		if server {
			fmt.Sscanf(rq[0], "%d", &f.si)
			rq = rq[1:]
		}
		f.rq = rq
		mode := "path"
		if len(rq) > 2 {
			mode = rq[2]
		}
		f.res = Res{Vars: [][2]string{}, Allow: []string{}, MWs: []int{}, Late: [][][2]string{}}
		if handlers[f.si] == nil {
			f.res.K = "down" // this server did not start
			f.skip = true
			return f
		}
		req, err := makeRequest(rq[0], rq[1], mode)
		if err != nil {
			f.res.K = "badreq"
			f.res.Note = err.Error()
			f.skip = true
			return f
		}
		if server {
			req.Header.Set("Authorization", "Bearer "+token)
			req.Header.Set("Origin", "http://c09.example")
		}
		f.res.Path = req.URL.Path
		f.res.RawPath = req.URL.RawPath
		f.res.Clean = path.Clean(req.URL.Path)
		f.ctl = &reqCtl{gate: gate, entered: make(chan struct{}), done: make(chan struct{})}
		for _, tok := range strings.Split(flagOf(orig), "+") {
			switch {
			case tok == "pre":
				f.ctl.pre = true
			case tok == "scrib":
				f.ctl.scrib = true
			case strings.HasPrefix(tok, "do="):
				f.ctl.do = tok[3:]
			}
		}
		f.ctl.req = req.WithContext(context.WithValue(req.Context(), ctlKey{}, f.ctl))
		f.w = httptest.NewRecorder()
		return f
	}
	serve := func(f *flight) {
		defer close(f.returned)
		defer func() {
			if p := recover(); p != nil {
				f.panicked = true
				f.res.Note = fmt.Sprint(p)
			}
		}()
		req := f.ctl.req
		f.ctl.req = nil
		handlers[f.si].ServeHTTP(f.w, req)
	}
	classify := func(f *flight) {
		if f.skip {
			return
		}
		res, w := &f.res, f.w
		res.Status = w.Code
		allow, hasAllow := w.Header()["Allow"]
		if server && c.Servers[f.si].Native && w.Code == http.StatusServiceUnavailable {
			// the timeout middleware answered; on a busy machine the handler goroutine it started may
			// not even have been scheduled yet
			select {
			case <-f.ctl.entered:
			case <-time.After(3 * time.Second):
			}
		}
		f.ctl.mu.Lock()
		runs, custom := f.ctl.runs, f.ctl.custom
		f.ctl.mu.Unlock()
		_, cors := w.Header()["Access-Control-Allow-Origin"]
		wantCors := server && c.Servers[f.si].Cors && !c.Servers[f.si].OwnRouterLast
		// with the timeout middleware in the chain a dispatched request may be answered 503 when the
		// route timeout fires before the handler returns: the handler ran all the same
		timedOut := server && c.Servers[f.si].Native && w.Code == http.StatusServiceUnavailable
		if f.panicked && f.ctl.do == "panic" && len(runs) == 1 {
			// nothing in this chain recovers: the handler's own panic reaches the caller of ServeHTTP
			f.panicked = false
			w.Code = 500
		}
		switch {
		case f.panicked:
			res.K = "panic"
		case cors != wantCors:
			res.K = "other"
			res.Note = "CORS headers do not match the option"
		case len(runs) == 0 && custom == "" && cors && w.Code == 204 && !hasAllow:
			res.K = "cors204"
		case len(runs) == 1 && f.ctl.do != "" && custom == "" && !timedOut:
			// the handler answered itself: whatever it says is its answer, the router must not reinterpret it
			want := map[string]int{"201": 201, "404": 404, "405": 405, "500": 500, "panic": 500}[f.ctl.do]
			if w.Code == want && hasAllow == (f.ctl.do == "405") {
				res.K = "h"
				res.H = runs[0].h
				res.MWs = append(res.MWs, runs[0].mws...)
				res.Vars = sortedVars(runs[0].vars)
			} else {
				res.K = "other"
				res.Note = fmt.Sprintf("handler answered %s, client saw status=%d allow=%v", f.ctl.do, w.Code, allow)
			}
		case len(runs) == 1 && custom == "" && !hasAllow && (w.Code == 200 || timedOut):
			res.K = "h"
			res.H = runs[0].h
			res.MWs = append(res.MWs, runs[0].mws...)
			res.Vars = sortedVars(runs[0].vars)
		case len(runs) == 0 && custom == "nf" && w.Code == 404 && !hasAllow:
			res.K = "nfc"
		case len(runs) == 0 && custom == "na" && w.Code == 405 && !hasAllow:
			res.K = "nac"
		case len(runs) == 0 && custom == "" && w.Code == 404 && !hasAllow:
			res.K = "nf"
		case len(runs) == 0 && custom == "" && w.Code == 405 && len(allow) == 1:
			res.K = "na"
			// an HTTP list: elements separated by commas, optional whitespace
			for _, m := range strings.Split(allow[0], ",") {
				res.Allow = append(res.Allow, strings.TrimSpace(m))
			}
			sort.Strings(res.Allow)
		default:
			res.K = "other"
			res.Note = fmt.Sprintf("runs=%d custom=%q status=%d allow=%v", len(runs), custom, w.Code, allow)
		}
	}
	var flights []*flight
	var parked []*flight // handlers still parked although their request has been answered
	for i := 0; i < len(c.Reqs); i++ {
		flag := hasTok(flagOf(c.Reqs[i]), "c")
		free := false
		if flag == "" {
			// f<n>: a free-running batch — all requests at once, no gates (the -race family)
			flag = hasTok(flagOf(c.Reqs[i]), "f")
			free = flag != ""
		}
		hold := hasTok(flagOf(c.Reqs[i]), "hold") != ""
		switch {
		case flag != "":
			// a batch of concurrent requests: every handler reads its variables, waits until all
			// requests of the batch are inside their handler (or answered), and reads them again
			gate := make(chan struct{})
			if free {
				gate = nil
			}
			var batch []*flight
			for i < len(c.Reqs) && hasTok(flagOf(c.Reqs[i]), flag[:1]) == flag {
				batch = append(batch, prepare(c.Reqs[i], gate))
				i++
			}
			i--
			for _, f := range batch {
				if !f.skip {
					go serve(f)
				}
			}
			for _, f := range batch {
				if !f.skip && !free {
					select {
					case <-f.ctl.entered:
					case <-f.returned:
					}
				}
			}
			if !free {
				close(gate)
			}
			for _, f := range batch {
				if !f.skip {
					<-f.returned
				}
				classify(f)
			}
			flights = append(flights, batch...)
		case hold:
			// the handler parks after its first read; rest's timeout middleware answers for it
			f := prepare(c.Reqs[i], make(chan struct{}))
			if !f.skip {
				go serve(f)
				select {
				case <-f.returned:
				case <-time.After(10 * shortTimeout):
					// nothing answers on behalf of a parked handler here: let it go
					close(f.ctl.gate)
					<-f.returned
				}
				select {
				case <-f.ctl.entered:
					select {
					case <-f.ctl.done:
					default:
						f.res.Held = true
						parked = append(parked, f)
					}
				default:
					close(f.ctl.gate) // never dispatched: nobody waits
				}
				if !f.res.Held {
					classify(f)
				}
			}
			flights = append(flights, f)
		default:
			f := prepare(c.Reqs[i], nil)
			if !f.skip {
				serve(f)
				classify(f)
			}
			flights = append(flights, f)
		}
	}
	registerUpTo(len(c.Regs))
	// the slow handlers come back
	for _, f := range parked {
		close(f.ctl.gate)
		select {
		case <-f.ctl.done:
			classify(f)
		case <-time.After(10 * time.Second):
			f.res.K = "other"
			f.res.Note = "parked handler did not finish"
		}
	}
	// after everything else was served: what do the variables of each dispatched request look like now
	for _, f := range flights {
		if f.skip || f.res.K != "h" || f.ctl.scrib {
			out.Res = append(out.Res, f.res)
			continue
		}
		f.ctl.mu.Lock()
		late := append([][][2]string{}, f.ctl.late...)
		r, ref := f.ctl.req, f.ctl.ref
		f.ctl.mu.Unlock()
		late = append(late, sortedVars(ref))
		if r != nil {
			late = append(late, sortedVars(pathvar.Vars(r)))
			names := []string{}
			for _, kv := range f.res.Vars {
				names = append(names, kv[0])
			}
			if parsed, ok := parsePath(r, names); ok {
				late = append(late, parsed)
			}
		}
		f.res.Late = late
		out.Res = append(out.Res, f.res)
	}
	return out
}

func main() {
	var cases []Case
	hx.ReadCases(&cases)
	w := hx.NewWriter()
	defer w.Close()
	token := bearer()
	for _, c := range cases {
		w.Put(runCase(c, token))
	}
}
