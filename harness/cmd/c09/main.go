// Executor for C09: registers a generated (method, pattern) table on
// router.NewRouter() and sends generated requests through ServeHTTP, reporting
// which handler ran, pathvar.Vars, status code, Allow header (sorted set),
// registration errors and path.Clean of every pattern / request path.
package main

import (
	"errors"
	"fmt"
	"net/http"
	"net/http/httptest"
	"path"
	"sort"
	"strings"

	"github.com/zeromicro/go-zero/rest/pathvar"
	"github.com/zeromicro/go-zero/rest/router"
	"verifh/hx"
)

type Case struct {
	ID   int         `json:"id"`
	NF   bool        `json:"nf"` // install a custom not-found handler
	NA   bool        `json:"na"` // install a custom not-allowed handler
	Regs [][2]string `json:"regs"`
	Reqs [][2]string `json:"reqs"`
}

type Res struct {
	K      string      `json:"k"` // h | na | nf | nac | nfc | panic | other
	H      int         `json:"h"`
	Vars   [][2]string `json:"vars"`
	Allow  []string    `json:"allow"`
	Status int         `json:"status"`
	Clean  string      `json:"clean"`
	Note   string      `json:"note,omitempty"`
}

type Out struct {
	ID     int      `json:"id"`
	RegErr []int    `json:"regerr"` // 0 ok, 1 invalid method, 2 invalid path, 3 duplicated item, 4 other
	PClean []string `json:"pclean"`
	Res    []Res    `json:"res"`
	Err    string   `json:"err,omitempty"`
}

type ran struct {
	h    int
	vars map[string]string
}

func regErr(err error) int {
	switch {
	case err == nil:
		return 0
	case errors.Is(err, router.ErrInvalidMethod):
		return 1
	case errors.Is(err, router.ErrInvalidPath):
		return 2
	case strings.HasPrefix(err.Error(), "duplicated item"):
		return 3
	}
	return 4
}

func runCase(c Case) (out Out) {
	out.ID = c.ID
	out.RegErr = []int{}
	out.PClean = []string{}
	out.Res = []Res{}
	rt := router.NewRouter()
	var runs []ran
	custom := ""
	if c.NF {
		rt.SetNotFoundHandler(http.HandlerFunc(func(w http.ResponseWriter, r *http.Request) {
			custom += "nf"
			w.WriteHeader(http.StatusNotFound)
		}))
	}
	if c.NA {
		rt.SetNotAllowedHandler(http.HandlerFunc(func(w http.ResponseWriter, r *http.Request) {
			custom += "na"
			w.WriteHeader(http.StatusMethodNotAllowed)
		}))
	}
	for i, rg := range c.Regs {
		i := i
		var err error
		func() {
			defer func() {
				if p := recover(); p != nil {
					err = fmt.Errorf("panic: %v", p)
				}
			}()
			err = rt.Handle(rg[0], rg[1], http.HandlerFunc(func(w http.ResponseWriter, r *http.Request) {
				vars := map[string]string{}
				for k, v := range pathvar.Vars(r) {
					vars[k] = v
				}
				runs = append(runs, ran{h: i, vars: vars})
			}))
		}()
		out.RegErr = append(out.RegErr, regErr(err))
		out.PClean = append(out.PClean, path.Clean(rg[1]))
	}
	for _, rq := range c.Reqs {
		runs = nil
		custom = ""
		res := Res{Vars: [][2]string{}, Allow: []string{}, Clean: path.Clean(rq[1])}
		req := httptest.NewRequest(http.MethodGet, "/", nil)
		req.Method = rq[0]
		req.URL.Path = rq[1]
		req.RequestURI = rq[1]
		w := httptest.NewRecorder()
		panicked := false
		func() {
			defer func() {
				if p := recover(); p != nil {
					panicked = true
					res.Note = fmt.Sprint(p)
				}
			}()
			rt.ServeHTTP(w, req)
		}()
		res.Status = w.Code
		allow, hasAllow := w.Header()["Allow"]
		switch {
		case panicked:
			res.K = "panic"
		case len(runs) == 1 && custom == "" && !hasAllow:
			res.K = "h"
			res.H = runs[0].h
			for k, v := range runs[0].vars {
				res.Vars = append(res.Vars, [2]string{k, v})
			}
			sort.Slice(res.Vars, func(a, b int) bool { return res.Vars[a][0] < res.Vars[b][0] })
		case len(runs) == 0 && custom == "nf" && w.Code == 404 && !hasAllow:
			res.K = "nfc"
		case len(runs) == 0 && custom == "na" && w.Code == 405 && !hasAllow:
			res.K = "nac"
		case len(runs) == 0 && custom == "" && w.Code == 404 && !hasAllow:
			res.K = "nf"
		case len(runs) == 0 && custom == "" && w.Code == 405 && len(allow) == 1:
			res.K = "na"
			for _, m := range strings.Split(allow[0], ", ") {
				res.Allow = append(res.Allow, m)
			}
			sort.Strings(res.Allow)
		default:
			res.K = "other"
			res.Note = fmt.Sprintf("runs=%d custom=%q status=%d allow=%v", len(runs), custom, w.Code, allow)
		}
		out.Res = append(out.Res, res)
	}
	return out
}

func main() {
	var cases []Case
	hx.ReadCases(&cases)
	w := hx.NewWriter()
	defer w.Close()
	for _, c := range cases {
		w.Put(runCase(c))
	}
}
