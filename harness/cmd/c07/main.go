// Executor for C07: drives syncx.SingleFlight / LockedCalls / ResourceManager with
// scripted threads under a forced schedule (verifh/sched) or free-running
// (direct monitors, built with -race in the thorough tier).
//
// Case: {"id", "scripts": [[ [kind,key,val,err], ... ] per thread], "sched": [tid...], "free": bool}
//   kind 0 = SingleFlight.DoEx, 1 = LockedCalls.Do, 2 = ResourceManager.GetResource,
//        3 = SingleFlight.Do (fresh not observable, reported as -1)
//        4 = collection.Cache.Take, 5 = stores/cache node Take (miniredis) — the two anchored
//            users of the barrier; only the event log is checked for them (prop_ok);
//        6 / 7 = delete the key from the collection.Cache / the cache node
// Events (logical clock): inv (call invoked), fs / fe (user function started / ended),
//   ret [val, err, fresh] (call returned).  The user function parks at gate "fn"
//   between fs and fe.
package main

import (
	"errors"
	"fmt"
	"io"
	"strconv"
	"sync"
	"sync/atomic"
	"time"

	"github.com/alicebob/miniredis/v2"
	"github.com/zeromicro/go-zero/core/collection"
	"github.com/zeromicro/go-zero/core/logx"
	"github.com/zeromicro/go-zero/core/stores/cache"
	"github.com/zeromicro/go-zero/core/stores/redis"
	"github.com/zeromicro/go-zero/core/syncx"
	"verifh/hx"
	"verifh/sched"
)

type Case struct {
	ID      int         `json:"id"`
	Scripts [][][]int64 `json:"scripts"`
	Sched   []int       `json:"sched"`
	Free    bool        `json:"free"`
	Spin    int         `json:"spin"`
}

type Out struct {
	ID      int             `json:"id"`
	Init    sched.StepObs   `json:"init"`
	Steps   []sched.StepObs `json:"steps"`
	Events  []sched.Event   `json:"events,omitempty"` // free mode: whole log
	Monitor []string        `json:"monitor,omitempty"`
	Err     string          `json:"err,omitempty"`
}

type codeErr int64

func (e codeErr) Error() string { return "e" + strconv.FormatInt(int64(e), 10) }

func mkErr(e int64) error {
	if e == 0 {
		return nil
	}
	return codeErr(e)
}

func errCode(err error) int64 {
	if err == nil {
		return 0
	}
	if ce, ok := err.(codeErr); ok {
		return int64(ce)
	}
	return -1
}

// gatedSF decorates the ResourceManager's SingleFlight: the caller parks at gate "pre"
// (GetResource invoked, about to enter singleflight) before delegating.
type gatedSF struct {
	inner syncx.SingleFlight
	ctl   *sched.Ctl
}

func (g *gatedSF) pre() {
	if a := g.ctl.Actor(); a >= 0 {
		g.ctl.Gate(a, "pre", g.ctl.CurOp(a))
	}
}

func (g *gatedSF) Do(key string, fn func() (any, error)) (any, error) {
	g.pre()
	return g.inner.Do(key, fn)
}

func (g *gatedSF) DoEx(key string, fn func() (any, error)) (any, bool, error) {
	g.pre()
	return g.inner.DoEx(key, fn)
}

var errNotFound = errors.New("verif: not found")

type res struct{ id int64 }

func (r *res) Close() error { return nil }

const stepTimeout = 5 * time.Second

func runCase(c Case) (out Out) {
	out.ID = c.ID
	ctl := sched.New(c.Free)
	sf := syncx.NewSingleFlight()
	lc := syncx.NewLockedCalls()
	rm := syncx.NewResourceManager()
	rm.VerifWrapFlight(func(inner syncx.SingleFlight) syncx.SingleFlight { return &gatedSF{inner: inner, ctl: ctl} })

	// the anchored users of the barrier, created on demand
	var cc *collection.Cache
	var node cache.Cache
	var mini *miniredis.Miniredis
	for _, sc := range c.Scripts {
		for _, op := range sc {
			if (op[0] == 4 || op[0] == 6) && cc == nil {
				cc, _ = collection.NewCache(time.Hour)
			}
			if (op[0] == 5 || op[0] == 7) && node == nil {
				var err error
				mini, err = miniredis.Run()
				if err != nil {
					out.Err = "miniredis: " + err.Error()
					return out
				}
				defer mini.Close()
				node = cache.NewNode(redis.New(mini.Addr()), syncx.NewSingleFlight(), cache.NewStat("verif"), errNotFound)
				ctl.MinQuiet = 3 * time.Millisecond
			}
		}
	}

	// direct monitor (free mode): per (kind-group, key) in-flight gauge
	var gmu sync.Mutex
	gauges := map[[2]int64]*int32{}
	gauge := func(g, k int64) *int32 {
		gmu.Lock()
		defer gmu.Unlock()
		p := gauges[[2]int64{g, k}]
		if p == nil {
			p = new(int32)
			gauges[[2]int64{g, k}] = p
		}
		return p
	}
	var monMu sync.Mutex
	report := func(s string) {
		monMu.Lock()
		if len(out.Monitor) < 20 {
			out.Monitor = append(out.Monitor, s)
		}
		monMu.Unlock()
	}
	var wg sync.WaitGroup

	body := func(tid int, i int, grp, key int64) {
		p := gauge(grp, key)
		if n := atomic.AddInt32(p, 1); n > 1 {
			report(fmt.Sprintf("two executions in progress for group %d key %d", grp, key))
		}
		ctl.Log(tid, "fs", i)
		ctl.Gate(tid, "fn", i)
		if c.Free {
			for s := 0; s < c.Spin*(tid+1+i); s++ {
				if s%3 == 0 {
					time.Sleep(time.Microsecond)
				}
			}
		}
		ctl.Log(tid, "fe", i)
		atomic.AddInt32(p, -1)
	}

	for tid, script := range c.Scripts {
		tid, script := tid, script
		wg.Add(1)
		ctl.Go(tid, func() {
			defer wg.Done()
			for i, op := range script {
				i := i
				kind, key, val, e := op[0], op[1], op[2], op[3]
				ks := "k" + strconv.FormatInt(key, 10)
				ctl.Gate(tid, "call", i)
				ctl.SetOp(tid, i)
				ctl.Log(tid, "inv", i)
				switch kind {
				case 0, 3:
					fn := func() (any, error) {
						body(tid, i, 0, key)
						return val, mkErr(e)
					}
					var v any
					var err error
					fresh := int64(-1)
					if kind == 0 {
						var f bool
						v, f, err = sf.DoEx(ks, fn)
						if f {
							fresh = 1
						} else {
							fresh = 0
						}
					} else {
						v, err = sf.Do(ks, fn)
					}
					rv := int64(-1)
					if x, ok := v.(int64); ok {
						rv = x
					}
					ctl.Log(tid, "ret", i, rv, errCode(err), fresh)
				case 1:
					v, err := lc.Do(ks, func() (any, error) {
						body(tid, i, 1, key)
						return val, mkErr(e)
					})
					rv := int64(-1)
					if x, ok := v.(int64); ok {
						rv = x
					}
					ctl.Log(tid, "ret", i, rv, errCode(err), -1)
				case 4:
					v, err := cc.Take(ks, func() (any, error) {
						body(tid, i, 4, key)
						return val, mkErr(e)
					})
					rv := int64(-1)
					if x, ok := v.(int64); ok {
						rv = x
					}
					ctl.Log(tid, "ret", i, rv, errCode(err), -1)
				case 5:
					var got int64 = -1
					err := node.Take(&got, ks, func(v any) error {
						body(tid, i, 5, key)
						if e != 0 {
							return mkErr(e)
						}
						*(v.(*int64)) = val
						return nil
					})
					if err != nil {
						got = -1
					}
					ctl.Log(tid, "ret", i, got, errCode(err), -1)
				case 6, 7: // invalidate the cached entry
					ctl.Log(tid, "del", i, key)
					if kind == 6 {
						cc.Del(ks)
					} else {
						_ = node.Del(ks)
					}
					ctl.Log(tid, "ret", i, -1, 0, -2)
				case 2:
					r, err := rm.GetResource(ks, func() (io.Closer, error) {
						body(tid, i, 2, key)
						if e != 0 {
							return nil, mkErr(e)
						}
						return &res{id: val}, nil
					})
					rv := int64(-1)
					if x, ok := r.(*res); ok && x != nil {
						rv = x.id
					}
					ctl.Log(tid, "ret", i, rv, errCode(err), -1)
				}
			}
		})
	}

	if c.Free {
		done := make(chan struct{})
		go func() { wg.Wait(); close(done) }()
		select {
		case <-done:
		case <-time.After(20 * time.Second):
			out.Err = "free run did not finish"
		}
		o, _ := ctl.Start(time.Second)
		out.Events = o.Events
		return out
	}

	var ok bool
	out.Init, ok = ctl.Start(stepTimeout)
	if !ok {
		out.Err = "no quiescence at start"
		ctl.Abort()
		return out
	}
	for _, a := range c.Sched {
		o, ok := ctl.Step(a, stepTimeout)
		out.Steps = append(out.Steps, o)
		if !ok {
			out.Err = "no quiescence"
			ctl.Abort()
			return out
		}
	}
	rest, ok := ctl.Drain(stepTimeout, 10000)
	out.Steps = append(out.Steps, rest...)
	if !ok {
		out.Err = "drain did not finish"
		ctl.Abort()
	}
	return out
}

func main() {
	logx.Disable()
	var cases []Case
	hx.ReadCases(&cases)
	w := hx.NewWriter()
	defer w.Close()
	for _, c := range cases {
		w.Put(runCase(c))
	}
}
