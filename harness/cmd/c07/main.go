// Executor for C07: drives syncx.SingleFlight / LockedCalls / ResourceManager and the two
// anchored users of the SingleFlight barrier (collection.Cache.Take, stores/cache node
// Take / TakeWithExpire) with scripted threads under a forced schedule (verifh/sched) or
// free-running (direct monitors, built with -race in the thorough tier).
//
// Concurrent case: {"id", "scripts": [[ [kind,key,val,err], ... ] per thread], "sched": [tid...], "free": bool}
//   kind 0 = SingleFlight.DoEx, 1 = LockedCalls.Do, 2 = ResourceManager.GetResource,
//        3 = SingleFlight.Do (fresh not observable, reported as -1)
//        4 = collection.Cache.Take, 5 = cache node Take, 8 = cache node TakeWithExpire (miniredis);
//            only the event log is checked for them (prop_ok);
//        6 / 7 = delete the key from the collection.Cache / the cache node
//        9 = cache node: make every redis command fail (val = 1) / work again (val = 0)
//        10 = cache node: overwrite the stored entry with bytes that do not unmarshal (the next Take drops it
//             and reloads; logged as "del")
//        11 = SingleFlight: "forget the key" - calls a method Forget(key) of the SingleFlight instance IF it has one
//             (x/sync's singleflight has; go-zero's has not: then the op does nothing); logged like a "del"
//   key:  key%1000 is the key string, key/1000 the INSTANCE (0 or 1): every primitive / cache exists
//         twice, the two instances must not share anything.
//         key%1000 == 0 is the EMPTY key string; 1..9 are "k1".."k9"; larger ones are irregular strings (keyString).
//   val:  -1 = the user function returns a nil value (kinds 0, 1, 3, 4)
//   err:  0 = nil, > 0 = that error code (9 = the cache node's not-found error, 19 = the same
//         wrapped with %w; 30 = context.Canceled, 31 = context.DeadlineExceeded themselves, 32 / 33 =
//         the same wrapped with %w: reported as 30 / 31), -2 = the user function PANICS (after its gate).
//   ctx:  optional 5th component, cache node Take kinds only: the caller's own context.
//         0 = none (Take / TakeWithExpire), 1 = a live context (TakeCtx / TakeWithExpireCtx),
//         2 = cancelled while its loader runs (after the gate), 3 = its deadline passes while its loader
//         runs, 4 = already done when the call is made (event "ctxdone"),
//         5 / 6 = cancelled / deadline passing DURING the store call: the caller parks at gate "store" inside
//         the redis GET of its flight (a go-redis hook added with redis.WithHook) and its context becomes
//         done when it is released (event "ctxdone"), before the command goes to the store.
//   flags: optional 5th component of the primitives' ops (kinds 0-3), bits:
//         1 = this call is made FROM INSIDE the user function of the previous op of the same script (after that
//             function's gate, before its "fe"): a nested call on another key is legal and must not wait for
//             anything; chains nest to any depth;
//         2 = run-through: the op has no call gate and its function has no gate (hundreds of calls, or hundreds of
//             nesting levels, within one step of the controller; whoever blocks is seen blocked at that op).
//         Such cases are judged on their event log only (the LTS has no nested calls).
//   err -3: the user function ends its goroutine with runtime.Goexit (last op of a script only): the
//         deferred epilogue of the call runs as for a panic; reported like a panicked call.
// Events (logical clock): inv (call invoked), fs / fe (user function started / ended),
//   ret [val, err, fresh] (call returned; err -2 = the call panicked), del, fault.
//   The user function parks at gate "fn" between fs and fe.
//
// Sequential ResourceManager case: {"rmseq": [[op,key,val,err], ...]}: op 0 = GetResource (create
//   returns (val, err)), 1 = Inject(key, val), 2 = Close.  Resources whose id is divisible by 5 fail
//   to Close.  Observation per op: [val, err, created] / [0,0,0] / [nclosed, nerrors, sum of closed ids].
package main

import (
	"context"
	"errors"
	"fmt"
	"io"
	"runtime"
	"strconv"
	"strings"
	"sync"
	"sync/atomic"
	"time"

	"github.com/alicebob/miniredis/v2"
	red "github.com/redis/go-redis/v9"
	"github.com/zeromicro/go-zero/core/collection"
	"github.com/zeromicro/go-zero/core/logx"
	"github.com/zeromicro/go-zero/core/stores/cache"
	"github.com/zeromicro/go-zero/core/stores/redis"
	"github.com/zeromicro/go-zero/core/syncx"
	"verifh/hx"
	"verifh/sched"
)

type Case struct {
	ID      int         `json:"id"`
	Scripts [][][]int64 `json:"scripts"`
	Sched   []int       `json:"sched"`
	Free    bool        `json:"free"`
	Spin    int         `json:"spin"`
	RmSeq   [][]int64   `json:"rmseq"`
}

type Out struct {
	ID      int             `json:"id"`
	Init    sched.StepObs   `json:"init"`
	Steps   []sched.StepObs `json:"steps"`
	Events  []sched.Event   `json:"events,omitempty"` // free mode: whole log
	Monitor []string        `json:"monitor,omitempty"`
	RmObs   [][]int64       `json:"rmobs,omitempty"`
	Err     string          `json:"err,omitempty"`
}

type codeErr int64

func (e codeErr) Error() string { return "e" + strconv.FormatInt(int64(e), 10) }

const (
	codeNotFound        = 9
	codeWrappedNotFound = 19
	codePanic           = -2
	codeGoexit          = -3
)

// storeHook parks an armed actor inside its next redis GET and makes its context done there.
type storeHook struct {
	ctl *sched.Ctl
	arm *sync.Map // actor -> func() (cancels the actor's context)
}

func (h storeHook) DialHook(next red.DialHook) red.DialHook { return next }
func (h storeHook) ProcessPipelineHook(next red.ProcessPipelineHook) red.ProcessPipelineHook {
	return next
}
func (h storeHook) ProcessHook(next red.ProcessHook) red.ProcessHook {
	return func(ctx context.Context, cmd red.Cmder) error {
		if cmd.Name() == "get" {
			if a := h.ctl.Actor(); a >= 0 {
				if f, ok := h.arm.LoadAndDelete(a); ok {
					h.ctl.Gate(a, "store", h.ctl.CurOp(a))
					h.ctl.Log(a, "ctxdone", h.ctl.CurOp(a))
					f.(func())()
				}
			}
		}
		return next(ctx, cmd)
	}
}

func keyString(key int64) string {
	if key%1000 == 0 {
		return ""
	}
	if n := key % 1000; n >= 10 {
		// the many-keys families: irregular strings of different lengths (a table indexed by a weak hash of the
		// key spreads "k1", "k2", ... perfectly; real keys are not that kind)
		x := uint32(n) * 2654435761
		return "k" + strconv.FormatInt(n, 10) + "/" + strconv.FormatUint(uint64(x>>(n%13)), 36)
	}
	return "k" + strconv.FormatInt(key%1000, 10)
}

// what a user function returns as its value: nil for -1
func userVal(val int64) any {
	if val == -1 {
		return nil
	}
	return val
}

var errNotFound = errors.New("verif: not found")

func mkErr(e int64) error {
	switch e {
	case 0:
		return nil
	case 30:
		return context.Canceled
	case 31:
		return context.DeadlineExceeded
	case 32:
		return fmt.Errorf("loader: %w", context.Canceled)
	case 33:
		return fmt.Errorf("loader: %w", context.DeadlineExceeded)
	}
	return codeErr(e)
}

// manualCtx is a context that is cancelled / whose deadline "passes" when the executor says so.
type manualCtx struct {
	mu   sync.Mutex
	done chan struct{}
	err  error
}

func newManualCtx() *manualCtx { return &manualCtx{done: make(chan struct{})} }

func (c *manualCtx) Deadline() (time.Time, bool) { return time.Time{}, false }
func (c *manualCtx) Done() <-chan struct{}       { return c.done }
func (c *manualCtx) Value(any) any               { return nil }
func (c *manualCtx) Err() error {
	c.mu.Lock()
	defer c.mu.Unlock()
	return c.err
}
func (c *manualCtx) finish(err error) {
	c.mu.Lock()
	defer c.mu.Unlock()
	if c.err == nil {
		c.err = err
		close(c.done)
	}
}

func errCode(err error) int64 {
	if err == nil {
		return 0
	}
	var ce codeErr
	if errors.As(err, &ce) {
		return int64(ce)
	}
	if errors.Is(err, errNotFound) {
		return codeNotFound
	}
	if errors.Is(err, context.Canceled) {
		return 30
	}
	if errors.Is(err, context.DeadlineExceeded) {
		return 31
	}
	return -1
}

// gatedSF decorates the SingleFlight of a ResourceManager / of a collection.Cache: the caller parks
// at gate "pre" (GetResource invoked / Take missed the cache; about to enter singleflight) before
// delegating.
//
// For the cache node (which promises every caller a COPY of the loaded value in the caller's own
// destination) the wrapper has no "pre" gate but a "post" gate: a caller that joined somebody else's
// call (fresh == false) parks right where DoEx hands it the shared result, and goes on only when the
// schedule says so - after the leading caller has returned and overwritten its own destination.
//
// The wrapped SingleFlight is EMBEDDED: whatever methods the interface has besides Do and DoEx (today: none) are
// passed through, so an interface that grows (a Forget method, say) does not stop the executor from building.
type gatedSF struct {
	syncx.SingleFlight
	ctl   *sched.Ctl
	noPre bool
	post  bool
	noGate func(actor, op int) bool
}

func (g *gatedSF) pre() {
	if g.noPre {
		return
	}
	if a := g.ctl.Actor(); a >= 0 {
		if op := g.ctl.CurOp(a); g.noGate == nil || !g.noGate(a, op) {
			g.ctl.Gate(a, "pre", op)
		}
	}
}

func (g *gatedSF) Do(key string, fn func() (any, error)) (any, error) {
	g.pre()
	return g.SingleFlight.Do(key, fn)
}

func (g *gatedSF) DoEx(key string, fn func() (any, error)) (any, bool, error) {
	g.pre()
	val, fresh, err := g.SingleFlight.DoEx(key, fn)
	if g.post && !fresh {
		if a := g.ctl.Actor(); a >= 0 {
			g.ctl.Gate(a, "post", g.ctl.CurOp(a))
		}
	}
	return val, fresh, err
}

type res struct {
	id     int64
	closed *[]int64
}

func (r *res) Close() error {
	if r.closed != nil {
		*r.closed = append(*r.closed, r.id)
	}
	if r.id%5 == 0 {
		return codeErr(r.id)
	}
	return nil
}

// what a thread leaves in its destination variable after it has used the value
const destBlank = -777

const stepTimeout = 3 * time.Second

// time spent waiting in vain for quiescence; beyond hangBudget the remaining cases are skipped
// (reported as such, judged by nobody) so that a hanging implementation fails fast
var hangSpent time.Duration

const hangBudget = 40 * time.Second

// one set of primitives; a case uses up to two of them
type instance struct {
	sf   syncx.SingleFlight
	lc   syncx.LockedCalls
	rm   *syncx.ResourceManager
	cc   *collection.Cache
	node cache.Cache
	mini *miniredis.Miniredis
	fault bool // set/read only by actors released one at a time (forced mode)
}

func runRmSeq(c Case) (out Out) {
	out.ID = c.ID
	defer func() {
		if r := recover(); r != nil {
			out.Err = fmt.Sprint("panic: ", r)
		}
	}()
	rm := syncx.NewResourceManager()
	var closed []int64
	for _, op := range c.RmSeq {
		ks := keyString(op[1])
		switch op[0] {
		case 0:
			created := int64(0)
			r, err := rm.GetResource(ks, func() (io.Closer, error) {
				created = 1
				if op[3] != 0 {
					return nil, mkErr(op[3])
				}
				return &res{id: op[2], closed: &closed}, nil
			})
			rv := int64(-1)
			if x, ok := r.(*res); ok && x != nil {
				rv = x.id
			}
			out.RmObs = append(out.RmObs, []int64{rv, errCode(err), created})
		case 1:
			rm.Inject(ks, &res{id: op[2], closed: &closed})
			out.RmObs = append(out.RmObs, []int64{0, 0, 0})
		case 2:
			closed = nil
			err := rm.Close()
			var sum int64
			for _, id := range closed {
				sum += id
			}
			// errorx.BatchError joins the Close errors: report how many there are
			got := int64(0)
			if err != nil {
				got = 1
				if j, ok := err.(interface{ Unwrap() []error }); ok {
					got = int64(len(j.Unwrap()))
				}
			}
			out.RmObs = append(out.RmObs, []int64{int64(len(closed)), got, sum})
		}
	}
	return out
}

func runCase(c Case) (out Out) {
	if c.RmSeq != nil {
		return runRmSeq(c)
	}
	out.ID = c.ID
	if hangSpent > hangBudget {
		out.Err = "skipped"
		return out
	}
	ctl := sched.New(c.Free)
	// A goroutine waiting for a sync.Mutex inside core/syncx while every other goroutine is parked
	// or blocked (that is the only situation in which the controller asks) cannot get it before
	// somebody is released: it is blocked, not "about to run".  The code under test holds its
	// locks for a few instructions only, so there this never happens; a variant that queues callers
	// on a mutex held across the user function is then seen as what it is (blocked callers)
	// instead of timing out.
	ctl.MutexBlocked = func(stack string) bool { return strings.Contains(stack, "/core/syncx.") }

	opFlags := func(op []int64) int64 {
		if op[0] <= 3 && len(op) > 4 {
			return op[4]
		}
		return 0
	}
	isNested := func(op []int64) bool { return opFlags(op)&1 != 0 }
	runThrough := func(op []int64) bool { return opFlags(op)&2 != 0 }
	// the "pre" gate in front of a ResourceManager's singleflight is skipped for run-through ops
	noGate := func(a, i int) bool {
		return a < len(c.Scripts) && i < len(c.Scripts[a]) && runThrough(c.Scripts[a][i])
	}
	var armed sync.Map
	var insts [2]*instance
	inst := func(key int64) *instance {
		n := int(key/1000) % 2
		if insts[n] == nil {
			in := &instance{sf: syncx.NewSingleFlight(), lc: syncx.NewLockedCalls(), rm: syncx.NewResourceManager()}
			in.rm.VerifWrapFlight(func(inner syncx.SingleFlight) syncx.SingleFlight { return &gatedSF{SingleFlight: inner, ctl: ctl, noGate: noGate} })
			insts[n] = in
		}
		return insts[n]
	}
	// the anchored users of the barrier, created on demand
	for _, sc := range c.Scripts {
		for _, op := range sc {
			in := inst(op[1])
			if (op[0] == 4 || op[0] == 6) && in.cc == nil {
				if op[1] >= 1000 {
					// the second instance is configured: name and an LRU limit (eviction = reload)
					in.cc, _ = collection.NewCache(time.Hour, collection.WithName("verif2"), collection.WithLimit(2))
				} else {
					in.cc, _ = collection.NewCache(time.Hour)
				}
				// gate between the cache miss in front of the barrier and barrier.Do
				in.cc.VerifC07WrapBarrier(func(inner syncx.SingleFlight) syncx.SingleFlight { return &gatedSF{SingleFlight: inner, ctl: ctl} })
			}
			if (op[0] == 5 || op[0] == 7 || op[0] == 8 || op[0] == 9 || op[0] == 10) && in.node == nil {
				var err error
				in.mini, err = miniredis.Run()
				if err != nil {
					out.Err = "miniredis: " + err.Error()
					return out
				}
				defer in.mini.Close()
				rds := redis.New(in.mini.Addr(), redis.WithHook(storeHook{ctl: ctl, arm: &armed}))
				rds.Ping() // dial now: the first command of an actor must not wait for a TCP handshake
				barrier := &gatedSF{SingleFlight: syncx.NewSingleFlight(), ctl: ctl, noPre: true, post: true}
				if op[1] >= 1000 {
					in.node = cache.NewNode(rds, barrier, cache.NewStat("verif2"), errNotFound,
						cache.WithExpiry(time.Minute), cache.WithNotFoundExpiry(time.Minute))
				} else {
					in.node = cache.NewNode(rds, barrier, cache.NewStat("verif"), errNotFound)
				}
				ctl.MinQuiet = 3 * time.Millisecond
			}
		}
	}

	// direct monitor (free mode): per (kind-group, key) in-flight gauge
	var gmu sync.Mutex
	gauges := map[[2]int64]*int32{}
	gauge := func(g, k int64) *int32 {
		gmu.Lock()
		defer gmu.Unlock()
		p := gauges[[2]int64{g, k}]
		if p == nil {
			p = new(int32)
			gauges[[2]int64{g, k}] = p
		}
		return p
	}
	var monMu sync.Mutex
	report := func(s string) {
		monMu.Lock()
		if len(out.Monitor) < 20 {
			out.Monitor = append(out.Monitor, s)
		}
		monMu.Unlock()
	}
	var wg sync.WaitGroup

	// the user function: fs, gate, fe; then it returns or panics (e == codePanic)
	// nested(tid, i): the ops of the script that are to be called from inside the function of op i
	var nested func(tid, i int)
	body := func(tid int, i int, grp, key, e int64) {
		p := gauge(grp, key)
		if n := atomic.AddInt32(p, 1); n > 1 {
			report(fmt.Sprintf("two executions in progress for group %d key %d", grp, key))
		}
		ctl.Log(tid, "fs", i)
		if !runThrough(c.Scripts[tid][i]) {
			ctl.Gate(tid, "fn", i)
		}
		nested(tid, i)
		if c.Free {
			for s := 0; s < c.Spin*(tid+1+i); s++ {
				if s%3 == 0 {
					time.Sleep(time.Microsecond)
				}
			}
		}
		ctl.Log(tid, "fe", i)
		atomic.AddInt32(p, -1)
		if e == codePanic {
			panic(codeErr(codePanic))
		}
		if e == codeGoexit {
			runtime.Goexit()
		}
	}
	asInt := func(v any) int64 {
		if x, ok := v.(int64); ok {
			return x
		}
		return -1
	}

	// one call; a panic coming out of it is reported as ret [-1, -2, -1]
	// cache node: every thread has ONE destination variable which it reuses for all its Takes and
	// blanks right after each return (ordinary handler code); what a call returned is read before that
	dests := make([]*int64, len(c.Scripts))
	for t := range dests {
		dests[t] = new(int64)
		*dests[t] = destBlank
	}
	call := func(tid, i int, op []int64) {
		normal := false
		defer func() {
			if r := recover(); r != nil || !normal {
				// a panic, or runtime.Goexit unwinding the goroutine: the call did not return
				ctl.Log(tid, "ret", i, -1, codePanic, -1)
			}
		}()
		defer func() { armed.Delete(tid) }()
		kind, key, val, e := op[0], op[1], op[2], op[3]
		in := inst(key)
		ks := keyString(key)
		switch kind {
		case 0, 3:
			fn := func() (any, error) {
				body(tid, i, 0, key, e)
				return userVal(val), mkErr(e)
			}
			if kind == 0 {
				v, f, err := in.sf.DoEx(ks, fn)
				fresh := int64(0)
				if f {
					fresh = 1
				}
				ctl.Log(tid, "ret", i, asInt(v), errCode(err), fresh)
			} else {
				v, err := in.sf.Do(ks, fn)
				ctl.Log(tid, "ret", i, asInt(v), errCode(err), -1)
			}
		case 1:
			v, err := in.lc.Do(ks, func() (any, error) {
				body(tid, i, 1, key, e)
				return userVal(val), mkErr(e)
			})
			ctl.Log(tid, "ret", i, asInt(v), errCode(err), -1)
		case 4:
			v, err := in.cc.Take(ks, func() (any, error) {
				body(tid, i, 4, key, e)
				return userVal(val), mkErr(e)
			})
			ctl.Log(tid, "ret", i, asInt(v), errCode(err), -1)
		case 5, 8:
			dest := dests[tid]
			mode := int64(0)
			if len(op) > 4 {
				mode = op[4]
			}
			var cx *manualCtx
			if mode != 0 {
				cx = newManualCtx()
			}
			if mode == 4 {
				cx.finish(context.Canceled)
				ctl.Log(tid, "ctxdone", i)
			}
			if mode == 5 {
				armed.Store(tid, func() { cx.finish(context.Canceled) })
			} else if mode == 6 {
				armed.Store(tid, func() { cx.finish(context.DeadlineExceeded) })
			}
			query := func(v any) error {
				body(tid, i, 5, key, e)
				if mode == 2 {
					cx.finish(context.Canceled)
				} else if mode == 3 {
					cx.finish(context.DeadlineExceeded)
				}
				if e == codeNotFound {
					return errNotFound
				}
				if e == codeWrappedNotFound {
					return fmt.Errorf("wrapped: %w", errNotFound)
				}
				if e != 0 {
					return mkErr(e)
				}
				*(v.(*int64)) = val
				return nil
			}
			_ = cx
			var err error
			queryx := func(v any, expire time.Duration) error {
				if expire <= 0 {
					return codeErr(-77)
				}
				return query(v)
			}
			switch {
			case kind == 5 && cx == nil:
				err = in.node.Take(dest, ks, query)
			case kind == 5:
				err = in.node.TakeCtx(cx, dest, ks, query)
			case cx == nil:
				err = in.node.TakeWithExpire(dest, ks, queryx)
			default:
				err = in.node.TakeWithExpireCtx(cx, dest, ks, queryx)
			}
			got := *dest
			if err != nil {
				got = -1
			}
			ctl.Log(tid, "ret", i, got, errCode(err), -1)
			*dest = destBlank // the caller is done with the value: the variable is blanked / reused
		case 6, 7: // invalidate the cached entry ("del" is stamped once it is gone)
			if kind == 6 {
				in.cc.Del(ks)
			} else if in.fault {
				// straight on the store: node.Del under a fault would start the real-time retry task
				in.mini.Del(ks)
			} else {
				_ = in.node.Del(ks)
			}
			ctl.Log(tid, "del", i, key)
			ctl.Log(tid, "ret", i, -1, 0, -2)
		case 11:
			if f, ok := in.sf.(interface{ Forget(string) }); ok {
				f.Forget(ks)
			}
			ctl.Log(tid, "del", i, key)
			ctl.Log(tid, "ret", i, -1, 0, -2)
		case 10:
			in.mini.Set(ks, "{not json")
			ctl.Log(tid, "del", i, key)
			ctl.Log(tid, "ret", i, -1, 0, -2)
		case 9:
			if val != 0 {
				ctl.Log(tid, "fault", i, 1)
				in.fault = true
				in.mini.SetError("verif fault")
			} else {
				in.mini.SetError("")
				in.fault = false
				ctl.Log(tid, "fault", i, 0)
			}
			ctl.Log(tid, "ret", i, -1, 0, -2)
		case 2:
			r, err := in.rm.GetResource(ks, func() (io.Closer, error) {
				body(tid, i, 2, key, e)
				if e != 0 {
					return nil, mkErr(e)
				}
				return &res{id: val}, nil
			})
			rv := int64(-1)
			if x, ok := r.(*res); ok && x != nil {
				rv = x.id
			}
			ctl.Log(tid, "ret", i, rv, errCode(err), -1)
		}
		normal = true
	}

	nested = func(tid, i int) {
		script := c.Scripts[tid]
		if i+1 < len(script) && isNested(script[i+1]) {
			// (the next op's own function calls nested again: a chain)
			ctl.SetOp(tid, i+1)
			ctl.Log(tid, "inv", i+1)
			call(tid, i+1, script[i+1])
			ctl.SetOp(tid, i)
		}
	}

	for tid, script := range c.Scripts {
		tid, script := tid, script
		wg.Add(1)
		ctl.Go(tid, func() {
			defer wg.Done()
			for i, op := range script {
				if i > 0 && isNested(op) {
					continue // made from inside the previous call's function
				}
				if !runThrough(op) {
					ctl.Gate(tid, "call", i)
				}
				ctl.SetOp(tid, i)
				ctl.Log(tid, "inv", i)
				call(tid, i, op)
			}
		})
	}

	if c.Free {
		done := make(chan struct{})
		go func() { wg.Wait(); close(done) }()
		select {
		case <-done:
		case <-time.After(20 * time.Second):
			out.Err = "free run did not finish"
		}
		o, _ := ctl.Start(time.Second)
		out.Events = o.Events
		return out
	}

	var ok bool
	out.Init, ok = ctl.Start(stepTimeout)
	if !ok {
		hangSpent += stepTimeout
		out.Err = "no quiescence at start"
		ctl.Abort()
		return out
	}
	for _, a := range c.Sched {
		o, ok := ctl.Step(a, stepTimeout)
		out.Steps = append(out.Steps, o)
		if !ok {
			hangSpent += stepTimeout
			out.Err = "no quiescence"
			ctl.Abort()
			return out
		}
	}
	rest, ok := ctl.Drain(stepTimeout, 10000)
	out.Steps = append(out.Steps, rest...)
	if !ok {
		hangSpent += stepTimeout
		out.Err = "drain did not finish"
		ctl.Abort()
	}
	return out
}

func main() {
	logx.Disable()
	var cases []Case
	hx.ReadCases(&cases)
	w := hx.NewWriter()
	defer w.Close()
	for _, c := range cases {
		w.Put(runCase(c))
	}
}
