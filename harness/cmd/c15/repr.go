// Kinds "repr" and "hashfn": the functions the ring's node identity and slot choice are built from.
//
// "repr": for every value of the case, what the RING ITSELF feeds to its hash function — observed through
// a recording hash.Func on a ring whose every virtual node lands in one slot shared by two nodes:
// Get(v) then hashes repr(v) and innerRepr(v), Add(v) / Remove(v) hash repr(v)+itoa(i) — and what
// lang.Repr answers when asked directly afterwards.  The texts are compared with the model (Repr.v).
//
// "hashfn": hash.Hash / hash.Md5 / hash.Md5Hex on byte strings, each evaluated twice, with a check that
// the input was not modified.
package main

import (
	"encoding/hex"
	"strconv"

	"github.com/zeromicro/go-zero/core/hash"
	"github.com/zeromicro/go-zero/core/lang"
)

// indices of the virtual-node strings that are reported (of minReplicas = 100)
var vnodeIdx = []int{0, 9, 10, 99}

func runRepr(c Case) (out Out) {
	out.ID = c.ID
	out.R = minReplicas
	var log [][]byte
	rec := func(data []byte) uint64 {
		log = append(log, append([]byte(nil), data...))
		return 0
	}
	vals := make([]any, len(c.Nodes))
	for i, n := range c.Nodes {
		vals[i] = mk(n)
	}
	shared := hash.NewCustomConsistentHash(0, rec)
	shared.Add("a")
	shared.Add("b")
	out.Rx = make([][]string, len(vals))
	for i, v := range vals {
		row := make([]string, 3+2*len(vnodeIdx))
		func() {
			defer func() {
				if e := recover(); e != nil {
					out.Err = "repr case: panic on value " + strconv.Itoa(i)
				}
			}()
			log = nil
			shared.Get(v)
			// what the ring hashed first is repr(v); innerRepr(v) is the later string of the form <digits>:<text>.
			// A ring that hashes in another pattern (a harmless rewrite) leaves the field empty: not observed.
			if len(log) >= 1 {
				row[0] = hex.EncodeToString(log[0])
			} else {
				row[0] = hex.EncodeToString([]byte(lang.Repr(v)))
			}
			for _, l := range log[min(1, len(log)):] {
				q := 0
				for q < len(l) && l[q] >= '0' && l[q] <= '9' {
					q++
				}
				if q > 0 && q < len(l) && l[q] == ':' {
					row[2] = hex.EncodeToString(l)
					break
				}
			}
			h := hash.NewCustomConsistentHash(0, rec)
			log = nil
			h.Add(v)
			adds := log
			log = nil
			h.Remove(v)
			rems := log
			for q, idx := range vnodeIdx {
				if len(adds) == minReplicas && len(rems) == minReplicas {
					row[3+q] = hex.EncodeToString(adds[idx])
					row[3+len(vnodeIdx)+q] = hex.EncodeToString(rems[idx])
				} else {
					row[3+q], row[3+len(vnodeIdx)+q] = "-", "-" // not observed
				}
			}
		}()
		out.Rx[i] = row
	}
	for i := len(vals) - 1; i >= 0; i-- {
		out.Rx[i][1] = hex.EncodeToString([]byte(lang.Repr(vals[i])))
	}
	return
}

// Kind "consts": the constants of consistenthash.go as the BINARY has them — TopWeight (exported), minReplicas
// (the number of strings Add hashes on a ring created with replicas 0), prime (the prefix of innerRepr) —
// for tools/c15consts.py when it cannot read them off the source text.
func runConsts(c Case) (out Out) {
	out.ID = c.ID
	var log [][]byte
	rec := func(data []byte) uint64 {
		log = append(log, append([]byte(nil), data...))
		return 0
	}
	h := hash.NewCustomConsistentHash(0, rec)
	h.Add("a")
	minR := len(log)
	h.Add("b")
	log = nil
	h.Get("k")
	pr := ""
	if len(log) == 2 {
		for _, ch := range string(log[1]) {
			if ch < '0' || ch > '9' {
				break
			}
			pr += string(ch)
		}
	}
	out.Rx = [][]string{{strconv.Itoa(hash.TopWeight), strconv.Itoa(minR), pr}}
	return
}

func runHashFn(c Case) (out Out) {
	out.ID = c.ID
	for _, d := range c.Data {
		data, err := hex.DecodeString(d)
		if err != nil {
			out.Err = err.Error()
			return
		}
		orig := append([]byte(nil), data...)
		h1 := hash.Hash(data)
		m1 := hash.Md5(data)
		x1 := hash.Md5Hex(data)
		h2 := hash.Hash(data)
		x2 := hash.Md5Hex(data)
		m2 := hash.Md5(data)
		same := "1"
		if string(orig) != string(data) {
			same = "0"
		}
		out.Rx = append(out.Rx, []string{strconv.FormatUint(h1, 10), strconv.FormatUint(h2, 10),
			x1, x2, hex.EncodeToString(m1), hex.EncodeToString(m2), same})
	}
	return
}
