// Executor for C15: drives hash.ConsistentHash through its public API and reports,
// after every operation, what Get returns for a fixed probe set.  It also reports
// the hash of every virtual-node string (repr(node)+itoa(i), i < replicas) and of
// every probe (repr and inner repr), computed with the same hash function, so that
// the model can be run on the same numbers.  It only executes.
package main

import (
	"fmt"
	"strconv"

	"github.com/zeromicro/go-zero/core/hash"
	"github.com/zeromicro/go-zero/core/lang"
	"verifh/hx"
)

type Val struct {
	Kind string `json:"kind"` // str | int | i64 | stringer | pstringer
	V    string `json:"v"`
}

type Case struct {
	ID     int     `json:"id"`
	Hash   string  `json:"hash"` // murmur | small
	Mod    uint64  `json:"mod"`  // small: murmur3 % mod
	R      int     `json:"r"`    // 0: NewConsistentHash(); else NewCustomConsistentHash(r, fn)
	Nodes  []Val   `json:"nodes"`
	Ops    [][]any `json:"ops"` // ["add",n] ["addr",n,replicas] ["addw",n,weight] ["remove",n]
	Probes []Val   `json:"probes"`
}

type Out struct {
	ID    int        `json:"id"`
	R     int        `json:"r"`     // effective h.replicas
	Reprs []string   `json:"reprs"` // repr of each universe node
	VH    [][]string `json:"vh"`    // per universe node: hash(repr+itoa(i)), i < R (decimal)
	PH    [][2]string `json:"ph"`   // per probe: hash(repr(v)), hash(innerRepr(v))
	Gets  [][]int    `json:"gets"`  // gets[0]: before any op; gets[t]: after op t. node index, -1 none, -2 panic, -3 unknown value
	Err   string     `json:"err,omitempty"`
}

type strg struct{ s string }

func (s strg) String() string { return s.s }

type pstrg struct{ s string }

func (s *pstrg) String() string { return s.s }

const (
	minReplicas = 100
	prime       = 16777619
)

func mk(v Val) any {
	switch v.Kind {
	case "int":
		n, _ := strconv.Atoi(v.V)
		return n
	case "i64":
		n, _ := strconv.ParseInt(v.V, 10, 64)
		return n
	case "stringer":
		return strg{v.V}
	case "pstringer":
		return &pstrg{v.V}
	default:
		return v.V
	}
}

func tag(x any) string {
	if p, ok := x.(*pstrg); ok {
		return "pstringer:" + p.s
	}
	return fmt.Sprintf("%T:%v", x, x)
}

func num(v any) int { return int(v.(float64)) }

func runCase(c Case) (out Out) {
	out.ID = c.ID
	var fn hash.Func = hash.Hash
	if c.Hash == "small" {
		m := c.Mod
		fn = func(data []byte) uint64 { return hash.Hash(data) % m }
	}
	var h *hash.ConsistentHash
	if c.R == 0 {
		h = hash.NewConsistentHash()
		if c.Hash == "small" {
			h = hash.NewCustomConsistentHash(0, fn)
		}
		out.R = minReplicas
	} else {
		h = hash.NewCustomConsistentHash(c.R, fn)
		out.R = c.R
		if out.R < minReplicas {
			out.R = minReplicas
		}
	}

	vals := make([]any, len(c.Nodes))
	tags := map[string]int{}
	for i, n := range c.Nodes {
		vals[i] = mk(n)
		tags[tag(vals[i])] = i
		r := lang.Repr(vals[i])
		out.Reprs = append(out.Reprs, r)
		row := make([]string, out.R)
		for j := 0; j < out.R; j++ {
			row[j] = strconv.FormatUint(fn([]byte(r+strconv.Itoa(j))), 10)
		}
		out.VH = append(out.VH, row)
	}
	probes := make([]any, len(c.Probes))
	for i, p := range c.Probes {
		probes[i] = mk(p)
		out.PH = append(out.PH, [2]string{
			strconv.FormatUint(fn([]byte(lang.Repr(probes[i]))), 10),
			strconv.FormatUint(fn([]byte(fmt.Sprintf("%d:%v", prime, probes[i]))), 10),
		})
	}

	get := func(p any) (r int) {
		defer func() {
			if e := recover(); e != nil {
				r = -2
			}
		}()
		v, ok := h.Get(p)
		if !ok {
			return -1
		}
		if i, found := tags[tag(v)]; found {
			return i
		}
		return -3
	}
	observe := func() {
		row := make([]int, len(probes))
		for i, p := range probes {
			row[i] = get(p)
		}
		out.Gets = append(out.Gets, row)
	}

	observe()
	for _, op := range c.Ops {
		n := vals[num(op[1])]
		switch op[0].(string) {
		case "add":
			h.Add(n)
		case "addr":
			h.AddWithReplicas(n, num(op[2]))
		case "addw":
			h.AddWithWeight(n, num(op[2]))
		case "remove":
			h.Remove(n)
		default:
			out.Err = "unknown op"
			return
		}
		observe()
	}
	return
}

func main() {
	var cases []Case
	hx.ReadCases(&cases)
	w := hx.NewWriter()
	defer w.Close()
	for _, c := range cases {
		w.Put(runCase(c))
	}
}
