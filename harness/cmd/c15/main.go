// Executor for C15: drives hash.ConsistentHash through its public API and reports,
// after every operation, what Get returns for a fixed probe set.  It also reports
// the hash of every virtual-node string (repr(node)+itoa(i), i < replicas) and of
// every probe (repr and inner repr), computed with the same hash function, so that
// the model can be run on the same numbers.  It only executes.
package main

import (
	"errors"
	"fmt"
	"os"
	"reflect"
	"strconv"
	"syscall"

	"github.com/alicebob/miniredis/v2"
	"github.com/zeromicro/go-zero/core/hash"
	"github.com/zeromicro/go-zero/core/lang"
	"github.com/zeromicro/go-zero/core/logx"
	"github.com/zeromicro/go-zero/core/stores/cache"
	"github.com/zeromicro/go-zero/core/stores/kv"
	"github.com/zeromicro/go-zero/core/stores/redis"
	"github.com/zeromicro/go-zero/core/syncx"
	"verifh/hx"
)

type Val struct {
	Kind string `json:"kind"` // str | int | i64 | stringer | pstringer
	V    string `json:"v"`
}

type Case struct {
	ID     int     `json:"id"`
	Hash   string  `json:"hash"` // murmur | small
	Mod    uint64  `json:"mod"`  // small: murmur3 % mod
	R      int     `json:"r"`    // 0: NewConsistentHash(); else NewCustomConsistentHash(r, fn)
	Nodes  []Val   `json:"nodes"`
	Ops    [][]any `json:"ops"` // ["add",n] ["addr",n,replicas] ["addw",n,weight] ["remove",n]
	Probes []Val   `json:"probes"`
	// kind "cache" / "kv": a cluster of len(weights) miniredis servers built by cache.New / kv.NewStore;
	// probes are the keys (strings)
	Kind    string `json:"kind"`
	Weights []int  `json:"weights"`
	// kind "script" (script.go): servers, instances (cache / kv clusters over them), keys, script
	Ports []int   `json:"ports"`
	Insts []Inst  `json:"insts"`
	SKeys []SKey  `json:"skeys"`
	Sops  [][]any `json:"sops"`
	// kind "conc" (conc.go): threads of ring operations on universe nodes, a schedule of thread ids
	Threads [][][]any `json:"threads"`
	Sched   []any     `json:"sched"` // a thread id, or ["g", probe, thread]: a lookup overlapping the thread's step
	// kind "hashfn" (repr.go): hex-encoded byte strings
	Data []string `json:"data"`
}

type Out struct {
	ID    int         `json:"id"`
	R     int         `json:"r"`     // effective h.replicas
	Reprs []string    `json:"reprs"` // repr of each universe node
	VH    [][]string  `json:"vh"`    // per universe node: hash(repr+itoa(i)), i < R (decimal)
	PH    [][2]string `json:"ph"`    // per probe: hash(repr(v)), hash(innerRepr(v))
	Gets  [][]int     `json:"gets"`  // gets[0]: before any op; gets[t]: after op t. node index, -1 none, -2 panic, -3 unknown value
	Err   string      `json:"err,omitempty"`
	// scripts: per step the touches (key*64+server, sorted, no duplicates; key -1: a key the case does
	// not know), per step "ok"/"err", per "snap" step the (key, server) pairs where the key is missing
	Touch [][]int  `json:"touch,omitempty"`
	Res   []string `json:"res,omitempty"`
	Snap  [][]int  `json:"snap,omitempty"`
	// conc: per schedule step [] or [probe, answer, overlapped, step ran while the lookup was parked]
	Gobs [][]int `json:"gobs,omitempty"`
	// free: per goroutine, per call: [invocation tick, response tick, answer (Get)]
	Events [][][]int `json:"events,omitempty"`
	// repr / hashfn (repr.go): per value / input a row of texts
	Rx [][]string `json:"rx,omitempty"`
}

type strg struct{ s string }

func (s strg) String() string { return s.s }

type pstrg struct{ s string }

func (s *pstrg) String() string { return s.s }

const (
	minReplicas = 100
	prime       = 16777619
)

type verr string

func (e verr) Error() string { return string(e) }

// an error that is a Stringer as well: Repr asks String() when the value itself is handed over, Error() when
// it is reached through pointers (reprOfValue tests error first); fmt's %v prefers Error()
type errstr struct{ s string }

func (e errstr) Error() string  { return "E:" + e.s }
func (e errstr) String() string { return "S:" + e.s }

type pair struct {
	A int
	B string
}

// every kind lang.Repr distinguishes (core/lang/lang.go reprOfValue), plus pointers and a struct
func mk(v Val) any {
	i64 := func() int64 { n, _ := strconv.ParseInt(v.V, 10, 64); return n }
	u64 := func() uint64 { n, _ := strconv.ParseUint(v.V, 10, 64); return n }
	switch v.Kind {
	case "int":
		return int(i64())
	case "i8":
		return int8(i64())
	case "i16":
		return int16(i64())
	case "i32":
		return int32(i64())
	case "i64":
		return i64()
	case "u":
		return uint(u64())
	case "u8":
		return uint8(u64())
	case "u16":
		return uint16(u64())
	case "u32":
		return uint32(u64())
	case "u64":
		return u64()
	case "f32":
		f, _ := strconv.ParseFloat(v.V, 32)
		return float32(f)
	case "f64":
		f, _ := strconv.ParseFloat(v.V, 64)
		return f
	case "bool":
		return v.V == "true"
	case "bytes":
		return []byte(v.V)
	case "err": // a pointer receiver: Repr dereferences it and prints the struct ({msg})
		return errors.New(v.V)
	case "verr": // a value receiver reached through a pointer: reprOfValue's error case
		e := verr(v.V)
		return &e
	case "ppstringer": // **T with T a Stringer: reprOfValue's Stringer case
		s := strg{v.V}
		ps := &s
		return &ps
	case "nil":
		return nil
	case "nilptr": // a typed nil pointer is not nil: printed by fmt.Sprint
		var p *int
		return p
	case "errstr":
		return errstr{v.V}
	case "pperrstr":
		e := errstr{v.V}
		pe := &e
		return &pe
	case "pint": // a pointer is dereferenced
		n := int(i64())
		return &n
	case "ppstr":
		s := v.V
		ps := &s
		return &ps
	case "struct": // default branch: fmt.Sprint
		return pair{int(i64()), "x"}
	case "stringer":
		return strg{v.V}
	case "pstringer":
		return &pstrg{v.V}
	default:
		return v.V
	}
}

// identity of a universe value: pointers by address (two pointers whose String() / target are equal
// are different values with the same repr), everything else by type and printed value
func tag(x any) string {
	if x != nil && reflect.ValueOf(x).Kind() == reflect.Ptr {
		return fmt.Sprintf("%T@%p", x, x)
	}
	return fmt.Sprintf("%T:%v", x, x)
}

// integers beyond 2^53 arrive as decimal strings
func num(v any) int {
	if s, ok := v.(string); ok {
		n, _ := strconv.ParseInt(s, 10, 64)
		return int(n)
	}
	return int(v.(float64))
}

func runCase(c Case) (out Out) {
	out.ID = c.ID
	var fn hash.Func = hash.Hash
	if c.Hash == "small" {
		m := c.Mod
		fn = func(data []byte) uint64 { return hash.Hash(data) % m }
	}
	if c.Hash == "edge" {
		// m values spread over the whole uint64 range, 0 and (when m-1 divides 2^64-1) MaxUint64 included:
		// hashes above 2^63, a key hashing exactly onto a virtual node, below the least, above the greatest
		m := c.Mod
		step := ^uint64(0) / (m - 1)
		fn = func(data []byte) uint64 { return (hash.Hash(data) % m) * step }
	}
	var h *hash.ConsistentHash
	if c.R == 0 {
		h = hash.NewConsistentHash()
		if c.Hash != "murmur" {
			h = hash.NewCustomConsistentHash(0, fn)
		}
		out.R = minReplicas
	} else {
		if c.Hash == "murmur" && c.R%20 == 0 {
			h = hash.NewCustomConsistentHash(c.R, nil) // a nil Func means hash.Hash
		} else {
			h = hash.NewCustomConsistentHash(c.R, fn)
		}
		out.R = c.R
		if out.R < minReplicas {
			out.R = minReplicas
		}
	}

	vals := make([]any, len(c.Nodes))
	tags := map[string]int{}
	for i, n := range c.Nodes {
		vals[i] = mk(n)
		tags[tag(vals[i])] = i
		r := lang.Repr(vals[i])
		out.Reprs = append(out.Reprs, r)
		row := make([]string, out.R)
		for j := 0; j < out.R; j++ {
			row[j] = strconv.FormatUint(fn([]byte(r+strconv.Itoa(j))), 10)
		}
		out.VH = append(out.VH, row)
	}
	probes := make([]any, len(c.Probes))
	for i, p := range c.Probes {
		probes[i] = mk(p)
		out.PH = append(out.PH, [2]string{
			strconv.FormatUint(fn([]byte(lang.Repr(probes[i]))), 10),
			strconv.FormatUint(fn([]byte(fmt.Sprintf("%d:%v", prime, probes[i]))), 10),
		})
	}

	get := func(p any) (r int) {
		defer func() {
			if e := recover(); e != nil {
				r = -2
			}
		}()
		v, ok := h.Get(p)
		if !ok {
			return -1
		}
		if i, found := tags[tag(v)]; found {
			return i
		}
		return -3
	}
	observe := func() {
		row := make([]int, len(probes))
		for i, p := range probes {
			row[i] = get(p)
		}
		out.Gets = append(out.Gets, row)
	}

	observe()
	for _, op := range c.Ops {
		n := vals[num(op[1])]
		switch op[0].(string) {
		case "add":
			h.Add(n)
		case "addr":
			h.AddWithReplicas(n, num(op[2]))
		case "addw":
			h.AddWithWeight(n, num(op[2]))
		case "remove":
			h.Remove(n)
		default:
			out.Err = "unknown op"
			return
		}
		observe()
	}
	return
}

// ---- users of the ring: cache.New (cacheCluster) and kv.NewStore (clusterStore) -------------
// For every key, every server is first given its own marker value, so that the server a Get /
// Set / Del actually talks to can be read off: gets[0] = server read by Get, gets[1] = server
// written by Set, gets[2] = server on which the multi-key Del removed the key (-3 unless exactly one).
func runCluster(c Case) (out Out) {
	out.ID = c.ID
	out.R = minReplicas
	n := len(c.Weights)
	mrs := make([]*miniredis.Miniredis, n)
	conf := make(cache.ClusterConf, n)
	for i := range mrs {
		m, err := miniredis.Run()
		if err != nil {
			out.Err = err.Error()
			return
		}
		defer m.Close()
		mrs[i] = m
		conf[i] = cache.NodeConf{RedisConf: redis.RedisConf{Host: m.Addr(), Type: redis.NodeType, NonBlock: true}, Weight: c.Weights[i]}
		out.Reprs = append(out.Reprs, m.Addr()) // cacheNode.String() and (*redis.Redis).String() are the address
		row := make([]string, out.R)
		for j := 0; j < out.R; j++ {
			row[j] = strconv.FormatUint(hash.Hash([]byte(m.Addr()+strconv.Itoa(j))), 10)
		}
		out.VH = append(out.VH, row)
	}
	keys := make([]string, len(c.Probes))
	for i, p := range c.Probes {
		keys[i] = p.V
		out.PH = append(out.PH, [2]string{
			strconv.FormatUint(hash.Hash([]byte(lang.Repr(p.V))), 10),
			strconv.FormatUint(hash.Hash([]byte(fmt.Sprintf("%d:%v", prime, p.V))), 10),
		})
	}
	quote := func(v string) string {
		if c.Kind == "cache" {
			return strconv.Quote(v) // cache values are JSON
		}
		return v
	}
	var get func(k string) (string, error)
	var set func(k, v string) error
	var del func(ks ...string) error
	if c.Kind == "cache" {
		cc := cache.New(conf, syncx.NewSingleFlight(), cache.NewStat("c15"), errors.New("not found"))
		get = func(k string) (v string, err error) { err = cc.Get(k, &v); return }
		set = func(k, v string) error { return cc.Set(k, v) }
		del = func(ks ...string) error { return cc.Del(ks...) }
	} else {
		st := kv.NewStore(conf)
		get = st.Get
		set = st.Set
		del = func(ks ...string) error { _, err := st.Del(ks...); return err }
	}
	only := func(pred func(j int) bool) int {
		r := -3
		for j := 0; j < n; j++ {
			if pred(j) {
				if r != -3 {
					return -3
				}
				r = j
			}
		}
		return r
	}
	rowGet, rowSet, rowDel := make([]int, len(keys)), make([]int, len(keys)), make([]int, len(keys))
	for i, k := range keys {
		for j := range mrs {
			mrs[j].Set(k, quote("m"+strconv.Itoa(j)))
		}
		v, err := get(k)
		rowGet[i] = only(func(j int) bool { return err == nil && v == "m"+strconv.Itoa(j) })
		err = set(k, "new")
		rowSet[i] = only(func(j int) bool {
			got, _ := mrs[j].Get(k)
			return err == nil && got == quote("new")
		})
	}
	err := del(keys...)
	for i, k := range keys {
		rowDel[i] = only(func(j int) bool { return err == nil && !mrs[j].Exists(k) })
	}
	out.Gets = [][]int{rowGet, rowSet, rowDel}
	return
}

func main() {
	// a changed tree may allocate without bound on hostile inputs (replica counts up to 2^63 are generated):
	// fail in this process (runtime: out of memory) instead of exhausting the shared machine
	mb := uint64(6144)
	if v, err := strconv.ParseUint(os.Getenv("VERIF_C15_AS_MB"), 10, 64); err == nil && v >= 512 {
		mb = v
	}
	if os.Getenv("VERIF_C15_AS_MB") != "0" { // "0": no limit (the race detector reserves a huge shadow address space)
		lim := syscall.Rlimit{Cur: mb << 20, Max: mb << 20}
		_ = syscall.Setrlimit(syscall.RLIMIT_AS, &lim)
	}
	logx.Disable()
	var cases []Case
	hx.ReadCases(&cases)
	w := hx.NewWriter()
	defer w.Close()
	initWheel()
	for _, c := range cases {
		if c.Kind == "gets" {
			w.Put(runGets(c))
		} else if c.Kind == "consts" {
			w.Put(runConsts(c))
		} else if c.Kind == "repr" {
			w.Put(runRepr(c))
		} else if c.Kind == "hashfn" {
			w.Put(runHashFn(c))
		} else if c.Kind == "free" {
			w.Put(runFree(c))
		} else if c.Kind == "conc" {
			w.Put(runConc(c))
		} else if c.Kind == "script" {
			w.Put(runScript(c))
		} else if c.Kind == "cache" || c.Kind == "kv" {
			w.Put(runCluster(c))
		} else {
			w.Put(runCase(c))
		}
	}
}
