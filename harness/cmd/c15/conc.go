// Forced schedules on ONE ConsistentHash used by several goroutines (kind "conc").
//
// Every call is made with a fresh node object whose String() — i.e. lang.Repr(node) — can park:
// AddWithReplicas evaluates repr(node) inside h.Remove(node) and again right after it, before it
// takes the write lock for the insertion; parking that evaluation (recognised by its call site, not
// by counting) stops an add-type call exactly between its two critical sections (the object is not
// in the ring yet, so nobody else calls its String()).  A schedule step names a thread: if its current call has not started, the
// call is started and runs until it parks ("rem": the Remove part ran) or returns ("remins" for an
// add-type call that never parked, "rem" for Remove); if it is parked, it is released and runs to
// the end ("ins").  After every step Get is read for all probes (all other threads are parked
// outside the lock or idle).  The executor reports what really happened; it only executes.
package main

import (
	"fmt"
	"runtime"
	"strconv"
	"strings"
	"sync/atomic"
	"time"

	"github.com/zeromicro/go-zero/core/hash"
	"github.com/zeromicro/go-zero/core/lang"
)

type gnode struct {
	repr      string
	idx       int
	gated     bool
	sawRemove int32
	parkedOne int32
	reached   chan struct{}
	gate      chan struct{}
}

// where is String() called from: inside (*ConsistentHash).Remove, inside AddWithReplicas
func callSite() (inRemove, inAdd bool) {
	pcs := make([]uintptr, 32)
	n := runtime.Callers(2, pcs)
	frames := runtime.CallersFrames(pcs[:n])
	for {
		f, more := frames.Next()
		if strings.HasSuffix(f.Function, "hash.(*ConsistentHash).Remove") {
			inRemove = true
		}
		if strings.HasSuffix(f.Function, "hash.(*ConsistentHash).AddWithReplicas") {
			inAdd = true
		}
		if !more {
			return
		}
	}
}

// A gated node parks the FIRST evaluation of its repr that AddWithReplicas makes itself (not through
// Remove) after its h.Remove(node) was seen evaluating it: that is the window between the two
// critical sections, wherever the code computes the repr and however often.  If the code has no
// such evaluation, the call is simply never parked (the executor reports "remins").
func (n *gnode) String() string {
	if n.gated && atomic.LoadInt32(&n.parkedOne) == 0 {
		inRemove, inAdd := callSite()
		if inRemove {
			atomic.StoreInt32(&n.sawRemove, 1)
		} else if inAdd && atomic.LoadInt32(&n.sawRemove) == 1 && atomic.CompareAndSwapInt32(&n.parkedOne, 0, 1) {
			close(n.reached)
			<-n.gate
		}
	}
	return n.repr
}

type cthread struct {
	ops    [][]any
	next   int
	parked *gnode
	done   chan struct{}
}

const concWait = 20 * time.Second

func runConc(c Case) (out Out) {
	out.ID = c.ID
	var h *hash.ConsistentHash
	if c.R == 0 {
		h = hash.NewConsistentHash()
		out.R = minReplicas
	} else {
		h = hash.NewCustomConsistentHash(c.R, nil)
		out.R = c.R
		if out.R < minReplicas {
			out.R = minReplicas
		}
	}
	for _, n := range c.Nodes {
		r := n.V
		out.Reprs = append(out.Reprs, r)
		row := make([]string, out.R)
		for j := 0; j < out.R; j++ {
			row[j] = strconv.FormatUint(hash.Hash([]byte(r+strconv.Itoa(j))), 10)
		}
		out.VH = append(out.VH, row)
	}
	probes := make([]any, len(c.Probes))
	for i, p := range c.Probes {
		probes[i] = mk(p)
		out.PH = append(out.PH, [2]string{
			strconv.FormatUint(hash.Hash([]byte(lang.Repr(probes[i]))), 10),
			strconv.FormatUint(hash.Hash([]byte(fmt.Sprintf("%d:%v", prime, probes[i]))), 10),
		})
	}
	observe := func() {
		row := make([]int, len(probes))
		for i, p := range probes {
			func() {
				defer func() {
					if e := recover(); e != nil {
						row[i] = -2
					}
				}()
				v, ok := h.Get(p)
				if !ok {
					row[i] = -1
				} else if g, isg := v.(*gnode); isg {
					row[i] = g.idx
				} else {
					row[i] = -3
				}
			}()
		}
		out.Gets = append(out.Gets, row)
	}

	threads := make([]*cthread, len(c.Threads))
	for i, ops := range c.Threads {
		threads[i] = &cthread{ops: ops}
	}
	defer func() { // never leave a goroutine parked
		for _, t := range threads {
			if t.parked != nil {
				close(t.parked.gate)
				<-t.done
				t.parked = nil
			}
		}
	}()

	observe()
	for _, ti := range c.Sched {
		if ti < 0 || ti >= len(threads) {
			out.Err = "bad thread id"
			return
		}
		t := threads[ti]
		what := "none"
		switch {
		case t.parked != nil:
			close(t.parked.gate)
			select {
			case <-t.done:
			case <-time.After(concWait):
				out.Err = "a released call did not finish"
				return
			}
			t.parked = nil
			what = "ins"
		case t.next < len(t.ops):
			op := t.ops[t.next]
			t.next++
			k := num(op[1])
			kind := op[0].(string)
			g := &gnode{repr: c.Nodes[k].V, idx: k, gated: kind != "remove",
				reached: make(chan struct{}), gate: make(chan struct{})}
			done := make(chan struct{})
			t.done = done
			go func() {
				defer close(done)
				switch kind {
				case "add":
					h.Add(g)
				case "addr":
					h.AddWithReplicas(g, num(op[2]))
				case "addw":
					h.AddWithWeight(g, num(op[2]))
				case "remove":
					h.Remove(g)
				}
			}()
			select {
			case <-g.reached:
				t.parked = g
				what = "rem"
			case <-done:
				if kind == "remove" {
					what = "rem"
				} else {
					what = "remins"
				}
			case <-time.After(concWait):
				out.Err = "a call neither parked nor returned"
				return
			}
		}
		out.Res = append(out.Res, what)
		observe()
	}
	return
}
