// Forced schedules on ONE ConsistentHash used by several goroutines (kind "conc").
//
// Every call is made with a fresh node object whose String() — i.e. lang.Repr(node) — can park:
// AddWithReplicas evaluates repr(node) inside h.Remove(node) and again right after it, before it
// takes the write lock for the insertion; parking that evaluation (recognised by its call site, not
// by counting) stops an add-type call exactly between its two critical sections (the object is not
// in the ring yet, so nobody else calls its String()).  A schedule step names a thread: if its current call has not started, the
// call is started and runs until it parks ("rem": the Remove part ran) or returns ("remins" for an
// add-type call that never parked, "rem" for Remove); if it is parked, it is released and runs to
// the end ("ins").  After every step Get is read for all probes (all other threads are parked
// outside the lock or idle).  The executor reports what really happened; it only executes.
package main

import (
	"fmt"
	"runtime"
	"strconv"
	"strings"
	"sync/atomic"
	"time"

	"github.com/zeromicro/go-zero/core/hash"
	"github.com/zeromicro/go-zero/core/lang"
	"verifh/hx"
)

type gnode struct {
	repr      string
	idx       int
	gated     bool
	sawRemove int32
	parkedOne int32
	reached   chan struct{}
	gate      chan struct{}
}

// where is String() called from: inside (*ConsistentHash).Remove, inside AddWithReplicas
func inGetCall() bool {
	pcs := make([]uintptr, 32)
	n := runtime.Callers(2, pcs)
	frames := runtime.CallersFrames(pcs[:n])
	for {
		f, more := frames.Next()
		if strings.HasSuffix(f.Function, "hash.(*ConsistentHash).Get") {
			return true
		}
		if !more {
			return false
		}
	}
}

func callSite() (inRemove, inAdd bool) {
	pcs := make([]uintptr, 32)
	n := runtime.Callers(2, pcs)
	frames := runtime.CallersFrames(pcs[:n])
	for {
		f, more := frames.Next()
		if strings.HasSuffix(f.Function, "hash.(*ConsistentHash).Remove") {
			inRemove = true
		}
		if strings.HasSuffix(f.Function, "hash.(*ConsistentHash).AddWithReplicas") {
			inAdd = true
		}
		if !more {
			return
		}
	}
}

// A gated node parks the FIRST evaluation of its repr that AddWithReplicas makes itself (not through
// Remove) after its h.Remove(node) was seen evaluating it: that is the window between the two
// critical sections, wherever the code computes the repr and however often.  If the code has no
// such evaluation, the call is simply never parked (the executor reports "remins").
func (n *gnode) String() string {
	if n.gated && atomic.LoadInt32(&n.parkedOne) == 0 {
		inRemove, inAdd := callSite()
		if inRemove {
			atomic.StoreInt32(&n.sawRemove, 1)
		} else if inAdd && atomic.LoadInt32(&n.sawRemove) == 1 && atomic.CompareAndSwapInt32(&n.parkedOne, 0, 1) {
			close(n.reached)
			<-n.gate
		}
	}
	return n.repr
}

// A lookup key that parks Get between "slot located" and "member picked": Get evaluates the key's
// repr once to locate the slot and — only when the slot is shared by several virtual nodes — a second
// time through innerRepr to pick one of them; that evaluation (recognised by its call site) parks.
type gkey struct {
	text    string
	parked  int32
	entered chan struct{}
	release chan struct{}
}

func (k *gkey) String() string {
	if atomic.LoadInt32(&k.parked) == 0 && inInnerReprOfGet() && atomic.CompareAndSwapInt32(&k.parked, 0, 1) {
		close(k.entered)
		<-k.release
	}
	return k.text
}

func inInnerReprOfGet() bool {
	pcs := make([]uintptr, 32)
	n := runtime.Callers(2, pcs)
	frames := runtime.CallersFrames(pcs[:n])
	inner, get := false, false
	for {
		f, more := frames.Next()
		if strings.HasSuffix(f.Function, "hash.innerRepr") {
			inner = true
		}
		if strings.HasSuffix(f.Function, "hash.(*ConsistentHash).Get") {
			get = true
		}
		if !more {
			return inner && get
		}
	}
}

// The ring is built with a hash function that can park ONE evaluation: the first one made by
// AddWithReplicas itself (not through its h.Remove) after the gate was armed — i.e. the call is held
// inside the hashing of its virtual nodes.  At HEAD that is inside the write-locked insertion: every
// other call blocks; a tree that hashes outside the lock lets them through.
type hashGate struct {
	inGet   bool  // park an evaluation made by Get (the key's hash, the inner hash) instead of AddWithReplicas'
	skip    int32 // matching evaluations to let through first (1: park Get's SECOND evaluation, the inner hash)
	armed   int32
	entered chan struct{}
	release chan struct{}
}

var curGate atomic.Pointer[hashGate]

func gatedHash(data []byte) uint64 {
	if g := curGate.Load(); g != nil && atomic.LoadInt32(&g.armed) == 1 {
		hit := false
		if g.inGet {
			hit = inGetCall()
		} else {
			inRemove, inAdd := callSite()
			hit = inAdd && !inRemove
		}
		if hit && atomic.AddInt32(&g.skip, -1) < 0 && atomic.CompareAndSwapInt32(&g.armed, 1, 0) {
			// parked BEFORE the bytes are hashed: whatever happens to the memory behind data meanwhile is hashed
			close(g.entered)
			<-g.release
		}
	}
	return hash.Hash(data)
}

// the goroutine of a ring call that waits for the ring's lock
func writerBlocked() bool {
	for _, st := range hx.Stacks() {
		if strings.Contains(st, "hash.(*ConsistentHash).") && hx.Blocked(st) &&
			(strings.Contains(st, "sync.(*RWMutex).Lock") || strings.Contains(st, "sync.(*RWMutex).RLock")) {
			return true
		}
	}
	return false
}

type cthread struct {
	ops    [][]any
	next   int
	parked *gnode
	done   chan struct{}
}

const concWait = 20 * time.Second

func runConc(c Case) (out Out) {
	out.ID = c.ID
	// always through NewCustomConsistentHash with the gate-able murmur3 (replicas 0 -> minReplicas)
	h := hash.NewCustomConsistentHash(c.R, gatedHash)
	out.R = c.R
	if out.R < minReplicas {
		out.R = minReplicas
	}
	curGate.Store(nil)
	for _, n := range c.Nodes {
		r := n.V
		out.Reprs = append(out.Reprs, r)
		row := make([]string, out.R)
		for j := 0; j < out.R; j++ {
			row[j] = strconv.FormatUint(hash.Hash([]byte(r+strconv.Itoa(j))), 10)
		}
		out.VH = append(out.VH, row)
	}
	probes := make([]any, len(c.Probes))
	for i, p := range c.Probes {
		probes[i] = mk(p)
		out.PH = append(out.PH, [2]string{
			strconv.FormatUint(hash.Hash([]byte(lang.Repr(probes[i]))), 10),
			strconv.FormatUint(hash.Hash([]byte(fmt.Sprintf("%d:%v", prime, probes[i]))), 10),
		})
	}
	observe := func() {
		row := make([]int, len(probes))
		for i, p := range probes {
			func() {
				defer func() {
					if e := recover(); e != nil {
						row[i] = -2
					}
				}()
				v, ok := h.Get(p)
				if !ok {
					row[i] = -1
				} else if g, isg := v.(*gnode); isg {
					row[i] = g.idx
				} else {
					row[i] = -3
				}
			}()
		}
		out.Gets = append(out.Gets, row)
	}

	threads := make([]*cthread, len(c.Threads))
	for i, ops := range c.Threads {
		threads[i] = &cthread{ops: ops}
	}
	defer func() { // never leave a goroutine parked
		for _, t := range threads {
			if t.parked != nil {
				close(t.parked.gate)
				<-t.done
				t.parked = nil
			}
		}
	}()

	// start (or resume) the next action of thread ti.  It returns what kind of step it is and a function
	// that waits for its outcome.  park=false: an add-type call is not parked between its critical sections.
	type started struct {
		what func() (string, bool) // blocks until the step is over: (what happened, ok)
		done chan struct{}         // closed when the step's goroutine has nothing more to do in this step
	}
	startStep := func(ti int, park bool) *started {
		t := threads[ti]
		switch {
		case t.parked != nil:
			g := t.parked
			close(g.gate)
			d := t.done
			return &started{done: d, what: func() (string, bool) {
				select {
				case <-d:
				case <-time.After(concWait):
					return "", false
				}
				t.parked = nil
				return "ins", true
			}}
		case t.next < len(t.ops):
			op := t.ops[t.next]
			t.next++
			k := num(op[1])
			kind := op[0].(string)
			g := &gnode{repr: c.Nodes[k].V, idx: k, gated: park && kind != "remove",
				reached: make(chan struct{}), gate: make(chan struct{})}
			done := make(chan struct{})
			t.done = done
			go func() {
				defer close(done)
				switch kind {
				case "add":
					h.Add(g)
				case "addr":
					h.AddWithReplicas(g, num(op[2]))
				case "addw":
					h.AddWithWeight(g, num(op[2]))
				case "remove":
					h.Remove(g)
				}
			}()
			return &started{done: done, what: func() (string, bool) {
				select {
				case <-g.reached:
					t.parked = g
					return "rem", true
				case <-done:
					if kind == "remove" {
						return "rem", true
					}
					return "remins", true
				case <-time.After(concWait):
					return "", false
				}
			}}
		}
		d := make(chan struct{})
		close(d)
		return &started{done: d, what: func() (string, bool) { return "none", true }}
	}

	observe()
	for _, st := range c.Sched {
		gob := []int{}
		var what string
		var ok bool
		if lst, isl := st.([]any); isl && lst[0].(string) == "gg" {
			// ["gg", probe, [probes...], nth]: Get(probe) is held inside the nth evaluation of the hash function it
			// makes (1: the key's hash, 2: the inner hash of a shared slot), the other lookups are started one after
			// the other and run to completion meanwhile (readers share the lock), then the held one is released.
			// No membership call is involved.  gobs: [probe, answer, parked, 0, p1, a1, p2, a2, ...]
			p, nth := num(lst[1]), num(lst[3])
			if p < 0 || p >= len(c.Probes) || nth < 1 || nth > 2 {
				out.Err = "bad concurrent-lookups step"
				return
			}
			hg := &hashGate{inGet: true, armed: 1, skip: int32(nth - 1), entered: make(chan struct{}), release: make(chan struct{})}
			curGate.Store(hg)
			lookup := func(q int) chan int {
				ch := make(chan int, 1)
				key := mk(c.Probes[q])
				go func() {
					r := -1
					defer func() {
						if e := recover(); e != nil {
							r = -2
						}
						ch <- r
					}()
					v, found := h.Get(key)
					if !found {
						r = -1
					} else if g, isg := v.(*gnode); isg {
						r = g.idx
					} else {
						r = -3
					}
				}()
				return ch
			}
			hd := lookup(p)
			parked, ans := 0, 0
			select {
			case <-hg.entered:
				parked = 1
			case ans = <-hd:
			case <-time.After(concWait):
				out.Err = "a lookup neither reached the hash function nor returned"
				return
			}
			atomic.StoreInt32(&hg.armed, 0)
			released := parked == 0
			release := func() {
				if !released {
					released = true
					close(hg.release)
				}
			}
			gob = []int{p, 0, parked, 0}
			for _, x := range lst[2].([]any) {
				q := num(x)
				if q < 0 || q >= len(c.Probes) {
					release()
					out.Err = "bad probe in a concurrent-lookups step"
					return
				}
				ch := lookup(q)
				deadline := time.Now().Add(concWait)
				a, fin := 0, false
				for !fin {
					select {
					case a = <-ch:
						fin = true
					default:
						if !released && writerBlocked() {
							release() // a tree whose lookups exclude each other: nothing overlaps
						}
						if time.Now().After(deadline) {
							release()
							out.Err = "a lookup beside a held lookup neither finished nor blocked"
							return
						}
						time.Sleep(50 * time.Microsecond)
					}
				}
				gob = append(gob, q, a)
			}
			release()
			if parked == 1 {
				select {
				case ans = <-hd:
				case <-time.After(concWait):
					out.Err = "a released lookup did not return"
					return
				}
			}
			gob[1] = ans
			curGate.Store(nil)
			what, ok = "gg", true
		} else if lst, isl := st.([]any); isl && lst[0].(string) == "h" {
			// ["h", thread, [threads...]]: the thread's next call (add-type, at a call boundary) is held inside
			// the hashing of its virtual nodes; meanwhile the next calls of the listed threads are started one
			// after the other, each until it finished or blocks on the ring's lock; as soon as one blocks the
			// held call is released.  Reported: "h|what|n|w1,w2,..": n = calls that finished inside the window.
			ta := num(lst[1])
			if ta < 0 || ta >= len(threads) || threads[ta].parked != nil || threads[ta].next >= len(threads[ta].ops) ||
				threads[ta].ops[threads[ta].next][0].(string) == "remove" {
				out.Err = "bad hashing step"
				return
			}
			gate := &hashGate{armed: 1, entered: make(chan struct{}), release: make(chan struct{})}
			curGate.Store(gate)
			a := startStep(ta, false)
			held := false
			select {
			case <-gate.entered:
				held = true
			case <-a.done:
			case <-time.After(concWait):
				out.Err = "a call neither reached its hashing nor returned"
				return
			}
			atomic.StoreInt32(&gate.armed, 0)
			released := !held
			release := func() {
				if !released {
					released = true
					close(gate.release)
				}
			}
			inside := 0
			whats := []string{}
			for _, x := range lst[2].([]any) {
				ti := num(x)
				if ti < 0 || ti >= len(threads) || ti == ta {
					release()
					out.Err = "bad thread in a hashing step"
					return
				}
				stp := startStep(ti, false)
				deadline := time.Now().Add(concWait)
				for {
					fin := false
					select {
					case <-stp.done:
						fin = true
					default:
					}
					if fin {
						if !released {
							inside++
						}
						break
					}
					if !released && writerBlocked() {
						release()
					}
					if time.Now().After(deadline) {
						release()
						out.Err = "a call during a held hashing neither finished nor blocked"
						return
					}
					time.Sleep(50 * time.Microsecond)
				}
				w, ok1 := stp.what()
				if !ok1 {
					release()
					out.Err = "a call during a held hashing did not return"
					return
				}
				whats = append(whats, w)
			}
			release()
			wa, ok1 := a.what()
			if !ok1 {
				out.Err = "a held call did not return"
				return
			}
			curGate.Store(nil)
			what, ok = fmt.Sprintf("h|%s|%d|%s", wa, inside, strings.Join(whats, ",")), true
		} else if isl {
			// ["g", probe, thread]: a lookup of the probe that overlaps the thread's next step
			p, ti := num(lst[1]), num(lst[2])
			if p < 0 || p >= len(c.Probes) || ti < 0 || ti >= len(threads) {
				out.Err = "bad lookup step"
				return
			}
			// "g": the key is a Stringer that parks in innerRepr (only on shared slots); "gh": any key, the lookup
			// is held when Get evaluates the hash function on it (at HEAD: under the read lock, before the ring read)
			byHash := lst[0].(string) == "gh"
			key := &gkey{text: c.Probes[p].V, entered: make(chan struct{}), release: make(chan struct{})}
			var lookupKey any = key
			if byHash {
				hg := &hashGate{inGet: true, armed: 1, entered: key.entered, release: key.release}
				curGate.Store(hg)
				lookupKey = mk(c.Probes[p])
			}
			type gr struct{ r int }
			gdone := make(chan int, 1)
			go func() {
				r := -1
				defer func() {
					if e := recover(); e != nil {
						r = -2
					}
					gdone <- r
				}()
				v, found := h.Get(lookupKey)
				if !found {
					r = -1
				} else if g, isg := v.(*gnode); isg {
					r = g.idx
				} else {
					r = -3 // a value that was never added (nil included)
				}
			}()
			ovl, ran, ans := 0, 0, 0
			select {
			case <-key.entered:
				ovl = 1
			case ans = <-gdone:
			case <-time.After(concWait):
				out.Err = "a lookup neither parked nor returned"
				return
			}
			stp := startStep(ti, false)
			if ovl == 1 {
				// the lookup is parked between locating the slot and picking the member: does the
				// thread's step get through, or does it wait for the ring's lock?
				deadline := time.Now().Add(concWait)
				for {
					select {
					case <-stp.done:
						ran = 1
					default:
					}
					if ran == 1 || writerBlocked() {
						break
					}
					if time.Now().After(deadline) {
						out.Err = "a step overlapping a lookup neither finished nor blocked"
						close(key.release)
						return
					}
					time.Sleep(50 * time.Microsecond)
				}
				close(key.release)
				select {
				case ans = <-gdone:
				case <-time.After(concWait):
					out.Err = "a released lookup did not return"
					return
				}
			}
			if byHash {
				curGate.Store(nil)
			}
			what, ok = stp.what()
			gob = []int{p, ans, ovl, ran}
		} else {
			ti := num(st)
			if ti < 0 || ti >= len(threads) {
				out.Err = "bad thread id"
				return
			}
			what, ok = startStep(ti, true).what()
		}
		if !ok {
			out.Err = "a call neither parked nor returned"
			return
		}
		out.Res = append(out.Res, what)
		out.Gobs = append(out.Gobs, gob)
		observe()
	}
	return
}
