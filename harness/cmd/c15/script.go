// Cluster scripts for C15: the users of the ring (cache.New -> cacheCluster, kv.NewStore ->
// clusterStore) driven as long-lived instances, several at once over the same redis servers.
//
// Every miniredis server carries a pre-hook that logs, for each command that names keys, the pair
// (key, server) — a "touch" — before the command runs, and makes the command fail while a fault is
// injected on that server.  A script is a sequence of
//
//	["op", inst, name, key]      one single-key operation of the instance's public API
//	["del", inst, [key...]]      Del(keys...) (any number of keys, also 0 and 1)
//	["delx", inst, [key...]]     DelCtx(ctx, keys...) with ctx already cancelled
//	["fault", server, 0|1]       every keyed command on that server fails / works again
//	["tick"]                     one tick (1 s) of package cache's cleaner timing wheel (the executor
//	                             owns the ticker: harness/overlay/cache/zz_verif_c15.go), then quiescence
//	["populate"]                 every key is written on EVERY server directly (not through the API)
//	["snap"]                     report, per key, the servers on which it does not exist
//
// and the observation is, per step, the set of touches, plus the snapshots.  It only executes.
package main

import (
	"context"
	"errors"
	"fmt"
	"os"
	"sort"
	"strconv"
	"strings"
	"sync"
	"time"

	"github.com/alicebob/miniredis/v2"
	"github.com/alicebob/miniredis/v2/server"
	"github.com/zeromicro/go-zero/core/collection"
	"github.com/zeromicro/go-zero/core/hash"
	"github.com/zeromicro/go-zero/core/lang"
	"github.com/zeromicro/go-zero/core/stores/cache"
	"github.com/zeromicro/go-zero/core/stores/kv"
	"github.com/zeromicro/go-zero/core/stores/redis"
	"github.com/zeromicro/go-zero/core/syncx"
	"verifh/hx"
)

type Inst struct {
	Kind  string   `json:"kind"`  // cache | kv
	Nodes [][2]int `json:"nodes"` // [server, weight], in configuration order
}

type SKey struct {
	Inst int    `json:"inst"`
	K    string `json:"k"`
}

type ticker struct{ c chan time.Time }

func (t *ticker) Chan() <-chan time.Time { return t.c }
func (t *ticker) Stop()                  {}

var (
	tk    = &ticker{c: make(chan time.Time)}
	wheel *collection.TimingWheel
	// an address is used by one case per process only (the redis clients, their pools and their
	// circuit breakers are cached per address by go-zero): a port asked for again is replaced
	usedPorts = map[int]bool{}
)

const sentinel = "verif-c15-sentinel"

func initWheel() {
	var err error
	wheel, err = cache.VerifC15CleanerWheel(tk)
	if err != nil {
		hx.Fatal("cleaner wheel: %v", err)
	}
}

// a goroutine that still works for the cleaner: the wheel's per-tick goroutine, a clean task
func busy(stack string) bool {
	if strings.Contains(stack, "threading.(*TaskRunner).Schedule.func") ||
		strings.Contains(stack, "threading.GoSafe") || strings.Contains(stack, "cache.clean") {
		return true
	}
	if !strings.Contains(stack, "collection.(*TimingWheel)") {
		return false
	}
	if strings.Contains(stack, "collection.(*TimingWheel).run(") &&
		!strings.Contains(stack, "runTasks") && !strings.Contains(stack, "drainAll.func") {
		return false
	}
	return true
}

// the keys a redis command names (nil: a command without keys)
func keysOf(cmd string, args []string) []string {
	switch cmd {
	case "HELLO", "PING", "CLIENT", "SELECT", "AUTH", "INFO", "SCRIPT", "COMMAND", "QUIT", "ECHO",
		"CLUSTER", "MULTI", "EXEC", "DISCARD", "READONLY", "FLUSHALL", "FLUSHDB", "DBSIZE", "TIME":
		return nil
	case "DEL", "EXISTS", "UNLINK", "MGET", "PFCOUNT", "TOUCH":
		return args
	case "EVAL", "EVALSHA":
		if len(args) < 2 {
			return nil
		}
		n, _ := strconv.Atoi(args[1])
		if n < 0 || 2+n > len(args) {
			return nil
		}
		return args[2 : 2+n]
	}
	if len(args) == 0 {
		return nil
	}
	return args[:1]
}

type kvop func(st kv.Store, k string) error

func e1[T any](_ T, err error) error         { return err }
func e2[T, U any](_ T, _ U, err error) error { return err }

var kvOps = map[string]kvop{
	"decr":        func(s kv.Store, k string) error { return e1(s.Decr(k)) },
	"decrby":      func(s kv.Store, k string) error { return e1(s.Decrby(k, 3)) },
	"eval":        func(s kv.Store, k string) error { return e1(s.Eval("return redis.call('EXISTS', KEYS[1])", k)) },
	"exists":      func(s kv.Store, k string) error { return e1(s.Exists(k)) },
	"expire":      func(s kv.Store, k string) error { return s.Expire(k, 1000) },
	"expireat":    func(s kv.Store, k string) error { return s.Expireat(k, 4102444800) },
	"get":         func(s kv.Store, k string) error { return e1(s.Get(k)) },
	"getset":      func(s kv.Store, k string) error { return e1(s.GetSet(k, "7")) },
	"incr":        func(s kv.Store, k string) error { return e1(s.Incr(k)) },
	"incrby":      func(s kv.Store, k string) error { return e1(s.Incrby(k, 5)) },
	"persist":     func(s kv.Store, k string) error { return e1(s.Persist(k)) },
	"set":         func(s kv.Store, k string) error { return s.Set(k, "1") },
	"setex":       func(s kv.Store, k string) error { return s.Setex(k, "2", 1000) },
	"setnx":       func(s kv.Store, k string) error { return e1(s.Setnx(k, "3")) },
	"setnxex":     func(s kv.Store, k string) error { return e1(s.SetnxEx(k, "4", 1000)) },
	"ttl":         func(s kv.Store, k string) error { return e1(s.Ttl(k)) },
	"hdel":        func(s kv.Store, k string) error { return e1(s.Hdel(k, "f")) },
	"hexists":     func(s kv.Store, k string) error { return e1(s.Hexists(k, "f")) },
	"hget":        func(s kv.Store, k string) error { return e1(s.Hget(k, "f")) },
	"hgetall":     func(s kv.Store, k string) error { return e1(s.Hgetall(k)) },
	"hincrby":     func(s kv.Store, k string) error { return e1(s.Hincrby(k, "n", 2)) },
	"hkeys":       func(s kv.Store, k string) error { return e1(s.Hkeys(k)) },
	"hlen":        func(s kv.Store, k string) error { return e1(s.Hlen(k)) },
	"hmget":       func(s kv.Store, k string) error { return e1(s.Hmget(k, "f", "g")) },
	"hset":        func(s kv.Store, k string) error { return s.Hset(k, "f", "v") },
	"hsetnx":      func(s kv.Store, k string) error { return e1(s.Hsetnx(k, "g", "v")) },
	"hmset":       func(s kv.Store, k string) error { return s.Hmset(k, map[string]string{"a": "1", "b": "2"}) },
	"hvals":       func(s kv.Store, k string) error { return e1(s.Hvals(k)) },
	"llen":        func(s kv.Store, k string) error { return e1(s.Llen(k)) },
	"lindex":      func(s kv.Store, k string) error { return e1(s.Lindex(k, 0)) },
	"lpop":        func(s kv.Store, k string) error { return e1(s.Lpop(k)) },
	"lpush":       func(s kv.Store, k string) error { return e1(s.Lpush(k, "a", "b")) },
	"lrange":      func(s kv.Store, k string) error { return e1(s.Lrange(k, 0, -1)) },
	"lrem":        func(s kv.Store, k string) error { return e1(s.Lrem(k, 1, "a")) },
	"rpush":       func(s kv.Store, k string) error { return e1(s.Rpush(k, "c")) },
	"pfadd":       func(s kv.Store, k string) error { return e1(s.Pfadd(k, "x", "y")) },
	"pfcount":     func(s kv.Store, k string) error { return e1(s.Pfcount(k)) },
	"sadd":        func(s kv.Store, k string) error { return e1(s.Sadd(k, "m1", "m2")) },
	"scard":       func(s kv.Store, k string) error { return e1(s.Scard(k)) },
	"sismember":   func(s kv.Store, k string) error { return e1(s.Sismember(k, "m1")) },
	"smembers":    func(s kv.Store, k string) error { return e1(s.Smembers(k)) },
	"spop":        func(s kv.Store, k string) error { return e1(s.Spop(k)) },
	"srandmember": func(s kv.Store, k string) error { return e1(s.Srandmember(k, 1)) },
	"srem":        func(s kv.Store, k string) error { return e1(s.Srem(k, "m2")) },
	"sscan":       func(s kv.Store, k string) error { return e2(s.Sscan(k, 0, "*", 10)) },
	"zadd":        func(s kv.Store, k string) error { return e1(s.Zadd(k, 3, "a")) },
	"zaddfloat":   func(s kv.Store, k string) error { return e1(s.ZaddFloat(k, 1.5, "b")) },
	"zadds": func(s kv.Store, k string) error {
		return e1(s.Zadds(k, redis.Pair{Key: "c", Score: 4}, redis.Pair{Key: "d", Score: 5}))
	},
	"zcard":     func(s kv.Store, k string) error { return e1(s.Zcard(k)) },
	"zcount":    func(s kv.Store, k string) error { return e1(s.Zcount(k, 0, 10)) },
	"zincrby":   func(s kv.Store, k string) error { return e1(s.Zincrby(k, 2, "a")) },
	"zrank":     func(s kv.Store, k string) error { return e1(s.Zrank(k, "a")) },
	"zrange":    func(s kv.Store, k string) error { return e1(s.Zrange(k, 0, -1)) },
	"zrangews":  func(s kv.Store, k string) error { return e1(s.ZrangeWithScores(k, 0, -1)) },
	"zrangebs":  func(s kv.Store, k string) error { return e1(s.ZrangebyscoreWithScores(k, 0, 10)) },
	"zrangebsl": func(s kv.Store, k string) error { return e1(s.ZrangebyscoreWithScoresAndLimit(k, 0, 10, 0, 2)) },
	"zrem":      func(s kv.Store, k string) error { return e1(s.Zrem(k, "d")) },
	"zremrank":  func(s kv.Store, k string) error { return e1(s.Zremrangebyrank(k, 0, 0)) },
	"zremscore": func(s kv.Store, k string) error { return e1(s.Zremrangebyscore(k, 100, 200)) },
	"zrevrange": func(s kv.Store, k string) error { return e1(s.Zrevrange(k, 0, -1)) },
	"zrevbs":    func(s kv.Store, k string) error { return e1(s.ZrevrangebyscoreWithScores(k, 0, 10)) },
	"zrevbsl":   func(s kv.Store, k string) error { return e1(s.ZrevrangebyscoreWithScoresAndLimit(k, 0, 10, 0, 2)) },
	"zrevrank":  func(s kv.Store, k string) error { return e1(s.Zrevrank(k, "a")) },
	"zscore":    func(s kv.Store, k string) error { return e1(s.Zscore(k, "a")) },
}

type cacheop func(c cache.Cache, k string) error

var errNF = errors.New("c15: not found")

var cacheOps = map[string]cacheop{
	"get":   func(c cache.Cache, k string) error { var v string; return c.Get(k, &v) },
	"set":   func(c cache.Cache, k string) error { return c.Set(k, "v") },
	"setex": func(c cache.Cache, k string) error { return c.SetWithExpire(k, "w", time.Hour) },
	"take": func(c cache.Cache, k string) error {
		var v string
		return c.Take(&v, k, func(val any) error { *val.(*string) = "q"; return nil })
	},
	"takemiss": func(c cache.Cache, k string) error { // the query reports "no such row": a placeholder is cached
		var v string
		return c.Take(&v, k, func(val any) error { return errNF })
	},
	"takex": func(c cache.Cache, k string) error {
		var v string
		return c.TakeWithExpire(&v, k, func(val any, expire time.Duration) error { *val.(*string) = "x"; return nil })
	},
	"isnf": func(c cache.Cache, k string) error { // no store access at all
		if !c.IsNotFound(errNF) || c.IsNotFound(errors.New("other")) {
			return errors.New("IsNotFound wrong")
		}
		return nil
	},
}

// every key gets a value of the redis type its first letter announces (the kv operations of a
// script are chosen by that letter); anything else is a cache entry (a JSON string)
func populate(m *miniredis.Miniredis, k string) {
	if k == "" { // the empty key (legal in redis) of a cache instance
		m.Set(k, `"m"`)
		return
	}
	switch k[0] {
	case 's':
		m.Set(k, "5")
	case 'h':
		m.HSet(k, "f", "v", "n", "1")
	case 'l':
		m.Lpush(k, "a")
	case 'p':
		m.PfAdd(k, "x")
	case 'e':
		m.SetAdd(k, "m1", "m3")
	case 'z':
		m.ZAdd(k, 1, "a")
	default:
		m.Set(k, `"m"`)
	}
}

func runScript(c Case) (out Out) {
	out.ID = c.ID
	out.R = minReplicas
	n := len(c.Ports)
	keyIdx := map[string]int{}
	for i, k := range c.SKeys {
		keyIdx[k.K] = i
		out.PH = append(out.PH, [2]string{
			strconv.FormatUint(hash.Hash([]byte(lang.Repr(k.K))), 10),
			strconv.FormatUint(hash.Hash([]byte(fmt.Sprintf("%d:%v", prime, k.K))), 10),
		})
	}

	var mu sync.Mutex
	var log []int
	fault := make([]bool, n)
	mrs := make([]*miniredis.Miniredis, n)
	for j := 0; j < n; j++ {
		m := miniredis.NewMiniRedis()
		fresh := c.Ports[j] > 0 && !usedPorts[c.Ports[j]]
		usedPorts[c.Ports[j]] = true
		if !fresh || m.StartAddr("127.0.0.1:"+strconv.Itoa(c.Ports[j])) != nil {
			for try := 0; ; try++ {
				m = miniredis.NewMiniRedis()
				if err := m.Start(); err != nil {
					out.Err = err.Error()
					return
				}
				if p, _ := strconv.Atoi(m.Port()); !usedPorts[p] || try > 20 {
					usedPorts[p] = true
					break
				}
				m.Close()
			}
		}
		defer m.Close()
		mrs[j] = m
		j := j
		m.Server().SetPreHook(func(p *server.Peer, cmd string, args ...string) bool {
			ks := keysOf(cmd, args)
			if len(ks) == 0 {
				return false
			}
			mu.Lock()
			for _, k := range ks {
				i, ok := keyIdx[k]
				if !ok {
					i = -1
				}
				log = append(log, i*64+j)
			}
			f := fault[j]
			mu.Unlock()
			if f {
				p.WriteError("ERR verif injected fault")
				return true
			}
			return false
		})
		out.Reprs = append(out.Reprs, m.Addr()) // cacheNode.String() and (*redis.Redis).String() are the address
		row := make([]string, out.R)
		for i := 0; i < out.R; i++ {
			row[i] = strconv.FormatUint(hash.Hash([]byte(m.Addr()+strconv.Itoa(i))), 10)
		}
		out.VH = append(out.VH, row)
	}

	caches := make([]cache.Cache, len(c.Insts))
	stores := make([]kv.Store, len(c.Insts))
	for i, in := range c.Insts {
		conf := make(cache.ClusterConf, len(in.Nodes))
		for q, nw := range in.Nodes {
			if nw[0] < 0 || nw[0] >= n {
				out.Err = "bad server index"
				return
			}
			conf[q] = cache.NodeConf{RedisConf: redis.RedisConf{Host: mrs[nw[0]].Addr(), Type: redis.NodeType, NonBlock: true}, Weight: nw[1]}
		}
		if cache.TotalWeights(conf) <= 0 {
			out.Err = "instance without weight (the constructor would exit)"
			return
		}
		if in.Kind == "cache" {
			caches[i] = cache.New(conf, syncx.NewSingleFlight(), cache.NewStat("c15"), errNF)
		} else {
			stores[i] = kv.NewStore(conf)
		}
	}

	take := func() []int {
		mu.Lock()
		l := log
		log = nil
		mu.Unlock()
		sort.Ints(l)
		res := []int{}
		for i, x := range l {
			if i == 0 || x != l[i-1] {
				res = append(res, x)
			}
		}
		return res
	}
	take() // connection set-up names no keys, but start clean

	for _, op := range c.Sops {
		var err error
		switch op[0].(string) {
		case "op":
			i, name, k := num(op[1]), op[2].(string), c.SKeys[num(op[3])].K
			if caches[i] != nil {
				f, ok := cacheOps[name]
				if !ok {
					out.Err = "unknown cache op " + name
					return
				}
				err = f(caches[i], k)
			} else {
				f, ok := kvOps[name]
				if !ok {
					out.Err = "unknown kv op " + name
					return
				}
				err = f(stores[i], k)
			}
		case "del":
			i := num(op[1])
			var ks []string
			for _, x := range op[2].([]any) {
				ks = append(ks, c.SKeys[num(x)].K)
			}
			if caches[i] != nil {
				err = caches[i].Del(ks...)
			} else {
				_, err = stores[i].Del(ks...)
			}
		case "delx": // DelCtx with a context that is already cancelled: no node can execute its DEL
			i := num(op[1])
			var ks []string
			for _, x := range op[2].([]any) {
				ks = append(ks, c.SKeys[num(x)].K)
			}
			ctx, cancel := context.WithCancel(context.Background())
			cancel()
			if caches[i] != nil {
				err = caches[i].DelCtx(ctx, ks...)
			} else {
				_, err = stores[i].DelCtx(ctx, ks...)
			}
		case "fault":
			mu.Lock()
			fault[num(op[1])] = num(op[2]) != 0
			mu.Unlock()
		case "tick":
			tk.c <- time.Now()
			wheel.RemoveTimer(sentinel) // processed by the wheel's loop after the tick
			if !hx.Quiesce(busy, 30*time.Second) {
				out.Err = "cleaner did not quiesce"
				return
			}
		case "populate":
			for _, m := range mrs {
				m.FlushAll()
				for _, k := range c.SKeys {
					populate(m, k.K)
				}
			}
		case "snap":
			row := []int{}
			for i, k := range c.SKeys {
				for j, m := range mrs {
					if !m.Exists(k.K) {
						row = append(row, i*64+j)
					}
				}
			}
			out.Snap = append(out.Snap, row)
		default:
			out.Err = "unknown script op"
			return
		}
		out.Touch = append(out.Touch, take())
		if err != nil {
			if os.Getenv("VERIF_C15_DEBUG") != "" {
				fmt.Fprintf(os.Stderr, "case %d %v: %v\n", c.ID, op, err)
			}
			// "nonode": the dispatcher had no node for a key — kv.ErrNoRedisNode, the errNotFound handed to
			// cache.New, or a batch of them
			msg := err.Error()
			if errors.Is(err, kv.ErrNoRedisNode) || errors.Is(err, errNF) || strings.Contains(msg, kv.ErrNoRedisNode.Error()) ||
				(strings.Contains(msg, "key \"") && strings.Contains(msg, "not found")) {
				out.Res = append(out.Res, "nonode")
			} else {
				out.Res = append(out.Res, "err")
			}
		} else {
			out.Res = append(out.Res, "ok")
		}
	}
	// leave no timer behind for the next case
	wheel.Drain(func(k, v any) {})
	wheel.RemoveTimer(sentinel)
	hx.Quiesce(busy, 30*time.Second)
	return
}
