// Free-running goroutines on ONE ring (kind "free"; the thorough tier builds this executor with
// -race).  No schedule is forced: k goroutines run their scripts of Add / AddWithReplicas /
// AddWithWeight / Remove / Get as fast as they can.  Every call is bracketed by two readings of a
// global logical clock (invocation, response); the judge (tools/props/c15.py) derives, from these
// intervals only, which answers a linearisable ring may give to each Get.
package main

import (
	"fmt"
	"strconv"
	"sync"
	"sync/atomic"

	"github.com/zeromicro/go-zero/core/hash"
	"github.com/zeromicro/go-zero/core/lang"
)

type fnode struct {
	repr string
	idx  int
}

func (n *fnode) String() string { return n.repr }

func runFree(c Case) (out Out) {
	out.ID = c.ID
	h := hash.NewCustomConsistentHash(c.R, nil)
	out.R = c.R
	if out.R < minReplicas {
		out.R = minReplicas
	}
	vals := make([]any, len(c.Nodes))
	plain := map[string]int{}
	for i, n := range c.Nodes {
		if n.Kind == "stringer" {
			vals[i] = &fnode{n.V, i}
		} else {
			vals[i] = n.V
			if _, dup := plain[n.V]; !dup {
				plain[n.V] = i
			}
		}
		r := lang.Repr(vals[i])
		out.Reprs = append(out.Reprs, r)
		row := make([]string, out.R)
		for j := 0; j < out.R; j++ {
			row[j] = strconv.FormatUint(hash.Hash([]byte(r+strconv.Itoa(j))), 10)
		}
		out.VH = append(out.VH, row)
	}
	probes := make([]any, len(c.Probes))
	for i, p := range c.Probes {
		probes[i] = mk(p)
		out.PH = append(out.PH, [2]string{
			strconv.FormatUint(hash.Hash([]byte(lang.Repr(probes[i]))), 10),
			strconv.FormatUint(hash.Hash([]byte(fmt.Sprintf("%d:%v", prime, probes[i]))), 10),
		})
	}
	var clock int64
	events := make([][][]int, len(c.Threads)) // per goroutine: [inv, res, answer]
	var wg sync.WaitGroup
	start := make(chan struct{})
	for ti, ops := range c.Threads {
		ti, ops := ti, ops
		events[ti] = make([][]int, len(ops))
		wg.Add(1)
		go func() {
			defer wg.Done()
			<-start
			for oi, op := range ops {
				ans := 0
				inv := int(atomic.AddInt64(&clock, 1))
				func() {
					defer func() {
						if e := recover(); e != nil {
							ans = -2
						}
					}()
					k := num(op[1])
					switch op[0].(string) {
					case "add":
						h.Add(vals[k])
					case "addr":
						h.AddWithReplicas(vals[k], num(op[2]))
					case "addw":
						h.AddWithWeight(vals[k], num(op[2]))
					case "remove":
						h.Remove(vals[k])
					case "get":
						v, ok := h.Get(probes[k])
						switch x := v.(type) {
						case *fnode:
							ans = x.idx
						case string:
							if i, known := plain[x]; known {
								ans = i
							} else {
								ans = -3
							}
						default:
							ans = -3
						}
						if !ok {
							ans = -1
						}
					}
				}()
				res := int(atomic.AddInt64(&clock, 1))
				events[ti][oi] = []int{inv, res, ans}
			}
		}()
	}
	close(start)
	wg.Wait()
	out.Events = events
	// the final mapping, after all calls returned
	row := make([]int, len(probes))
	for i, p := range probes {
		v, ok := h.Get(p)
		switch x := v.(type) {
		case *fnode:
			row[i] = x.idx
		case string:
			if j, known := plain[x]; known {
				row[i] = j
			} else {
				row[i] = -3
			}
		default:
			row[i] = -3
		}
		if !ok {
			row[i] = -1
		}
	}
	out.Gets = [][]int{row}
	return
}

// Kind "gets": a FIXED ring (the nodes are added once, by one goroutine) and nothing but lookups afterwards:
// len(threads) goroutines each run `mod` rounds over all probes, as fast as they can, and compare every
// answer with the answer of the quiescent ring.  Reads do not write: on a correct ring there is no mismatch,
// whatever the scheduling.  Reported: gets[0] = the quiescent answers, rx[0] = [lookups, mismatches,
// "probe/got/want" of the first few].
func runGets(c Case) (out Out) {
	out.ID = c.ID
	h := hash.NewConsistentHash()
	if c.R != 0 {
		h = hash.NewCustomConsistentHash(c.R, nil)
	}
	for i, n := range c.Nodes {
		h.Add(&fnode{n.V, i})
	}
	probes := make([]any, len(c.Probes))
	want := make([]int, len(c.Probes))
	get := func(p any) int {
		v, ok := h.Get(p)
		if !ok {
			return -1
		}
		if x, isn := v.(*fnode); isn {
			return x.idx
		}
		return -3
	}
	for i, p := range c.Probes {
		probes[i] = mk(p)
		want[i] = get(probes[i])
	}
	out.Gets = [][]int{want}
	var total, bad int64
	var mu sync.Mutex
	first := []string{}
	var wg sync.WaitGroup
	start := make(chan struct{})
	for ti := range c.Threads {
		ti := ti
		wg.Add(1)
		go func() {
			defer wg.Done()
			<-start
			for round := uint64(0); round < c.Mod; round++ {
				for j := range probes {
					q := (j*(2*ti+1) + ti + int(round)) % len(probes)
					got := -2
					func() {
						defer func() { recover() }()
						got = get(probes[q])
					}()
					atomic.AddInt64(&total, 1)
					if got != want[q] {
						atomic.AddInt64(&bad, 1)
						mu.Lock()
						if len(first) < 5 {
							first = append(first, fmt.Sprintf("%d/%d/%d", q, got, want[q]))
						}
						mu.Unlock()
					}
				}
			}
		}()
	}
	close(start)
	wg.Wait()
	out.Rx = [][]string{append([]string{strconv.FormatInt(total, 10), strconv.FormatInt(bad, 10)}, first...)}
	return
}
