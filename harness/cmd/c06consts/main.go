// c06consts prints the constants the C06 model depends on, evaluated exactly by
// go/types + go/constant from the sources of the checked tree:
//
//	c06consts <dir of core/stores/cache> <dir of core/stores/sqlc>
//
// Output lines:
//
//	num <pkg>.<name> <numerator> <denominator>     numeric package-level constants
//	str <pkg>.<name> <quoted string>               string package-level constants
//	retry <from ns> <to ns>                        one case of cleaner.go nextDelay
//	first <ns>                                     delay of the timer set by AddCleanTask
//	wheel <interval ns> <slots>                    arguments of NewTimingWheel in init()
//	flag options_fallback <0|1>                    cacheopt.go newOptions ends with `if o.X <= 0 { o.X = defaultX }` for both fields
//	flag jsonx_usenumber <0|1>                     jsonx.Unmarshal decodes with decoder.UseNumber() (third argument: dir of core/jsonx)
//
// Only package time is really imported; every other import is an empty stand-in
// (type errors outside the inspected expressions are ignored).
package main

import (
	"fmt"
	"go/ast"
	"go/constant"
	"go/importer"
	"go/parser"
	"go/token"
	"go/types"
	"os"
	"path"
	"path/filepath"
	"sort"
	"strings"
)

type imp struct{ std types.Importer }

func (i imp) Import(p string) (*types.Package, error) {
	if p == "time" {
		return i.std.Import(p)
	}
	pkg := types.NewPackage(p, path.Base(p))
	pkg.MarkComplete()
	return pkg, nil
}

func fail(format string, a ...any) {
	fmt.Fprintf(os.Stderr, "c06consts: "+format+"\n", a...)
	os.Exit(1)
}

// every non-test source file of the package directory: a constant or function that moves to
// another file of the package (a neutral refactoring) is still found
func sources(dir string) []string {
	ents, err := os.ReadDir(dir)
	if err != nil {
		fail("%v", err)
	}
	var res []string
	for _, e := range ents {
		n := e.Name()
		if !e.IsDir() && strings.HasSuffix(n, ".go") && !strings.HasSuffix(n, "_test.go") && !strings.HasPrefix(n, "zz_verif") {
			res = append(res, n)
		}
	}
	sort.Strings(res)
	return res
}

func load(dir, name string, only []string) (*types.Package, *types.Info, []*ast.File) {
	fset := token.NewFileSet()
	var files []*ast.File
	if only == nil {
		only = sources(dir)
	}
	for _, fn := range only {
		f, err := parser.ParseFile(fset, filepath.Join(dir, fn), nil, 0)
		if err != nil {
			fail("%v", err)
		}
		files = append(files, f)
	}
	info := &types.Info{Types: map[ast.Expr]types.TypeAndValue{}}
	conf := types.Config{Importer: imp{std: importer.ForCompiler(fset, "source", nil)}, Error: func(error) {}}
	pkg, _ := conf.Check(name, fset, files, info)
	if pkg == nil {
		fail("type check of %s produced no package", dir)
	}
	return pkg, info, files
}

func printConsts(pkg *types.Package) {
	names := pkg.Scope().Names()
	sort.Strings(names)
	for _, n := range names {
		c, ok := pkg.Scope().Lookup(n).(*types.Const)
		if !ok {
			continue
		}
		v := c.Val()
		switch v.Kind() {
		case constant.String:
			fmt.Printf("str %s.%s %q\n", pkg.Name(), n, constant.StringVal(v))
		case constant.Int, constant.Float:
			num, den := constant.Num(v), constant.Denom(v)
			if num.Kind() == constant.Int && den.Kind() == constant.Int {
				fmt.Printf("num %s.%s %s %s\n", pkg.Name(), n, num.ExactString(), den.ExactString())
			}
		}
	}
}

func intVal(info *types.Info, e ast.Expr) (string, bool) {
	tv, ok := info.Types[e]
	if !ok || tv.Value == nil {
		return "", false
	}
	v := constant.ToInt(tv.Value)
	if v.Kind() != constant.Int {
		return "", false
	}
	return v.ExactString(), true
}

func funcDecl(files []*ast.File, name string) *ast.FuncDecl {
	for _, f := range files {
		for _, d := range f.Decls {
			if fd, ok := d.(*ast.FuncDecl); ok && fd.Name.Name == name && fd.Recv == nil {
				return fd
			}
		}
	}
	return nil
}

// `if o.<field> <= 0 { o.<field> = <deflt> }` at the top level of fn's body, after the last range loop.
// Equivalent spellings are followed: `< 1`, `0 >= o.f`, `1 > o.f`, `!(o.f > 0)`, `!(o.f >= 1)`, parentheses, and a
// right-hand side that is any constant expression with the value of <deflt>.
func hasFallback(info *types.Info, pkg *types.Package, fn *ast.FuncDecl, field, deflt string) bool {
	sel := func(e ast.Expr) bool {
		s, ok := unparen(e).(*ast.SelectorExpr)
		return ok && s.Sel.Name == field
	}
	lit := func(e ast.Expr, v string) bool {
		x, ok := intVal(info, unparen(e))
		if ok {
			return x == v
		}
		l, ok := unparen(e).(*ast.BasicLit)
		return ok && l.Value == v
	}
	var nonPositive func(e ast.Expr) bool
	nonPositive = func(e ast.Expr) bool {
		switch c := unparen(e).(type) {
		case *ast.BinaryExpr:
			switch c.Op {
			case token.LEQ:
				return sel(c.X) && lit(c.Y, "0")
			case token.LSS:
				return sel(c.X) && lit(c.Y, "1")
			case token.GEQ:
				return lit(c.X, "0") && sel(c.Y)
			case token.GTR:
				return lit(c.X, "1") && sel(c.Y)
			}
		case *ast.UnaryExpr:
			if c.Op != token.NOT {
				return false
			}
			if b, ok := unparen(c.X).(*ast.BinaryExpr); ok {
				return (b.Op == token.GTR && sel(b.X) && lit(b.Y, "0")) || (b.Op == token.GEQ && sel(b.X) && lit(b.Y, "1")) ||
					(b.Op == token.LSS && lit(b.X, "0") && sel(b.Y)) || (b.Op == token.LEQ && lit(b.X, "1") && sel(b.Y))
			}
		}
		return false
	}
	want := ""
	if c, ok := pkg.Scope().Lookup(deflt).(*types.Const); ok {
		if v := constant.ToInt(c.Val()); v.Kind() == constant.Int {
			want = v.ExactString()
		}
	}
	lastLoop := -1
	for i, st := range fn.Body.List {
		if _, ok := st.(*ast.RangeStmt); ok {
			lastLoop = i
		}
	}
	for i, st := range fn.Body.List {
		ifs, ok := st.(*ast.IfStmt)
		if !ok || i < lastLoop || ifs.Init != nil || ifs.Else != nil || len(ifs.Body.List) != 1 {
			continue
		}
		if !nonPositive(ifs.Cond) {
			continue
		}
		as, ok := ifs.Body.List[0].(*ast.AssignStmt)
		if !ok || as.Tok != token.ASSIGN || len(as.Lhs) != 1 || len(as.Rhs) != 1 || !sel(as.Lhs[0]) {
			continue
		}
		if id, ok := unparen(as.Rhs[0]).(*ast.Ident); ok && id.Name == deflt {
			return true
		}
		if v, ok := intVal(info, unparen(as.Rhs[0])); ok && want != "" && v == want {
			return true
		}
	}
	return false
}

func unparen(e ast.Expr) ast.Expr {
	for {
		p, ok := e.(*ast.ParenExpr)
		if !ok {
			return e
		}
		e = p.X
	}
}

// does fn (or a function of the same files it calls, one level) call <x>.UseNumber() ?
func callsUseNumber(files []*ast.File, fn *ast.FuncDecl, depth int) bool {
	res := false
	ast.Inspect(fn, func(n ast.Node) bool {
		call, ok := n.(*ast.CallExpr)
		if !ok {
			return true
		}
		switch f := call.Fun.(type) {
		case *ast.SelectorExpr:
			if f.Sel.Name == "UseNumber" {
				res = true
			}
		case *ast.Ident:
			if depth > 0 {
				if g := funcDecl(files, f.Name); g != nil && g.Body != nil && callsUseNumber(files, g, depth-1) {
					res = true
				}
			}
		}
		return true
	})
	return res
}

func b2i(b bool) int {
	if b {
		return 1
	}
	return 0
}

func main() {
	if len(os.Args) != 3 && len(os.Args) != 4 {
		fail("usage: c06consts <cache dir> <sqlc dir> [<jsonx dir>]")
	}
	cpkg, cinfo, cfiles := load(os.Args[1], "cache", nil)
	printConsts(cpkg)
	spkg, _, _ := load(os.Args[2], "sqlc", nil)
	printConsts(spkg)

	no := funcDecl(cfiles, "newOptions")
	if no == nil || no.Body == nil {
		fail("cacheopt.go: func newOptions not found")
	}
	fmt.Printf("flag options_fallback %d\n", b2i(hasFallback(cinfo, cpkg, no, "Expiry", "defaultExpiry") &&
		hasFallback(cinfo, cpkg, no, "NotFoundExpiry", "defaultNotFoundExpiry")))
	if len(os.Args) == 4 {
		_, _, jfiles := load(os.Args[3], "jsonx", nil)
		un := funcDecl(jfiles, "Unmarshal")
		if un == nil || un.Body == nil {
			fail("jsonx: func Unmarshal not found")
		}
		fmt.Printf("flag jsonx_usenumber %d\n", b2i(callsUseNumber(jfiles, un, 2)))
	}

	// nextDelay: switch delay { case X: return Y, true ... default: return 0, false }
	nd := funcDecl(cfiles, "nextDelay")
	if nd == nil || nd.Body == nil {
		fail("cleaner.go: func nextDelay not found")
	}
	var sw *ast.SwitchStmt
	for _, st := range nd.Body.List {
		if s, ok := st.(*ast.SwitchStmt); ok {
			sw = s
		}
	}
	if sw == nil || len(nd.Body.List) != 1 {
		fail("cleaner.go: nextDelay is no longer a single switch")
	}
	for _, cl := range sw.Body.List {
		cc := cl.(*ast.CaseClause)
		if len(cc.Body) != 1 {
			fail("cleaner.go: nextDelay: case body not a single return")
		}
		ret, ok := cc.Body[0].(*ast.ReturnStmt)
		if !ok || len(ret.Results) != 2 {
			fail("cleaner.go: nextDelay: case body not `return d, ok`")
		}
		okIdent, _ := ret.Results[1].(*ast.Ident)
		if cc.List == nil { // default
			if okIdent == nil || okIdent.Name != "false" {
				fail("cleaner.go: nextDelay: default no longer gives up")
			}
			continue
		}
		if okIdent == nil || okIdent.Name != "true" {
			fail("cleaner.go: nextDelay: unexpected result in a case")
		}
		to, ok2 := intVal(cinfo, ret.Results[0])
		if !ok2 {
			fail("cleaner.go: nextDelay: non-constant delay")
		}
		for _, e := range cc.List {
			from, ok1 := intVal(cinfo, e)
			if !ok1 {
				fail("cleaner.go: nextDelay: non-constant case")
			}
			fmt.Printf("retry %s %s\n", from, to)
		}
	}

	// AddCleanTask: tw.SetTimer(key, delayTask{delay: D, ...}, D)
	act := funcDecl(cfiles, "AddCleanTask")
	if act == nil {
		fail("cleaner.go: func AddCleanTask not found")
	}
	var firsts []string
	ast.Inspect(act, func(n ast.Node) bool {
		call, ok := n.(*ast.CallExpr)
		if !ok {
			return true
		}
		sel, ok := call.Fun.(*ast.SelectorExpr)
		if !ok || sel.Sel.Name != "SetTimer" || len(call.Args) != 3 {
			return true
		}
		if v, ok := intVal(cinfo, call.Args[2]); ok {
			firsts = append(firsts, v)
		}
		if cl, ok := call.Args[1].(*ast.CompositeLit); ok {
			for _, el := range cl.Elts {
				if kv, ok := el.(*ast.KeyValueExpr); ok {
					if id, ok := kv.Key.(*ast.Ident); ok && id.Name == "delay" {
						if v, ok := intVal(cinfo, kv.Value); ok {
							firsts = append(firsts, v)
						}
					}
				}
			}
		}
		return true
	})
	if len(firsts) != 2 || firsts[0] != firsts[1] {
		fail("cleaner.go: AddCleanTask: timer delay and delayTask.delay not recognised or different: %v", firsts)
	}
	fmt.Printf("first %s\n", firsts[0])

	// init: collection.NewTimingWheel(interval, slots, clean)
	found := false
	for _, f := range cfiles {
		ast.Inspect(f, func(n ast.Node) bool {
			call, ok := n.(*ast.CallExpr)
			if !ok {
				return true
			}
			sel, ok := call.Fun.(*ast.SelectorExpr)
			if !ok || !strings.HasPrefix(sel.Sel.Name, "NewTimingWheel") || len(call.Args) < 3 {
				return true
			}
			iv, ok1 := intVal(cinfo, call.Args[0])
			sl, ok2 := intVal(cinfo, call.Args[1])
			if ok1 && ok2 {
				fmt.Printf("wheel %s %s\n", iv, sl)
				found = true
			}
			return true
		})
	}
	if !found {
		fail("cleaner.go: NewTimingWheel(interval, slots, ...) not recognised")
	}
}
