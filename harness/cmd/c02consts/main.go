// c02consts prints the package-level constants of core/load/adaptiveshedder.go as
// exact rationals ("name num den" per line), evaluated by go/types + go/constant.
// Only package time is really imported; every other import is an empty stand-in
// (type errors outside the constant declarations are ignored).
package main

import (
	"fmt"
	"go/ast"
	"go/constant"
	"go/importer"
	"go/parser"
	"go/token"
	"go/types"
	"os"
	"path"
	"sort"
)

type imp struct {
	std types.Importer
}

func (i imp) Import(p string) (*types.Package, error) {
	if p == "time" {
		return i.std.Import(p)
	}
	pkg := types.NewPackage(p, path.Base(p))
	pkg.MarkComplete()
	return pkg, nil
}

func main() {
	if len(os.Args) < 2 {
		fmt.Fprintln(os.Stderr, "usage: c02consts file.go...")
		os.Exit(2)
	}
	fset := token.NewFileSet()
	var files []*ast.File
	for _, fn := range os.Args[1:] {
		f, err := parser.ParseFile(fset, fn, nil, 0)
		if err != nil {
			fmt.Fprintln(os.Stderr, err)
			os.Exit(1)
		}
		files = append(files, f)
	}
	conf := types.Config{
		Importer: imp{std: importer.ForCompiler(fset, "source", nil)},
		Error:    func(error) {},
	}
	pkg, _ := conf.Check("load", fset, files, nil)
	if pkg == nil {
		fmt.Fprintln(os.Stderr, "type check produced no package")
		os.Exit(1)
	}
	names := pkg.Scope().Names()
	sort.Strings(names)
	for _, n := range names {
		c, ok := pkg.Scope().Lookup(n).(*types.Const)
		if !ok {
			continue
		}
		v := c.Val()
		if v.Kind() != constant.Int && v.Kind() != constant.Float {
			continue
		}
		num, den := constant.Num(v), constant.Denom(v)
		if num.Kind() != constant.Int || den.Kind() != constant.Int {
			continue
		}
		fmt.Printf("%s %s %s\n", n, num.ExactString(), den.ExactString())
	}
}
