// c02consts prints the package-level numeric constants of a Go package directory (all non-test
// files: the constants may live in any file of the package) as exact rationals, evaluated by
// go/types + go/constant:
//
//	const <name> <num> <den> <file>
//	var   <name> <num> <den> <file>     (a package-level variable initialised with a constant expression)
//
// Only package time is really imported; every other import is an empty stand-in (type errors
// outside the constant declarations are ignored).
package main

import (
	"fmt"
	"go/ast"
	"go/constant"
	"go/importer"
	"go/parser"
	"go/token"
	"go/types"
	"os"
	"path"
	"path/filepath"
	"sort"
	"strings"
)

type imp struct {
	std types.Importer
}

func (i imp) Import(p string) (*types.Package, error) {
	if p == "time" || p == "math" {
		return i.std.Import(p)
	}
	pkg := types.NewPackage(p, path.Base(p))
	pkg.MarkComplete()
	return pkg, nil
}

func rat(v constant.Value) (string, string, bool) {
	if v == nil || (v.Kind() != constant.Int && v.Kind() != constant.Float) {
		return "", "", false
	}
	num, den := constant.Num(v), constant.Denom(v)
	if num.Kind() != constant.Int || den.Kind() != constant.Int {
		return "", "", false
	}
	return num.ExactString(), den.ExactString(), true
}

func main() {
	if len(os.Args) < 2 {
		fmt.Fprintln(os.Stderr, "usage: c02consts <package dir | file.go...>")
		os.Exit(2)
	}
	var names []string
	for _, a := range os.Args[1:] {
		if st, err := os.Stat(a); err == nil && st.IsDir() {
			ms, _ := filepath.Glob(filepath.Join(a, "*.go"))
			sort.Strings(ms)
			for _, m := range ms {
				if !strings.HasSuffix(m, "_test.go") {
					names = append(names, m)
				}
			}
		} else {
			names = append(names, a)
		}
	}
	fset := token.NewFileSet()
	var files []*ast.File
	for _, fn := range names {
		f, err := parser.ParseFile(fset, fn, nil, 0)
		if err != nil {
			fmt.Fprintln(os.Stderr, err)
			os.Exit(1)
		}
		files = append(files, f)
	}
	info := &types.Info{Types: map[ast.Expr]types.TypeAndValue{}, Defs: map[*ast.Ident]types.Object{}}
	conf := types.Config{
		Importer: imp{std: importer.ForCompiler(fset, "source", nil)},
		Error:    func(error) {},
	}
	pkg, _ := conf.Check("load", fset, files, info)
	if pkg == nil {
		fmt.Fprintln(os.Stderr, "type check produced no package")
		os.Exit(1)
	}
	for _, f := range files {
		base := filepath.Base(fset.Position(f.Pos()).Filename)
		for _, d := range f.Decls {
			gd, ok := d.(*ast.GenDecl)
			if !ok || (gd.Tok != token.CONST && gd.Tok != token.VAR) {
				continue
			}
			for _, sp := range gd.Specs {
				vs := sp.(*ast.ValueSpec)
				for i, id := range vs.Names {
					if gd.Tok == token.CONST {
						if c, ok := info.Defs[id].(*types.Const); ok {
							if n, dn, ok := rat(c.Val()); ok {
								fmt.Printf("const %s %s %s %s\n", id.Name, n, dn, base)
							}
						}
					} else if len(vs.Values) == len(vs.Names) {
						if tv, ok := info.Types[vs.Values[i]]; ok {
							if n, dn, ok := rat(tv.Value); ok {
								fmt.Printf("var %s %s %s %s\n", id.Name, n, dn, base)
							}
						}
					}
				}
			}
		}
	}
}
