// Executor for C16: drives the in-memory collections of core/collection through
// their public APIs, one generated operation sequence per case, and reports every
// observable result.  RollingWindow runs on the virtual clock provided by the
// core/timex overlay (harness/overlay/timex/relativetime.go).
package main

import (
	"errors"
	"fmt"
	"sort"
	"strconv"
	"strings"
	"sync"
	"time"

	"github.com/zeromicro/go-zero/core/collection"
	"github.com/zeromicro/go-zero/core/logx"
	"github.com/zeromicro/go-zero/core/timex"
	"verifh/hx"
)

type Case struct {
	ID       int     `json:"id"`
	Kind     string  `json:"kind"`
	Size     int     `json:"size"`
	Interval int64   `json:"interval"`
	T0       int64   `json:"t0"`
	Ignore   bool    `json:"ignore"`
	Limit    int     `json:"limit"`
	ExpireMs int64   `json:"expire_ms"`
	Ops      [][]any `json:"ops"`
}

type Out struct {
	ID  int    `json:"id"`
	Obs []any  `json:"obs"`
	At  []int64 `json:"at,omitempty"` // cache_rt: milliseconds since the start, per operation
	Pair any    `json:"pair,omitempty"` // cache_take2: what the second, concurrent Take saw
	Err string `json:"err,omitempty"`
}

func num(v any) int64 { return int64(v.(float64)) }

// ---- rolling window -----------------------------------------------------------

// a bucket that remembers the values added since its last reset
type lb struct{ vals []int64 }

func (b *lb) Add(v int64) { b.vals = append(b.vals, v) }
func (b *lb) Reset()      { b.vals = nil }

func runWindow(c Case, out *Out) {
	timex.SetFakeNow(time.Duration(c.T0))
	var opts []collection.RollingWindowOption[int64, *lb]
	if c.Ignore {
		opts = append(opts, collection.IgnoreCurrentBucket[int64, *lb]())
	}
	w := collection.NewRollingWindow[int64, *lb](func() *lb { return &lb{} }, c.Size,
		time.Duration(c.Interval), opts...)
	for _, op := range c.Ops {
		switch op[0].(string) {
		case "add":
			timex.SetFakeNow(time.Duration(num(op[1])))
			w.Add(num(op[2]))
		case "reduce":
			timex.SetFakeNow(time.Duration(num(op[1])))
			buckets := [][]int64{}
			w.Reduce(func(b *lb) {
				vs := make([]int64, len(b.vals))
				copy(vs, b.vals)
				buckets = append(buckets, vs)
			})
			out.Obs = append(out.Obs, buckets)
		}
	}
}

// ---- safemap --------------------------------------------------------------------

func opt(v any, ok bool) any {
	if !ok {
		return []any{"opt", nil}
	}
	return []any{"opt", v}
}

func runSafeMap(c Case, out *Out) {
	m := collection.NewSafeMap()
	for _, op := range c.Ops {
		switch op[0].(string) {
		case "set":
			m.Set(num(op[1]), num(op[2]))
		case "get":
			v, ok := m.Get(num(op[1]))
			out.Obs = append(out.Obs, opt(v, ok))
		case "del":
			m.Del(num(op[1]))
		case "size":
			out.Obs = append(out.Obs, []any{"num", m.Size()})
		case "range":
			ps := [][2]int64{}
			m.Range(func(k, v any) bool {
				ps = append(ps, [2]int64{k.(int64), v.(int64)})
				return true
			})
			sort.Slice(ps, func(i, j int) bool {
				if ps[i][0] != ps[j][0] {
					return ps[i][0] < ps[j][0]
				}
				return ps[i][1] < ps[j][1]
			})
			out.Obs = append(out.Obs, []any{"pairs", ps})
		case "setseq":
			k0, n, v := num(op[1]), num(op[2]), num(op[3])
			for i := int64(0); i < n; i++ {
				m.Set(k0+i, v)
			}
		case "delseq":
			k0, n := num(op[1]), num(op[2])
			for i := int64(0); i < n; i++ {
				m.Del(k0 + i)
			}
		case "churn":
			k, v, n := num(op[1]), num(op[2]), num(op[3])
			for i := int64(0); i < n; i++ {
				m.Set(k, v)
				m.Del(k)
			}
		}
	}
}

// ---- queue / ring -----------------------------------------------------------------

func runQueue(c Case, out *Out) {
	q := collection.NewQueue(c.Size)
	for _, op := range c.Ops {
		switch op[0].(string) {
		case "put":
			q.Put(num(op[1]))
		case "take":
			v, ok := q.Take()
			out.Obs = append(out.Obs, opt(v, ok))
		case "empty":
			out.Obs = append(out.Obs, []any{"bool", q.Empty()})
		}
	}
}

func runRing(c Case, out *Out) {
	r := collection.NewRing(c.Size)
	for _, op := range c.Ops {
		switch op[0].(string) {
		case "add":
			r.Add(num(op[1]))
		case "take":
			vs := []int64{}
			for _, v := range r.Take() {
				vs = append(vs, v.(int64))
			}
			out.Obs = append(out.Obs, []any{"list", vs})
		}
	}
}

// ---- set ----------------------------------------------------------------------------

const tagShift = int64(1) << 32

func decodeKey(k int64) any {
	tag, v := k/tagShift, k%tagShift
	switch tag {
	case 0:
		return int(v)
	case 1:
		return int64(v)
	case 2:
		return uint(v)
	default:
		return strconv.FormatInt(v, 10)
	}
}

func encodeKey(k any) int64 {
	switch x := k.(type) {
	case int:
		return int64(x)
	case int64:
		return tagShift + x
	case uint:
		return 2*tagShift + int64(x)
	case string:
		n, _ := strconv.ParseInt(x, 10, 64)
		return 3*tagShift + n
	}
	return -1
}

func sorted(ks []int64) []int64 {
	sort.Slice(ks, func(i, j int) bool { return ks[i] < ks[j] })
	return ks
}

func runSet(c Case, out *Out) {
	var s *collection.Set
	if c.Ignore {
		s = collection.NewSet() // managed: type mismatches are only logged
	} else {
		s = collection.NewUnmanagedSet()
	}
	for _, op := range c.Ops {
		switch op[0].(string) {
		case "add":
			k := decodeKey(num(op[1]))
			switch x := k.(type) { // go through the typed entry points as well
			case int:
				s.AddInt(x)
			case int64:
				s.AddInt64(x)
			case uint:
				s.AddUint(x)
			case string:
				s.AddStr(x)
			}
		case "addany":
			s.Add(decodeKey(num(op[1])))
		case "remove":
			s.Remove(decodeKey(num(op[1])))
		case "contains":
			out.Obs = append(out.Obs, []any{"bool", s.Contains(decodeKey(num(op[1])))})
		case "count":
			out.Obs = append(out.Obs, []any{"num", s.Count()})
		case "keys":
			ks := []int64{}
			for _, k := range s.Keys() {
				ks = append(ks, encodeKey(k))
			}
			out.Obs = append(out.Obs, []any{"list", sorted(ks)})
		case "keysof":
			ks := []int64{}
			switch num(op[1]) {
			case 0:
				for _, k := range s.KeysInt() {
					ks = append(ks, encodeKey(k))
				}
			case 1:
				for _, k := range s.KeysInt64() {
					ks = append(ks, encodeKey(k))
				}
			case 2:
				for _, k := range s.KeysUint() {
					ks = append(ks, encodeKey(k))
				}
			default:
				for _, k := range s.KeysStr() {
					ks = append(ks, encodeKey(k))
				}
			}
			out.Obs = append(out.Obs, []any{"list", sorted(ks)})
		}
	}
}

// ---- cache ----------------------------------------------------------------------------

var errFetch = errors.New("fetch failed")

func runCache(c Case, out *Out, realtime bool) {
	expire := time.Hour
	if realtime {
		expire = time.Duration(c.ExpireMs) * time.Millisecond
	}
	var opts []collection.CacheOption
	if c.Limit != 0 {
		opts = append(opts, collection.WithLimit(c.Limit))
	}
	cache, err := collection.NewCache(expire, opts...)
	if err != nil {
		out.Err = err.Error()
		return
	}
	start := time.Now()
	for _, op := range c.Ops {
		key := func() string { return "k" + strconv.FormatInt(num(op[1]), 10) }
		if realtime {
			out.At = append(out.At, time.Since(start).Milliseconds())
		}
		switch op[0].(string) {
		case "set":
			cache.Set(key(), num(op[2]))
		case "get":
			v, ok := cache.Get(key())
			out.Obs = append(out.Obs, opt(v, ok))
		case "del":
			cache.Del(key())
		case "take":
			called := false
			v, err := cache.Take(key(), func() (any, error) {
				called = true
				if op[2] == nil {
					return nil, errFetch
				}
				return num(op[2]), nil
			})
			if err != nil {
				if err != errFetch {
					out.Err = "unexpected error from Take: " + err.Error()
					return
				}
				out.Obs = append(out.Obs, []any{"take", nil, called})
			} else {
				out.Obs = append(out.Obs, []any{"take", v, called})
			}
		case "sleep":
			time.Sleep(time.Duration(num(op[1])) * time.Millisecond)
		}
	}
}


// ---- cache driven by its own timing wheel, tick by tick -------------------------------

type rticker struct{ c chan time.Time }

func (t *rticker) Chan() <-chan time.Time { return t.c }
func (t *rticker) Stop()                  {}

// The cache's wheel is quiescent when no goroutine runs (or is about to run) a wheel
// callback, i.e. cache.Del(key), and every wheel event loop is parked in its select.
// A send on one of the wheel's unbuffered channels (tick, set, move, remove) returns
// only after the loop has taken it, and a goroutine that has been handed a value is
// no longer reported as waiting in select, so polling after the operation returned
// cannot miss work in progress.  Nothing of the code under test is used to synchronise.
func cbBusy(stack string) bool {
	if strings.Contains(stack, "(*TimingWheel).runTasks") ||
		strings.Contains(stack, "threading.RunSafe") ||
		strings.Contains(stack, "threading.GoSafe") ||
		strings.Contains(stack, "collection.NewCache.func") {
		return true
	}
	if strings.Contains(stack, "collection.(*TimingWheel).run(") {
		head := stack
		if nl := strings.IndexByte(stack, '\n'); nl >= 0 {
			head = stack[:nl]
		}
		return !strings.Contains(head, "[select")
	}
	return false
}

func runCacheW(c Case, out *Out) {
	tk := &rticker{c: make(chan time.Time)}
	timex.SetTickerHook(func(d time.Duration) timex.Ticker { return tk })
	var opts []collection.CacheOption
	if c.Limit != 0 {
		opts = append(opts, collection.WithLimit(c.Limit))
	}
	cache, err := collection.NewCache(time.Duration(c.ExpireMs)*time.Millisecond, opts...)
	timex.SetTickerHook(nil)
	if err != nil {
		out.Err = err.Error()
		return
	}
	for _, op := range c.Ops {
		key := func() string { return "k" + strconv.FormatInt(num(op[1]), 10) }
		switch op[0].(string) {
		case "set":
			cache.SetWithExpire(key(), num(op[2]), time.Duration(num(op[3]))*time.Millisecond)
		case "get":
			v, ok := cache.Get(key())
			out.Obs = append(out.Obs, opt(v, ok))
		case "del":
			cache.Del(key())
		case "take":
			called := false
			v, err := cache.Take(key(), func() (any, error) {
				called = true
				if op[2] == nil {
					return nil, errFetch
				}
				return num(op[2]), nil
			})
			if err != nil {
				out.Obs = append(out.Obs, []any{"take", nil, called})
			} else {
				out.Obs = append(out.Obs, []any{"take", v, called})
			}
		case "tick":
			tk.c <- time.Now()
		}
		if !hx.Quiesce(cbBusy, 5*time.Second) {
			out.Err = "wheel callbacks did not quiesce"
			return
		}
	}
}

// ---- two concurrent Takes of one key, the first loader gated ----------------------------

func flightWaiter(stack string) bool {
	return strings.Contains(stack, "flightGroup") && strings.Contains(stack, "sync.(*WaitGroup).Wait")
}

func runCacheTake2(c Case, out *Out) {
	var opts []collection.CacheOption
	if c.Limit != 0 {
		opts = append(opts, collection.WithLimit(c.Limit))
	}
	cache, err := collection.NewCache(time.Hour, opts...)
	if err != nil {
		out.Err = err.Error()
		return
	}
	for _, op := range c.Ops {
		key := func() string { return "k" + strconv.FormatInt(num(op[1]), 10) }
		switch op[0].(string) {
		case "set":
			cache.Set(key(), num(op[2]))
		case "get":
			v, ok := cache.Get(key())
			out.Obs = append(out.Obs, opt(v, ok))
		case "del":
			cache.Del(key())
		case "take":
			called := false
			v, err := cache.Take(key(), func() (any, error) {
				called = true
				if op[2] == nil {
					return nil, errFetch
				}
				return num(op[2]), nil
			})
			if err != nil {
				out.Obs = append(out.Obs, []any{"take", nil, called})
			} else {
				out.Obs = append(out.Obs, []any{"take", v, called})
			}
		case "take2":
			// A: Take(k) with a loader that parks on a gate; B: Take(k) started while A's
			// loader is parked; then the gate opens
			k := key()
			entered := make(chan struct{})
			gate := make(chan struct{})
			type res struct {
				v      any
				err    error
				called bool
			}
			ra, rb := make(chan res, 1), make(chan res, 1)
			go func() {
				called := false
				v, err := cache.Take(k, func() (any, error) {
					called = true
					close(entered)
					<-gate
					return num(op[2]), nil
				})
				ra <- res{v, err, called}
			}()
			select {
			case <-entered:
			case <-time.After(5 * time.Second):
				out.Err = "take2: first loader was not called (key present?)"
				return
			}
			go func() {
				called := false
				v, err := cache.Take(k, func() (any, error) {
					called = true
					return num(op[3]), nil
				})
				rb <- res{v, err, called}
			}()
			blocked := false
			deadline := time.Now().Add(3 * time.Second)
			for time.Now().Before(deadline) && !blocked {
				for _, g := range hx.Stacks() {
					if flightWaiter(g) {
						blocked = true
						break
					}
				}
				select {
				case r := <-rb: // B finished although A's loader is still parked
					rb <- r
					deadline = time.Now()
				default:
					if !blocked {
						time.Sleep(200 * time.Microsecond)
					}
				}
			}
			close(gate)
			a, b := <-ra, <-rb
			if a.err != nil || b.err != nil {
				out.Err = "take2: unexpected error"
				return
			}
			out.Obs = append(out.Obs, []any{"take", a.v, a.called})
			out.Pair = map[string]any{"b_val": b.v, "b_called": b.called, "b_blocked": blocked}
		}
	}
}

func runCase(c Case) (out Out) {
	out = Out{ID: c.ID, Obs: []any{}}
	defer func() {
		if r := recover(); r != nil {
			out.Err = fmt.Sprintf("panic: %v", r)
		}
	}()
	switch c.Kind {
	case "window":
		runWindow(c, &out)
	case "safemap":
		runSafeMap(c, &out)
	case "queue":
		runQueue(c, &out)
	case "ring":
		runRing(c, &out)
	case "set":
		runSet(c, &out)
	case "cache":
		runCache(c, &out, false)
	case "cache_rt":
		runCache(c, &out, true)
	case "cachew":
		runCacheW(c, &out)
	case "cache_take2":
		runCacheTake2(c, &out)
	default:
		out.Err = "unknown kind " + c.Kind
	}
	return out
}

func main() {
	logx.Disable()
	var cases []Case
	hx.ReadCases(&cases)
	w := hx.NewWriter()
	defer w.Close()
	res := make([]Out, len(cases))
	// real-time cache cases sleep: run them concurrently (each has its own cache);
	// everything else runs sequentially (the virtual clock is global)
	var wg sync.WaitGroup
	for i, c := range cases {
		if c.Kind == "cache_rt" {
			wg.Add(1)
			go func(i int, c Case) {
				defer wg.Done()
				res[i] = runCase(c)
			}(i, c)
		}
	}
	for i, c := range cases {
		if c.Kind != "cache_rt" {
			res[i] = runCase(c)
		}
	}
	wg.Wait()
	for _, r := range res {
		w.Put(r)
	}
}
